//! C09 — no definition string and no coordinate value can make the library panic or hang.
//!
//! Oracle (invariant): `Context::op(text)` returns Ok or Err; `Context::apply` in both
//! directions returns Ok(count) with count <= len; no panic (captured with its location),
//! no abort / stack overflow (engine supervisor), no hang (engine watchdog, 60 s per case;
//! one known hang class is detected in a killable child process instead).
//! "Err" is the documented contract for bad input and is never a violation.
//!
//! Generated: a grammar over every built-in operator name (hook), every gamut key (static
//! table cross-checked against a scan of src/inner_op/*.rs) plus unknown keys, values from
//! per-key valid pools and from an adversarial pool, modifiers in every spelling, pipelines
//! with every separator, macro libraries (incl. recursive), PROJ syntax, character level
//! mutations; three contexts (Minimal, Plain with cwd=<repo>, GridCtx with in-memory grids);
//! coordinate tuples from all f64 classes in four container types. Plus an exhaustive
//! catalogue (every operator x canonical definitions x direction x a lattice of special
//! f64 values in all four coordinate slots) and direct calls of every public function of
//! the ellipsoid, angular and tokenizer modules.
//!
//! For a Plain context the register / resource files found on disk are input as well
//! (`op("prefix:suffix")` reads `<prefix>.md` and `<prefix>_<suffix>.resource`): sections
//! `resource-files-truncated` (enumerated: item sets x fence layouts x line endings x search
//! path places, every file cut at every byte length and rewritten between calls on the same
//! context) and `resource-files-random` (drawn structure, byte-level mutations incl. invalid
//! UTF-8, very long lines, directories in the way) generate that environment in a private
//! tree that is cwd / XDG_DATA_HOME only while they run.

use geodesy::authoring::*;
use proptest::prelude::*;
use serde::{Deserialize, Serialize};
use std::collections::{BTreeMap, BTreeSet};
use std::path::PathBuf;
use std::sync::atomic::{AtomicBool, Ordering};
use std::sync::{Arc, Mutex, OnceLock};
use std::time::{Duration, Instant};
use vcore::geo::*;
use vcore::gridctx::{gravsoft_text, GridCtx};
use vcore::guard::{guard, PanicInfo};
use vcore::*;

// =====================================================================================
// Environment: operator catalogue, pools, grids
// =====================================================================================

#[derive(Clone, Copy, Debug, PartialEq, Eq, PartialOrd, Ord)]
enum Kind {
    Flag,
    Natural,
    Integer,
    Real,
    Series,
    Text,
    Texts,
}

fn kind_of(s: &str) -> Option<Kind> {
    Some(match s {
        "Flag" => Kind::Flag,
        "Natural" => Kind::Natural,
        "Integer" => Kind::Integer,
        "Real" => Kind::Real,
        "Series" => Kind::Series,
        "Text" => Kind::Text,
        "Texts" => Kind::Texts,
        _ => return None,
    })
}

#[derive(Clone, Debug, Default)]
struct OpSpec {
    keys: Vec<(String, Kind)>,
    /// groups of keys of which a valid definition gives exactly one
    one_of: Vec<Vec<String>>,
    /// keys a valid definition always gives
    always: Vec<String>,
}

use Kind::*;

/// Static gamut table, transcribed from the GAMUT constants of src/inner_op/*.rs.
/// (operators, keys, exactly-one groups, always-given keys)
#[allow(clippy::type_complexity)]
fn static_table() -> Vec<(&'static [&'static str], Vec<(&'static str, Kind)>, Vec<Vec<&'static str>>, Vec<&'static str>)> {
    let proj_common = |extra: &[(&'static str, Kind)]| -> Vec<(&'static str, Kind)> {
        let mut v = vec![("inv", Flag), ("ellps", Text), ("lat_0", Real), ("lon_0", Real), ("x_0", Real), ("y_0", Real)];
        v.extend_from_slice(extra);
        v
    };
    vec![
        (&["adapt"], vec![("inv", Flag), ("from", Text), ("to", Text)], vec![], vec![]),
        (&["addone"], vec![("inv", Flag)], vec![], vec![]),
        (&["axisswap"], vec![("inv", Flag), ("order", Series)], vec![], vec!["order"]),
        (&["btmerc", "tmerc"], proj_common(&[("k_0", Real)]), vec![], vec![]),
        (&["butm", "utm"], vec![("inv", Flag), ("south", Flag), ("ellps", Text), ("zone", Natural)], vec![], vec!["zone"]),
        (&["cart"], vec![("inv", Flag), ("ellps", Text)], vec![], vec![]),
        (
            &["curvature"],
            vec![("prime", Flag), ("meridian", Flag), ("gaussian", Flag), ("mean", Flag), ("azimuthal", Flag), ("ellps", Text)],
            vec![vec!["prime", "meridian", "gaussian", "mean", "azimuthal"]],
            vec![],
        ),
        (&["deflection"], vec![("grids", Texts), ("ellps", Text)], vec![], vec!["grids"]),
        (
            &["deformation"],
            vec![("inv", Flag), ("raw", Flag), ("grids", Texts), ("padding", Real), ("dt", Real), ("t_epoch", Real), ("ellps", Text)],
            vec![vec!["dt", "t_epoch"]],
            vec!["grids"],
        ),
        (&["dm", "dms"], vec![("inv", Flag)], vec![], vec![]),
        (&["geodesic"], vec![("inv", Flag), ("reversible", Flag), ("ellps", Text)], vec![], vec![]),
        (
            &["gravity"],
            vec![("cassinis", Flag), ("jeffreys", Flag), ("grs67", Flag), ("grs80", Flag), ("welmec", Flag), ("zero-height", Flag), ("ellps", Text)],
            vec![vec!["cassinis", "jeffreys", "grs67", "grs80", "welmec"]],
            vec![],
        ),
        (&["gridshift"], vec![("inv", Flag), ("grids", Texts), ("padding", Real)], vec![], vec!["grids"]),
        (
            &["helmert"],
            vec![
                ("inv", Flag), ("translation", Series), ("x", Real), ("y", Real), ("z", Real), ("velocity", Series), ("dx", Real),
                ("dy", Real), ("dz", Real), ("rotation", Series), ("rx", Real), ("ry", Real), ("rz", Real), ("angular_velocity", Series),
                ("drx", Real), ("dry", Real), ("drz", Real), ("convention", Text), ("exact", Flag), ("scale", Real), ("s", Real),
                ("scale_trend", Real), ("ds", Real), ("t_epoch", Real), ("t_obs", Real),
            ],
            vec![],
            vec!["convention"],
        ),
        (&["laea"], proj_common(&[]), vec![], vec![]),
        (
            &["latitude"],
            vec![("inv", Flag), ("geocentric", Flag), ("reduced", Flag), ("parametric", Flag), ("conformal", Flag), ("authalic", Flag), ("rectifying", Flag), ("ellps", Text)],
            vec![vec!["geocentric", "reduced", "parametric", "conformal", "authalic", "rectifying"]],
            vec![],
        ),
        (&["lcc"], proj_common(&[("lat_1", Real), ("lat_2", Real), ("k_0", Real)]), vec![], vec!["lat_1"]),
        (&["merc"], proj_common(&[("k_0", Real), ("lat_ts", Real)]), vec![], vec![]),
        (&["webmerc"], vec![("inv", Flag), ("ellps", Text)], vec![], vec![]),
        (
            &["molodensky"],
            vec![("inv", Flag), ("abridged", Flag), ("dx", Real), ("dy", Real), ("dz", Real), ("da", Real), ("df", Real), ("ellps", Text), ("ellps_0", Text), ("ellps_1", Text)],
            vec![],
            vec![],
        ),
        (
            &["omerc"],
            vec![("inv", Flag), ("variant", Flag), ("ellps", Text), ("latc", Real), ("lonc", Real), ("alpha", Real), ("gamma_c", Real), ("x_0", Real), ("y_0", Real), ("k_0", Real)],
            vec![],
            vec!["alpha", "latc"],
        ),
        (&["permtide"], vec![("inv", Flag), ("k", Real), ("ellps", Text), ("from", Text), ("to", Text)], vec![], vec!["from", "to"]),
        (&["somerc"], proj_common(&[("k_0", Real)]), vec![], vec![]),
        (&["unitconvert"], vec![("inv", Flag), ("xy_in", Text), ("xy_out", Text), ("z_in", Text), ("z_out", Text)], vec![], vec![]),
        (&["pipeline"], vec![("inv", Flag)], vec![], vec![]),
        (&["push", "pop"], vec![("v_1", Flag), ("v_2", Flag), ("v_3", Flag), ("v_4", Flag)], vec![], vec![]),
        (
            &["stack"],
            vec![("push", Series), ("pop", Series), ("roll", Series), ("unroll", Series), ("flip", Series), ("swap", Flag), ("drop", Flag)],
            vec![vec!["push", "pop", "roll", "unroll", "flip", "swap", "drop"]],
            vec![],
        ),
        (&["noop", "longlat", "latlon", "latlong", "lonlat"], vec![], vec![], vec![]),
    ]
}

/// Scan src/inner_op/*.rs for `OpParameter::<Kind> { key: "<k>"` and src/inner_op/mod.rs for
/// the (name, module) table, so operators / keys added later are still driven by the grammar.
fn scan_sources(repo: &PathBuf) -> BTreeMap<String, Vec<(String, Kind)>> {
    let dir = repo.join("src").join("inner_op");
    let mut by_module: BTreeMap<String, Vec<(String, Kind)>> = BTreeMap::new();
    let Ok(rd) = std::fs::read_dir(&dir) else { return BTreeMap::new() };
    let mut files: Vec<PathBuf> = rd.filter_map(|e| e.ok().map(|e| e.path())).filter(|p| p.extension().map(|e| e == "rs").unwrap_or(false)).collect();
    files.sort();
    for f in files {
        let Ok(txt) = std::fs::read_to_string(&f) else { continue };
        let txt = match txt.find("#[cfg(test)]") {
            Some(i) => &txt[..i],
            None => &txt[..],
        };
        let module = f.file_stem().unwrap().to_string_lossy().to_string();
        let mut keys = vec![];
        let mut rest = txt;
        while let Some(i) = rest.find("OpParameter::") {
            rest = &rest[i + "OpParameter::".len()..];
            let ident: String = rest.chars().take_while(|c| c.is_ascii_alphabetic()).collect();
            let Some(kind) = kind_of(&ident) else { continue };
            let window: String = rest.chars().take(80).collect();
            let Some(k) = window.find("key:") else { continue };
            let after = &window[k + 4..];
            let Some(q1) = after.find('"') else { continue };
            let Some(q2) = after[q1 + 1..].find('"') else { continue };
            let key = after[q1 + 1..q1 + 1 + q2].to_string();
            if !keys.iter().any(|(kk, _)| *kk == key) {
                keys.push((key, kind));
            }
        }
        by_module.insert(module, keys);
    }
    let mut by_op = BTreeMap::new();
    if let Ok(modrs) = std::fs::read_to_string(dir.join("mod.rs")) {
        for line in modrs.lines() {
            let l = line.trim();
            if !l.starts_with("(\"") || !l.contains("OpConstructor(") {
                continue;
            }
            let name = l[2..].split('"').next().unwrap_or("").to_string();
            let module = l.split("OpConstructor(").nth(1).unwrap_or("").split("::").next().unwrap_or("").to_string();
            if let Some(keys) = by_module.get(&module) {
                by_op.insert(name, keys.clone());
            }
        }
    }
    by_op
}

struct Pool {
    v: Vec<String>,
    /// the first `sane` entries are ordinary values, the rest are well-formed but extreme
    sane: usize,
}

fn pool(sane: &[&str], edgy: &[&str]) -> Pool {
    let mut v: Vec<String> = sane.iter().map(|s| s.to_string()).collect();
    v.extend(edgy.iter().map(|s| s.to_string()));
    Pool { v, sane: sane.len() }
}

struct Env {
    ops: Vec<String>,
    specs: BTreeMap<String, OpSpec>,
    pools: BTreeMap<(String, String), Pool>,
    kind_pools: BTreeMap<Kind, Pool>,
    grid_pools: [Pool; 3],
    adversarial: Vec<String>,
    unknown_keys: Vec<String>,
    unknown_ops: Vec<String>,
    grids: Vec<(String, Arc<dyn Grid>)>,
    uncovered_operators: Vec<String>,
    keys_only_in_source: Vec<String>,
    keys_only_in_table: Vec<String>,
    ellps_names: Vec<String>,
}

static ENV: OnceLock<Env> = OnceLock::new();
fn env() -> &'static Env {
    ENV.get().expect("env")
}

const LAT: (&[&str], &[&str]) = (&["0", "45", "-45", "55:30:36N", "60", "12:30S", "-33.5", "10"], &["90", "-90", "89.9999999999", "91", "-0", "1e-300", "1e300", "720"]);
const LON: (&[&str], &[&str]) = (&["0", "9", "-75", "12:30:10.5W", "120", "15E"], &["180", "-180", "360", "1e10", "1e300", "-0"]);
const AZI: (&[&str], &[&str]) = (&["53:18:56.9537", "30", "-45", "120", "53:07:48.3685"], &["0", "90", "-90", "180", "360", "1e300", "1e-300"]);
const LINEAR: (&[&str], &[&str]) = (&["0", "500000", "-1000000", "4321000", "0.001"], &["1e300", "-1e300", "1e-300", "inf", "-inf"]);
const SCALE: (&[&str], &[&str]) = (&["1", "0.9996", "0.99984", "1.0001"], &["0", "-1", "1e-300", "1e300", "inf", "-0"]);
const SMALLREAL: (&[&str], &[&str]) = (&["0", "1", "-0.5", "0.06155", "1e-8", "-87", "3"], &["1e300", "-1e300", "inf", "-inf", "1e-320", "-0", "12:30:36", "5S"]);
const EPOCH: (&[&str], &[&str]) = (&["2000", "1994.0", "2020.5", "1997"], &["0", "-1e300", "1e300", "inf", "-inf"]);
const ZONE: (&[&str], &[&str]) = (&["32", "1", "60", "33", "18"], &["0", "61", "007", "+5", "18446744073709551615", "4294967296"]);

fn build_env(repo: &PathBuf) -> Env {
    let ops: Vec<String> = geodesy::verif_hooks::builtin_operator_names().iter().map(|s| s.to_string()).collect();
    let ellps_names: Vec<String> = geodesy::verif_hooks::ellipsoid_table().iter().map(|e| e.0.to_string()).collect();
    let (lin, ang) = geodesy::verif_hooks::unit_tables();
    let mut unit_names: Vec<String> = lin.iter().map(|u| u.0.to_string()).collect();
    unit_names.extend(ang.iter().map(|u| u.0.to_string()));
    unit_names.sort();
    unit_names.dedup();

    // --- specs: static table merged with the source scan
    let scanned = scan_sources(repo);
    let mut specs: BTreeMap<String, OpSpec> = BTreeMap::new();
    for (names, keys, one_of, always) in static_table() {
        for n in names {
            specs.insert(
                n.to_string(),
                OpSpec {
                    keys: keys.iter().map(|(k, t)| (k.to_string(), *t)).collect(),
                    one_of: one_of.iter().map(|g| g.iter().map(|s| s.to_string()).collect()).collect(),
                    always: always.iter().map(|s| s.to_string()).collect(),
                },
            );
        }
    }
    let mut uncovered = vec![];
    let mut only_src = vec![];
    let mut only_tab = vec![];
    for op in &ops {
        if !specs.contains_key(op) {
            uncovered.push(op.clone());
            specs.insert(op.clone(), OpSpec { keys: vec![("inv".into(), Flag)], ..Default::default() });
        }
        let spec = specs.get_mut(op).unwrap();
        if let Some(src) = scanned.get(op) {
            for (k, t) in src {
                if !spec.keys.iter().any(|(kk, _)| kk == k) {
                    only_src.push(format!("{op}.{k}"));
                    spec.keys.push((k.clone(), *t));
                }
            }
            for (k, _) in &spec.keys {
                if !src.iter().any(|(kk, _)| kk == k) {
                    only_tab.push(format!("{op}.{k}"));
                }
            }
        }
    }

    // --- value pools
    let mut ellps_sane: Vec<String> = vec!["GRS80".into(), "intl".into(), "WGS84".into(), "bessel".into(), "6378137,298.257".into(), "6378388, 297".into()];
    ellps_sane.extend(ellps_names.iter().cloned());
    let ellps_edgy = [
        "6378137,0", "6378137,1", "6378137,0.5", "6378137,-298", "0,298", "-6378137,298", "1,1e300", "1e300,2", "1e-300,300", "6378137,1e-300",
        "6378137,inf", "inf,300", "NaN,NaN", "6378137,nan", "0,0", "1,2",
    ];
    let mut ellps_pool = Pool { v: ellps_sane.clone(), sane: ellps_sane.len() };
    ellps_pool.v.extend(ellps_edgy.iter().map(|s| s.to_string()));
    let mut unit_pool = Pool { v: unit_names.clone(), sane: unit_names.len() };
    unit_pool.v.extend(["M", "meter", "degree", ""].iter().map(|s| s.to_string()));

    let mut pools: BTreeMap<(String, String), Pool> = BTreeMap::new();
    for (op, spec) in &specs {
        for (key, kind) in &spec.keys {
            let p: Option<Pool> = match (op.as_str(), key.as_str()) {
                ("adapt", "from") | ("adapt", "to") => Some(pool(
                    &["neuf_deg", "enuf", "neuf", "enuf_rad", "wsdp_gon", "sedf_any", "nwuf_deg", "fune", "dsep_gon", "pass"],
                    &["enuf_xxx", "nsuf", "enu", "neufx", "eeee", "ENUF", "neuf_DEG", "neuf_deg_"],
                )),
                ("permtide", "from") | ("permtide", "to") => Some(pool(&["mean", "zero", "free"], &["tide", "MEAN", "mean,zero"])),
                ("permtide", "k") => Some(pool(&["0.3", "0.29", "0"], &["1", "-1", "1e300", "inf"])),
                (_, "ellps") | (_, "ellps_0") | (_, "ellps_1") => Some(Pool { v: ellps_pool.v.clone(), sane: ellps_pool.sane }),
                (_, "lat_0") | (_, "lat_1") | (_, "lat_2") | (_, "lat_3") | (_, "lat_ts") | (_, "latc") => Some(pool(LAT.0, LAT.1)),
                (_, "lon_0") | (_, "lon_1") | (_, "lon_2") | (_, "lon_3") | (_, "lonc") => Some(pool(LON.0, LON.1)),
                (_, "alpha") | (_, "gamma_c") => Some(pool(AZI.0, AZI.1)),
                (_, "x_0") | (_, "y_0") => Some(pool(LINEAR.0, LINEAR.1)),
                (_, "k_0") => Some(pool(SCALE.0, SCALE.1)),
                (_, "zone") => Some(pool(ZONE.0, ZONE.1)),
                ("axisswap", "order") => Some(pool(
                    &["2,1", "1,2,3,4", "-2,1,3", "4,3,2,1", "2,1,-3,4", "3,1,2", "1", "-1"],
                    &["1,2,3,4,5", "0", "1,1", "2", "5,1", "1.5,2", "1e19,1", "-0,1", "inf", "3,3,3,3", "1,-1"],
                )),
                ("stack", "push") | ("stack", "pop") | ("stack", "flip") => {
                    Some(pool(&["1", "1,2", "2,1", "1,2,3,4", "4,4", "3", "4,3,2,1"], &["0", "5", "1,0", "1.5", "-1", "1e300", "inf", "1,2,3,4,1,2,3,4,1"]))
                }
                ("stack", "roll") | ("stack", "unroll") => Some(pool(
                    &["2,1", "3,2", "3,-2", "4,1", "1,0", "8,7", "3,1", "2,-1"],
                    &["3,3", "0,0", "3", "3,1,1", "1e300,1", "1e300,-1e299", "-3,1", "inf,1", "9e18,-9e18", "2.5,1", "1e19,1e18", "4,-3"],
                )),
                (_, "padding") => Some(pool(&["0.5", "0", "1"], &["10", "-1", "-1e300", "1e300", "inf", "-inf"])),
                (_, "dt") => Some(pool(&["1", "10", "-10", "0.5"], &["0", "1e300", "-1e300", "inf"])),
                (_, "t_epoch") | (_, "t_obs") => Some(pool(EPOCH.0, EPOCH.1)),
                ("helmert", "convention") => Some(pool(&["position_vector", "coordinate_frame"], &["", "Position_Vector", "cf", "position_vector,coordinate_frame"])),
                ("helmert", "translation") | ("helmert", "velocity") | ("helmert", "rotation") | ("helmert", "angular_velocity") => {
                    Some(pool(&["1,2,3", "0,0,0", "-0.1,0.2,0.001", "0.06155,-0.01087,-0.04019"], &["1", "1,2", "1,2,3,4", "1e300,1e300,1e300", "inf,0,0", "1:2:3,4,5"]))
                }
                ("unitconvert", _) if *kind == Text => Some(Pool { v: unit_pool.v.clone(), sane: unit_pool.sane }),
                _ => None,
            };
            if let Some(p) = p {
                pools.insert((op.clone(), key.clone()), p);
            }
        }
    }
    let mut kind_pools = BTreeMap::new();
    kind_pools.insert(Flag, pool(&[""], &[]));
    kind_pools.insert(Natural, pool(&["1", "32", "0", "4"], &["18446744073709551615", "007"]));
    kind_pools.insert(Integer, pool(&["0", "-1", "5"], &["9223372036854775807", "-9223372036854775808"]));
    kind_pools.insert(Real, pool(SMALLREAL.0, SMALLREAL.1));
    kind_pools.insert(Series, pool(&["1,2,3", "1", "0,0"], &["1e300,-1e300", "1:2:3,4"]));
    kind_pools.insert(Text, pool(&["GRS80", "m", "x"], &["", "a,b"]));
    kind_pools.insert(Texts, pool(&["a,b", "x"], &[","]));

    // --- grids for GridCtx: the shipped files decoded once + three synthetic ones
    let mut grids: Vec<(String, Arc<dyn Grid>)> = vec![];
    for (sub, name) in [
        ("datum", "test.datum"),
        ("datum", "test_subset.datum"),
        ("geoid", "test.geoid"),
        ("deformation", "test.deformation"),
        ("gsb", "5458.gsb"),
        ("gsb", "5458_with_subgrid.gsb"),
        ("gsb", "100800401.gsb"),
    ] {
        if let Ok(bytes) = std::fs::read(repo.join("geodesy").join(sub).join(name)) {
            let g: Result<Arc<dyn Grid>, Error> =
                if name.ends_with(".gsb") { Ntv2Grid::new(&bytes).map(|g| Arc::new(g) as Arc<dyn Grid>) } else { BaseGrid::gravsoft(&bytes).map(|g| Arc::new(g) as Arc<dyn Grid>) };
            if let Ok(g) = g {
                grids.push((name.to_string(), g));
            }
        }
    }
    let mk = |bands: usize, rows: usize, cols: usize, base: f64| -> Vec<Vec<Vec<f64>>> {
        (0..bands).map(|b| (0..rows).map(|r| (0..cols).map(|c| base * (b as f64 + 1.0) + r as f64 * 0.25 - c as f64 * 0.125).collect()).collect()).collect()
    };
    for (name, txt) in [
        ("tiny.datum", gravsoft_text(54.0, 55.0, 11.0, 12.0, 1.0, 1.0, &mk(2, 2, 2, 3.0))),
        ("world.geoid", gravsoft_text(-90.0, 90.0, -180.0, 180.0, 45.0, 45.0, &mk(1, 5, 9, 30.0))),
        ("world.deformation", gravsoft_text(-90.0, 90.0, -180.0, 180.0, 90.0, 90.0, &mk(3, 3, 5, 2.0))),
    ] {
        if let Ok(g) = BaseGrid::gravsoft(txt.as_bytes()) {
            grids.push((name.to_string(), Arc::new(g)));
        }
    }
    let grid_names: Vec<String> = grids.iter().map(|g| g.0.clone()).collect();
    let gp = |names: &[&str]| -> Pool {
        let mut sane: Vec<String> = names.iter().map(|s| s.to_string()).collect();
        let n0 = sane.len();
        for i in 0..n0.min(3) {
            sane.push(format!("{},{}", names[i], names[(i + 1) % n0]));
            sane.push(format!("@missing.gsb,{}", names[i]));
            sane.push(format!("{}, @null", names[i]));
        }
        sane.push("@null".into());
        let n = sane.len();
        let mut v = sane;
        for e in ["@missing", "missing.gsb", "missing", "@", "@@null", "null", ",", "@null,@null", ".gsb", "..", ".", "gsb", "test.datum,,test.geoid", "@test.datum@"] {
            v.push(e.to_string());
        }
        Pool { v, sane: n }
    };
    let plain_names = ["test.datum", "test.geoid", "test.deformation", "5458.gsb", "5458_with_subgrid.gsb", "100800401.gsb", "test_subset.datum"];
    let grid_name_refs: Vec<&str> = grid_names.iter().map(|s| s.as_str()).collect();
    let grid_pools = [gp(&["@null", "@missing.datum"]), gp(&plain_names), gp(&grid_name_refs)];

    Env {
        ops,
        specs,
        pools,
        kind_pools,
        grid_pools,
        adversarial: adversarial_pool(),
        unknown_keys: ["foo", "R", "a", "rf", "k", "towgs84", "units", "é", "_name", "ellps_0", "null_grid", "noop", "action", "post", "mult", "coefficient", "_", "x y", "lat₀", "K_0", "zone", "grids", "inv", "omit_fwd", "omit_inv", "order", "push", "v_1", "ellps", "x", "dt", "from"]
            .iter()
            .map(|s| s.to_string())
            .collect(),
        unknown_ops: ["foo", "", "Utm", "utm32", "é", "proj", "step", "_", "no:such", ":", "a:", ":b", "m:a:b", "geo:in", "geo:out", "gis:in", "neu:out", "stupid:way", "stupid:way_too", "nkg:etrf2014", "pipeline", "nkg:itrf2014-sweref99", "nkg:itrf2014-etrs89dk", "nkg:test", "stupid:bad", "stupid:add_x", "stupid:add_something", "stupid:addthree", "stupid:way_three"]
            .iter()
            .map(|s| s.to_string())
            .collect(),
        grids,
        uncovered_operators: uncovered,
        keys_only_in_source: only_src,
        keys_only_in_table: only_tab,
        ellps_names,
    }
}

fn adversarial_pool() -> Vec<String> {
    let mut v: Vec<String> = [
        "", "-", "+", "--1", "+-1", "1e", "e5", "1e400", "-1e400", "1e-400", "NaN", "nan", "-nan", "inf", "-inf", "infinity", "0x10", "1_000", "1,", ",1", ",", ",,",
        "1,,2", "12:30:N", "12:30:", ":", "::", "1:2:3:4", "1:-2:3", "-0:30", "0:0:0S", "N", "S", "E", "W", "n", "5N5", "12N", "12NN", "12Ñ", "é", "5é", "é5", "5é5",
        "éé", "ééé", "éééé", "neué", "日本", "日", "😀", "5😀", "e\u{301}", "\u{301}", "\u{feff}", "\u{2028}", "\u{a0}", "１２", "٣", "$", "$$", "$x", "$x(", "$x()",
        "$(1)", "$x(1)(2)", "$x(1", "$ellps", "$ellps(intl)", "$missing", "$missing(7)", "$x($y)", "$ x", "(", ")", "()", "(1", "(1)", "((1))", ")(", "(GRS80)",
        "(6378137,298)", "*", "*1", "#", "#x", "a#b", "|", "||", "|noop", "<", ">", "<>", "> noop", "=", "==", "a=b", "=5", "\r", "\n", "\r\n", "\t", "\n:", "\u{0}",
        "\u{7f}", "true", "false", "TRUE", "True", "@null", "@", "@@null", "null", "@nonexistent.gsb", "nonexistent", "nonexistent.gsb", ".gsb", "..", ".",
        "test.datum,@null", "18446744073709551616", "-9223372036854775809", "9223372036854775807", "4294967296", "1.5", "-1", "0", "00", "1e19", "5,1", "1,2,3,4,5",
        "0,1", "1,1", "-1,-1", "3,3", "3,-3", "4,4,4,4", "1e300,1", "1e300,-1e299", "inf,1", "2,1,3,4,5,6,7,8,9", "₀", "x₁", "1₀", "foo", "GRS8", "grs80", "GRS80 ",
        "6378137", "6378137,", ",298", "6378137,298,1", "a,b", "6378137;298", "0,0", "-1,-1", "inv", "omit_fwd", "omit_inv", "inv inv", "noop", "geo:in", "m:a", "m:a inv",
        "proj=utm", "+proj=utm", "step", "init=epsg:4326",
    ]
    .iter()
    .map(|s| s.to_string())
    .collect();
    v.push("x".repeat(10_000));
    v.push("9".repeat(10_000));
    v.push("1,".repeat(5_000) + "1");
    v.push("é".repeat(5_000));
    v.push("1:".repeat(5_000));
    v.push("$".repeat(10_000));
    v.push("(".repeat(10_000));
    v.push("0.".to_string() + &"0".repeat(10_000) + "1");
    v
}

// =====================================================================================
// Grammar: raw draws -> definition text
// =====================================================================================

fn pick_w<T: Copy>(x: u16, items: &[(u32, T)]) -> T {
    let total: u32 = items.iter().map(|i| i.0).sum();
    let mut t = ((x as u64 * total as u64) >> 16) as u32;
    for (w, it) in items {
        if t < *w {
            return *it;
        }
        t -= *w;
    }
    items[items.len() - 1].1
}

#[derive(Clone, Debug)]
struct RawKV {
    key: u16,
    keymode: u16,
    mode: u16,
    val: u16,
    aux: u16,
}
/// spread a u8 draw over the u16 range (u8 draws shrink in 8 steps instead of 16)
fn w(x: u8) -> u16 {
    ((x as u16) << 8) | x as u16
}
#[derive(Clone, Debug)]
struct RawStep {
    opsel: u16,
    op: u16,
    nkv: u8,
    kv: Vec<RawKV>,
    modif: u16,
    spell: u16,
}
#[derive(Clone, Debug)]
struct RawMacro {
    name: u16,
    nsteps: u8,
    steps: Vec<RawStep>,
    sep: u16,
}
#[derive(Clone, Debug)]
struct RawDef {
    ctx: u16,
    form: u16,
    quality: u16,
    bad_slot: u16,
    nsteps: u8,
    steps: Vec<RawStep>,
    seps: Vec<u16>,
    layout: u16,
    nmacros: u8,
    macros: Vec<RawMacro>,
    muts: Vec<(u16, u16, u16)>,
    frags: Vec<(u16, u16)>,
    container: u16,
    coords: Vec<P4>,
}

fn raw_kv() -> impl Strategy<Value = RawKV> {
    (any::<u8>(), any::<u8>(), any::<u8>(), any::<u16>(), any::<u8>()).prop_map(|(key, keymode, mode, val, aux)| RawKV { key: w(key), keymode: w(keymode), mode: w(mode), val, aux: w(aux) })
}
fn raw_step(nkv: usize) -> impl Strategy<Value = RawStep> {
    (any::<u8>(), any::<u16>(), 0u8..=(nkv as u8), prop::collection::vec(raw_kv(), nkv..=nkv), any::<u8>(), any::<u8>())
        .prop_map(|(opsel, op, nkv, kv, modif, spell)| RawStep { opsel: w(opsel), op, nkv, kv, modif: w(modif), spell: w(spell) })
}
fn raw_macro() -> impl Strategy<Value = RawMacro> {
    (any::<u8>(), 1u8..=2, prop::collection::vec(raw_step(3), 2..=2), any::<u8>()).prop_map(|(name, nsteps, steps, sep)| RawMacro { name: w(name), nsteps, steps, sep: w(sep) })
}

/// Coordinates: all f64 classes, plus values inside the working domains so that
/// operators do real work (geographic radians incl. poles / antimeridian, degrees,
/// projected metres, geocentric cartesian).
fn coord() -> impl Strategy<Value = P4> {
    let special_angle = prop_oneof![
        Just(0.0f64),
        Just(std::f64::consts::FRAC_PI_2),
        Just(-std::f64::consts::FRAC_PI_2),
        Just(std::f64::consts::PI),
        Just(-std::f64::consts::PI),
        Just(std::f64::consts::FRAC_PI_2 + 1e-12),
        Just(2.0 * std::f64::consts::PI),
        -3.2f64..3.2
    ];
    prop_oneof![
        4 => any_p4_class(),
        2 => geo_rad(90.0, 180.0),
        2 => (special_angle.clone(), special_angle, prop_oneof![Just(0.0f64), -1.0e4f64..1.0e4, Just(-6.4e6f64)], prop_oneof![Just(0.0f64), 1900.0f64..2100.0, Just(f64::NAN)])
            .prop_map(|(a, b, c, d)| p4(a, b, c, d)),
        1 => (-180.0f64..180.0, -90.0f64..90.0, -100.0f64..9000.0, 1990.0f64..2030.0).prop_map(|(a, b, c, d)| p4(b, a, c, d)),
        1 => (-2.0e7f64..2.0e7, -2.0e7f64..2.0e7, -100.0f64..9000.0, 1990.0f64..2030.0).prop_map(|(a, b, c, d)| p4(a, b, c, d)),
        1 => (-7.0e6f64..7.0e6, -7.0e6f64..7.0e6, -7.0e6f64..7.0e6, 1990.0f64..2030.0).prop_map(|(a, b, c, d)| p4(a, b, c, d)),
        1 => (any_f64_class(), geo_rad(90.0, 180.0), 0usize..4).prop_map(|(v, mut p, i)| {
            p[i] = v;
            p
        }),
    ]
}

fn raw_def() -> impl Strategy<Value = RawDef> {
    let a = (any::<u8>(), any::<u8>(), any::<u8>(), any::<u8>(), 1u8..=5, prop::collection::vec(raw_step(5), 5..=5), prop::collection::vec(any::<u8>(), 5..=5));
    let b = (
        any::<u8>(),
        0u8..=3,
        prop::collection::vec(raw_macro(), 3..=3),
        prop_oneof![7 => Just(vec![]), 3 => prop::collection::vec((any::<u16>(), any::<u16>(), any::<u16>()), 1..=3)],
        prop::collection::vec((any::<u16>(), any::<u16>()), 0..=12),
        any::<u8>(),
        prop::collection::vec(coord(), 0..=7),
    );
    (a, b).prop_map(|((ctx, form, quality, bad_slot, nsteps, steps, seps), (layout, nmacros, macros, muts, frags, container, coords))| RawDef {
        ctx: w(ctx),
        form: w(form),
        quality: w(quality),
        bad_slot: w(bad_slot),
        nsteps,
        steps,
        seps: seps.into_iter().map(w).collect(),
        layout: w(layout),
        nmacros,
        macros,
        muts,
        frags,
        container: w(container),
        coords,
    })
}

const MACRO_NAMES: [&str; 8] = ["m:a", "m:b", "m:c", "x:y", "geo:in", "m:é", "stupid:way", "a:b:c"];
const MACRO_PARAMS: [&str; 10] = ["x", "e", "zone", "lat_0", "g", "k_0", "ellps", "y", "order", "dt"];
const MUT_CHARS: [char; 28] = [
    'é', '日', '😀', '\u{301}', '$', '(', ')', ',', ':', '|', '<', '>', '#', '\r', '\n', '=', ' ', '\u{0}', '₀', '@', '-', '+', 'N', 'e', '.', '*', '\t', '\u{a0}',
];
const SEPS: [&str; 14] = [" | ", "|", " > ", " < ", "\n| ", "\r\n| ", " |\n: ", " | # comment\n ", " || ", ">", "<", " |\r", "\t|\t", " | | "];
const PROJ_EXTRAS: [&str; 16] = [
    "a=6378137", "rf=298.257222101", "k=0.9996", "init=epsg:25832", "units=m", "no_defs", "type=crs", "rf=0", "a=é", "a=", "rf=", "k=", "k=é", "towgs84=0,0,0", "b=6356752", "R=6371000",
];

#[derive(Clone, Copy, PartialEq)]
enum Quality {
    Valid,
    OneBad,
    Chaotic,
}

struct Builder<'a> {
    env: &'a Env,
    ctx: u8,
    quality: Quality,
    macro_names: Vec<String>,
    in_body: bool,
    bad_slot: usize,
    slot: usize,
    proj: bool,
    ops_used: Vec<String>,
    sig: String,
}

impl<'a> Builder<'a> {
    fn value_pool(&self, op: &str, key: &str, kind: Kind) -> &'a Pool {
        let env = self.env;
        if key == "grids" {
            return &env.grid_pools[self.ctx as usize];
        }
        if let Some(p) = env.pools.get(&(op.to_string(), key.to_string())) {
            return p;
        }
        &env.kind_pools[&kind]
    }

    /// returns (value, class letter); value None = bare flag
    fn value(&mut self, op: &str, key: &str, kind: Kind, r: &RawKV) -> (Option<String>, char) {
        let env = self.env;
        let slot = self.slot;
        self.slot += 1;
        // V sane, E edgy, A adversarial, L lookup, O other kind
        let class = match self.quality {
            Quality::Valid => pick_w(r.mode, &[(22, 'V'), (3, 'E')]),
            Quality::OneBad => {
                if slot == self.bad_slot {
                    pick_w(r.mode, &[(6, 'A'), (1, 'O'), (1, 'L')])
                } else {
                    pick_w(r.mode, &[(22, 'V'), (3, 'E')])
                }
            }
            Quality::Chaotic => pick_w(r.mode, &[(8, 'V'), (3, 'E'), (7, 'A'), (1, 'O'), (1, 'L')]),
        };
        let class = if self.in_body && class == 'V' && r.aux % 3 == 0 { 'L' } else { class };
        let p = self.value_pool(op, key, kind);
        let sane = |x: u16| p.v[pick(x, p.sane.max(1)).min(p.v.len() - 1)].clone();
        let v = match class {
            'V' => sane(r.val),
            'E' => {
                if p.v.len() > p.sane {
                    p.v[p.sane + pick(r.val, p.v.len() - p.sane)].clone()
                } else {
                    sane(r.val)
                }
            }
            'A' => env.adversarial[pick(r.val, env.adversarial.len())].clone(),
            'O' => {
                let kinds = [Real, Text, Series, Natural, Texts, Integer];
                let k = kinds[pick(r.val, kinds.len())];
                let q = &env.kind_pools[&k];
                q.v[pick(r.aux, q.v.len())].clone()
            }
            _ => {
                let prm = MACRO_PARAMS[pick(r.aux, MACRO_PARAMS.len())];
                match if self.quality == Quality::Valid { 2 * pick(r.val, 2) } else { pick(r.val, 5) } {
                    0 => format!("${prm}({})", sane(r.aux.wrapping_mul(31))),
                    1 => format!("${prm}"),
                    2 => format!("({})", sane(r.aux.wrapping_mul(31))),
                    3 => format!("${key}"),
                    _ => format!("$ {prm} ( {} )", sane(r.aux.wrapping_mul(31))),
                }
            }
        };
        if kind == Flag && v.is_empty() {
            return (None, class);
        }
        (Some(v), class)
    }

    fn step(&mut self, r: &RawStep) -> String {
        let env = self.env;
        // --- operator name
        let sel = if self.macro_names.is_empty() {
            pick_w(r.opsel, &[(14, 0u8), (if self.quality == Quality::Chaotic { 1 } else { 0 }, 2)])
        } else {
            pick_w(r.opsel, &[(11, 0u8), (3, 1), (if self.quality == Quality::Chaotic { 1 } else { 0 }, 2)])
        };
        let name: String = match sel {
            0 => env.ops[pick(r.op, env.ops.len())].clone(),
            1 => self.macro_names[pick(r.op, self.macro_names.len())].clone(),
            _ => env.unknown_ops[pick(r.op, env.unknown_ops.len())].clone(),
        };
        self.step_named(&name, r)
    }

    fn step_named(&mut self, name: &str, r: &RawStep) -> String {
        let env = self.env;
        self.ops_used.push(name.to_string());
        let empty = OpSpec::default();
        let is_macro = name.contains(':');
        let spec = env.specs.get(name).unwrap_or(&empty);
        let mut kvs: Vec<(String, Option<String>)> = vec![];
        let mut classes = String::new();
        let mut used: BTreeSet<String> = BTreeSet::new();
        let chaotic = self.quality == Quality::Chaotic;
        let kind_of_key = |k: &str| spec.keys.iter().find(|(kk, _)| kk == k).map(|x| x.1);
        let mut ri = 0usize;
        let next_raw = |ri: &mut usize| -> RawKV {
            let x = r.kv[*ri % r.kv.len()].clone();
            *ri += 1;
            x
        };
        // required structure (skipped now and then in chaotic mode)
        let skip_required = chaotic && r.spell % 5 == 0;
        if !skip_required {
            for k in &spec.always {
                let raw = next_raw(&mut ri);
                let kind = kind_of_key(k).unwrap_or(Text);
                let (v, c) = self.value(name, k, kind, &raw);
                kvs.push((k.clone(), v));
                classes.push(c);
                used.insert(k.clone());
            }
            for g in &spec.one_of {
                let raw = next_raw(&mut ri);
                let k = &g[pick(raw.key, g.len())];
                let kind = kind_of_key(k).unwrap_or(Flag);
                let (v, c) = self.value(name, k, kind, &raw);
                kvs.push((k.clone(), v));
                classes.push(c);
                used.extend(g.iter().cloned());
            }
        }
        // optional keys
        let optional: Vec<&(String, Kind)> = spec.keys.iter().filter(|(k, _)| !used.contains(k) && k != "inv").collect();
        for _ in 0..r.nkv {
            let raw = next_raw(&mut ri);
            let bad_here = self.quality == Quality::OneBad && self.slot == self.bad_slot && raw.aux % 2 == 0;
            let keymode = if is_macro {
                3
            } else if chaotic || bad_here {
                pick_w(raw.keymode, &[(12, 0u8), (3, 1), (2, 2), (1, 4)])
            } else {
                0
            };
            let (key, kind): (String, Kind) = match keymode {
                0 if !optional.is_empty() => {
                    let (k, t) = optional[pick(raw.key, optional.len())];
                    (k.clone(), *t)
                }
                1 | 0 => (env.unknown_keys[pick(raw.key, env.unknown_keys.len())].clone(), Real),
                2 => {
                    let other = &env.specs[&env.ops[pick(raw.key, env.ops.len())]];
                    if other.keys.is_empty() {
                        ("foo".to_string(), Real)
                    } else {
                        let (k, t) = &other.keys[pick(raw.aux, other.keys.len())];
                        (k.clone(), *t)
                    }
                }
                3 => {
                    let k = MACRO_PARAMS[pick(raw.key, MACRO_PARAMS.len())];
                    let kind = match k {
                        "e" | "ellps" => Text,
                        "zone" => Natural,
                        "order" => Series,
                        _ => Real,
                    };
                    (k.to_string(), kind)
                }
                _ => match kvs.last() {
                    Some((k, _)) => (k.clone(), kind_of_key(k).unwrap_or(Real)),
                    None => ("foo".to_string(), Real),
                },
            };
            if !chaotic && !is_macro && used.contains(&key) {
                continue;
            }
            let pool_op = if is_macro {
                match key.as_str() {
                    "zone" => "utm",
                    "order" => "axisswap",
                    "lat_0" | "k_0" => "tmerc",
                    "dt" => "deformation",
                    _ => "cart",
                }
            } else {
                name
            };
            let pool_key = if is_macro && key == "e" { "ellps" } else { key.as_str() };
            let (v, c) = self.value(pool_op, pool_key, kind, &raw);
            used.insert(key.clone());
            kvs.push((key, v));
            classes.push(c);
        }
        if self.proj && !kvs.is_empty() && r.spell % 3 == 0 {
            let e = PROJ_EXTRAS[pick(r.modif, PROJ_EXTRAS.len())];
            let mut it = e.splitn(2, '=');
            let k = it.next().unwrap().to_string();
            kvs.push((k, it.next().map(|s| s.to_string())));
            classes.push('P');
        }
        // --- modifier
        let modifier: &[&str] = pick_w(r.modif, &[(12, &[][..]), (4, &["inv"][..]), (1, &["omit_fwd"][..]), (1, &["omit_inv"][..]), (1, &["inv", "omit_fwd"][..]), (1, &["inv", "inv"][..])]);
        let spell = pick_w(r.spell, &[(6, 0u8), (3, 1), (3, 2), (if chaotic { 1 } else { 0 }, 3), (1, 4)]);
        // --- render
        let plus = if self.proj { "+" } else { "" };
        let mut toks: Vec<String> = vec![];
        if self.proj {
            toks.push(format!("{plus}proj={name}"));
        } else {
            toks.push(name.to_string());
        }
        for (i, (k, v)) in kvs.iter().enumerate() {
            let k = if chaotic && r.kv[i % r.kv.len()].aux % 11 == 0 && k.ends_with("_0") { k.replace("_0", "₀") } else { k.clone() };
            let t = match v {
                None => format!("{plus}{k}"),
                Some(v) => match if chaotic { r.kv[i % r.kv.len()].aux % 7 } else { 0 } {
                    1 => format!("{plus}{k} = {v}"),
                    2 => format!("{plus}{k}= {v}"),
                    3 => format!("{plus}{k} ={v}"),
                    _ => format!("{plus}{k}={v}"),
                },
            };
            toks.push(t);
        }
        for m in modifier {
            let m = format!("{plus}{m}");
            match spell {
                0 => toks.push(m),
                1 => toks.insert(1.min(toks.len()), m),
                2 => toks.insert(0, m),
                3 => toks.push(format!("{m}=false")),
                _ => toks.push(format!("{m}=true")),
            }
        }
        let mut keys: Vec<&str> = kvs.iter().map(|k| k.0.as_str()).collect();
        keys.sort();
        self.sig.push_str(&format!("[{name}/{}/{}/{}{}]", keys.join(","), classes, modifier.join("+"), spell));
        toks.join(" ")
    }
}

#[derive(Clone, Debug, Serialize, Deserialize)]
struct DefCase {
    ctx: u8,
    via_parse_proj: bool,
    macros: Vec<(String, String)>,
    def: String,
    container: u8,
    coords: Vec<P4>,
    // generator's view, for the class histogram only
    form: String,
    ops: Vec<String>,
    sig: String,
}

fn mutate(text: &str, muts: &[(u16, u16, u16)]) -> String {
    let mut chars: Vec<char> = text.chars().collect();
    for (kind, pos, what) in muts {
        let n = chars.len();
        let at = pick(*pos, n + 1); // n = after the last character
        let c = MUT_CHARS[pick(*what, MUT_CHARS.len())];
        match pick(*kind, 6) {
            0 => chars.insert(at, c),
            1 => {
                if at < n {
                    chars[at] = c
                } else {
                    chars.push(c)
                }
            }
            2 => {
                if at < n {
                    chars.remove(at);
                }
            }
            3 => chars.truncate(at),
            4 => {
                let end = (at + 1 + (*what as usize % 12)).min(n);
                let span: Vec<char> = chars[at.min(n)..end].to_vec();
                for (i, ch) in span.into_iter().enumerate() {
                    chars.insert(end + i, ch);
                }
            }
            _ => {
                // swap two neighbouring characters
                if at + 1 < n {
                    chars.swap(at, at + 1);
                }
            }
        }
    }
    chars.into_iter().collect()
}

fn build_def(raw: &RawDef) -> DefCase {
    let env = env();
    let ctx = pick_w(raw.ctx, &[(5, 0u8), (3, 1), (3, 2)]);
    let quality = pick_w(raw.quality, &[(11, Quality::Valid), (5, Quality::OneBad), (7, Quality::Chaotic)]);
    let form = pick_w(raw.form, &[(9, 0u8), (9, 1), (4, 2), (4, 3), (1, 4), (2, 5)]);
    let proj = form == 3;
    // --- macro library
    let mut nmacros = raw.nmacros as usize;
    if form == 2 {
        nmacros = nmacros.max(1);
    }
    let mut names: Vec<String> = vec![];
    for m in raw.macros.iter().take(nmacros) {
        let n = MACRO_NAMES[pick(m.name, MACRO_NAMES.len())].to_string();
        if !names.contains(&n) {
            names.push(n);
        }
    }
    let mut b = Builder { env, ctx, quality, macro_names: names.clone(), in_body: true, bad_slot: 0, slot: 1000, proj: false, ops_used: vec![], sig: String::new() };
    let mut macros: Vec<(String, String)> = vec![];
    for (i, n) in names.iter().enumerate() {
        let m = &raw.macros[i];
        let mut body = String::new();
        // acyclic libraries (a body only calls later macros) unless chaotic: cycles and self calls
        b.macro_names = if quality == Quality::Chaotic { names.clone() } else { names[i + 1..].to_vec() };
        for (j, s) in m.steps.iter().take(m.nsteps as usize).enumerate() {
            if j > 0 {
                body.push_str(if quality == Quality::Chaotic { SEPS[pick(m.sep, SEPS.len())] } else { " | " });
            }
            body.push_str(&b.step(s));
        }
        macros.push((n.clone(), body));
    }
    b.macro_names = names.clone();
    b.in_body = false;
    b.slot = 0;
    b.proj = proj;
    b.sig.push('#');
    let total_slots: usize = raw.steps.iter().take(raw.nsteps as usize).map(|s| 2 + s.nkv as usize).sum::<usize>().max(1);
    b.bad_slot = pick(raw.bad_slot, total_slots);

    let nsteps = match form {
        0 => 1,
        1 => (raw.nsteps as usize).max(2),
        _ => raw.nsteps as usize,
    };
    let mut def = String::new();
    let form_name;
    match form {
        4 => {
            form_name = "garbage";
            let mut frag_pool: Vec<&str> = vec![" ", "=", "|", "inv", "omit_fwd", "omit_inv", "proj=", "+", "step", ":", "$", ",", "(", ")", "<", ">", "#", "\n", "_name="];
            let _ = &mut frag_pool;
            for (f, j) in &raw.frags {
                let piece: String = match pick_w(*f, &[(4, 0u8), (4, 1), (5, 2), (4, 3)]) {
                    0 => env.ops[pick(j.wrapping_mul(977), env.ops.len())].clone(),
                    1 => {
                        let spec = &env.specs[&env.ops[pick(*j, env.ops.len())]];
                        if spec.keys.is_empty() {
                            "x=".to_string()
                        } else {
                            format!("{}=", spec.keys[pick(j.wrapping_mul(389), spec.keys.len())].0)
                        }
                    }
                    2 => env.adversarial[pick(*j, env.adversarial.len())].clone(),
                    _ => frag_pool[pick(*j, frag_pool.len())].to_string(),
                };
                def.push_str(&piece);
                def.push_str(pick_w(f.wrapping_mul(7919), &[(5, " "), (3, ""), (1, " | "), (1, "=")]));
            }
            b.sig.push_str("garbage");
        }
        3 => {
            form_name = "proj";
            let plus = "+";
            if nsteps >= 2 || raw.layout % 4 == 0 {
                def.push_str(&format!("{plus}proj=pipeline"));
                match raw.layout % 5 {
                    1 => def.push_str(" +ellps=intl"),
                    2 => def.push_str(" +inv"),
                    3 => def.push_str(" +ellps=GRS80 +inv"),
                    _ => {}
                }
                for s in raw.steps.iter().take(nsteps) {
                    def.push_str(if raw.layout % 7 == 6 { "\n+step " } else { " +step " });
                    def.push_str(&b.step(s));
                }
            } else {
                def.push_str(&b.step(&raw.steps[0]));
            }
            if raw.layout % 3 == 0 {
                def = def.replace('+', "");
            }
        }
        _ => {
            form_name = match form {
                0 => "single",
                1 => "pipeline",
                5 => "stackprog",
                _ => "macro",
            };
            if form == 5 {
                // a deep stack first, so that every later stack instruction really executes
                def.push_str(if raw.layout % 2 == 0 { "stack push=1,2,3,4 | stack push=4,3,2,1 | " } else { "push v_1 v_2 v_3 v_4 | stack push=2,2 | " });
            }
            for (i, s) in raw.steps.iter().take(nsteps).enumerate() {
                if i > 0 {
                    def.push_str(if quality == Quality::Valid { pick_w(raw.seps[i], &[(10, " | "), (2, "|"), (1, " > "), (1, " < "), (1, "\n| ")]) } else { SEPS[pick(raw.seps[i], SEPS.len())] });
                }
                let text = if form == 5 {
                    let n = pick_w(s.opsel, &[(9, "stack"), (2, "push"), (2, "pop"), (1, "addone"), (1, "axisswap")]);
                    b.step_named(n, s)
                } else if form == 2 && i == 0 && !names.is_empty() {
                    let n = names[pick(s.op, names.len())].clone();
                    b.step_named(&n, s)
                } else {
                    b.step(s)
                };
                def.push_str(&text);
            }
            if quality == Quality::Chaotic {
                match raw.layout % 9 {
                    0 => def = format!("  {def}\r\n"),
                    1 => def = format!("# leading comment\n{def}"),
                    2 => def = format!("{def} # trailing"),
                    3 => def = format!("\n: {def}"),
                    4 => def = format!("|{def}|"),
                    _ => {}
                }
            }
        }
    }
    let mutated = !raw.muts.is_empty();
    if mutated {
        def = mutate(&def, &raw.muts);
    }
    let mut ops = b.ops_used.clone();
    ops.sort();
    ops.dedup();
    DefCase {
        ctx,
        via_parse_proj: proj && ctx != 1 && raw.layout % 2 == 0,
        macros,
        def,
        container: pick_w(raw.container, &[(5, 0u8), (1, 1), (1, 2), (1, 3)]),
        coords: raw.coords.clone(),
        form: format!("{form_name}{}{}", if mutated { "+mut" } else { "" }, match quality {
            Quality::Valid => "/valid",
            Quality::OneBad => "/onebad",
            Quality::Chaotic => "/chaotic",
        }),
        ops,
        sig: b.sig,
    }
}

// =====================================================================================
// Oracle for definitions
// =====================================================================================

/// Set when the start-up probe (child process) finds that a step consisting only of
/// modifiers never returns: the class is then reported by section `modifier-only-steps`
/// and excluded by construction everywhere else (a hang cannot be tolerated in-process).
static HANG_MODIFIER_ONLY: AtomicBool = AtomicBool::new(false);
static INSTANTIATED: Mutex<BTreeMap<String, u64>> = Mutex::new(BTreeMap::new());

const MODIFIERS: [&str; 3] = ["inv", "omit_fwd", "omit_inv"];

fn modifier_only(text: &str) -> bool {
    let n = text.normalize();
    let e: Vec<&str> = n.split_whitespace().collect();
    !e.is_empty() && e.iter().all(|x| MODIFIERS.contains(x))
}
/// true if instantiating `def` would tokenize a step made of modifiers only
fn has_modifier_only_step(def: &str) -> bool {
    modifier_only(def) || def.split_into_steps().iter().any(|s| modifier_only(s))
}

/// Keys listed as `known` (known_findings.json and the draft known_findings.d/C09.json):
/// a case that hits one of them keeps looking for a different failure behind it.
static KNOWN: OnceLock<Vec<String>> = OnceLock::new();
fn load_known() -> Vec<String> {
    let root = PathBuf::from(std::env::var("VERIF_ROOT").unwrap_or_else(|_| "/verif".into()));
    let mut out = vec![];
    for f in [root.join("known_findings.json"), root.join("known_findings.d").join("C09.json")] {
        let Ok(t) = std::fs::read_to_string(f) else { continue };
        let Ok(v) = serde_json::from_str::<serde_json::Value>(&t) else { continue };
        for e in v["findings"].as_array().cloned().unwrap_or_default() {
            if e["property"] == "C09" && e["status"] == "known" {
                if let Some(k) = e["key"].as_str() {
                    out.push(k.to_string());
                }
            }
        }
    }
    out
}
fn is_known_key(key: &str) -> bool {
    KNOWN.get().map(|k| k.iter().any(|l| vcore::engine::key_matches(l, key))).unwrap_or(false)
}

/// Collects the failures of one case: a failure not listed as known wins over a known one.
#[derive(Default)]
struct Coll {
    known: Option<Failure>,
    new: Option<Failure>,
}
impl Coll {
    fn add(&mut self, key: String, msg: String) {
        let slot = if is_known_key(&key) { &mut self.known } else { &mut self.new };
        if slot.is_none() {
            *slot = Some(Failure { key, msg });
        }
    }
    fn add_result(&mut self, r: CaseResult) {
        if let Err(f) = r {
            self.add(f.key, f.msg);
        }
    }
    fn result(self) -> CaseResult {
        match (self.new, self.known) {
            (Some(f), _) | (None, Some(f)) => Err(f),
            _ => Ok(()),
        }
    }
}

fn panic_key(p: &PanicInfo) -> String {
    format!("panic@{}", p.sig())
}

fn err_class(e: &Error) -> &'static str {
    match e {
        Error::Io(_) => "Io",
        Error::General(_) => "General",
        Error::Syntax(_) => "Syntax",
        Error::Operator(_, _) => "Operator",
        Error::InvalidHeader { .. } => "InvalidHeader",
        Error::Unexpected { .. } => "Unexpected",
        Error::NotFound(_, _) => "NotFound",
        Error::Recursion(_, _) => "Recursion",
        Error::NonInvertible(_) => "NonInvertible",
        Error::MissingParam(_) => "MissingParam",
        Error::BadParam(_, _) => "BadParam",
        Error::Unsupported(_) => "Unsupported",
        Error::Invalid(_) => "Invalid",
        Error::Utf8Error(_) => "Utf8Error",
        Error::Unknown => "Unknown",
    }
}

fn show(s: &str) -> String {
    if s.len() > 400 {
        let mut cut = 200;
        while !s.is_char_boundary(cut) {
            cut -= 1;
        }
        let mut tail = s.len() - 100;
        while !s.is_char_boundary(tail) {
            tail += 1;
        }
        format!("{:?}…({} bytes)…{:?}", &s[..cut], s.len(), &s[tail..])
    } else {
        format!("{s:?}")
    }
}

enum Data {
    D4(Vec<Coor4D>),
    D3(Vec<Coor3D>),
    D2(Vec<Coor2D>),
    D32(Vec<Coor32>),
}
impl Data {
    fn new(container: u8, coords: &[P4]) -> Data {
        match container {
            1 => Data::D3(coords.iter().map(|p| Coor3D([p[0].0, p[1].0, p[2].0])).collect()),
            2 => Data::D2(coords.iter().map(|p| Coor2D([p[0].0, p[1].0])).collect()),
            3 => Data::D32(coords.iter().map(|p| Coor32([p[0].0 as f32, p[1].0 as f32])).collect()),
            _ => Data::D4(c4s(coords)),
        }
    }
    fn set(&mut self) -> &mut dyn CoordinateSet {
        match self {
            Data::D4(v) => v,
            Data::D3(v) => v,
            Data::D2(v) => v,
            Data::D32(v) => v,
        }
    }
}
fn container_name(c: u8) -> &'static str {
    match c {
        1 => "Vec<Coor3D>",
        2 => "Vec<Coor2D>",
        3 => "Vec<Coor32>",
        _ => "Vec<Coor4D>",
    }
}

/// Apply first in direction `first`, then in the opposite direction, on the same data.
/// Err(Some(panic)) / Err(None)=count violation message in `why`.
fn apply_chain<C: Context>(ctx: &C, op: OpHandle, first_fwd: bool, container: u8, coords: &[P4], why: &mut String) -> Result<(), Option<PanicInfo>> {
    let n = coords.len();
    let mut data = Data::new(container, coords);
    for (k, fwd) in [first_fwd, !first_fwd].into_iter().enumerate() {
        match try_apply(ctx, op, dir_of(fwd), data.set()) {
            Err(p) => {
                *why = format!("apply #{} ({:?}) panics: {} at {}:{}", k + 1, dir_of(fwd), p.msg, p.file, p.line);
                return Err(Some(p));
            }
            Ok(Err(_)) => {} // an error value is within the contract
            Ok(Ok(count)) => {
                if count > n {
                    *why = format!("apply #{} ({:?}) returned count {count} for {n} tuples", k + 1, dir_of(fwd));
                    return Err(None);
                }
            }
        }
    }
    Ok(())
}

/// Both orders (Fwd then Inv, Inv then Fwd). On a panic, the offending single tuple is looked for.
fn apply_all<C: Context>(ctx: &C, op: OpHandle, container: u8, coords: &[P4], what: &str) -> CaseResult {
    let mut coll = Coll::default();
    for first_fwd in [true, false] {
        coll.add_result(apply_order(ctx, op, first_fwd, container, coords, what));
    }
    coll.result()
}

fn apply_order<C: Context>(ctx: &C, op: OpHandle, first_fwd: bool, container: u8, coords: &[P4], what: &str) -> CaseResult {
    {
        let mut why = String::new();
        match apply_chain(ctx, op, first_fwd, container, coords, &mut why) {
            Ok(()) => {}
            Err(None) => vfail!("count-exceeds-len", "{what}: {why}; container {}; input {:?}", container_name(container), coords),
            Err(Some(p)) => {
                // narrow down to one tuple if a single tuple reproduces it
                let mut single = None;
                for c in coords {
                    let mut w = String::new();
                    if let Err(Some(_)) = apply_chain(ctx, op, first_fwd, container, std::slice::from_ref(c), &mut w) {
                        single = Some((*c, w));
                        break;
                    }
                }
                match single {
                    Some((c, w)) => vfail!(panic_key(&p), "{what}: on the single tuple {} in a {}: {w}", fmt_c4(&c4(&c)), container_name(container)),
                    None => vfail!(panic_key(&p), "{what}: {why}; container {}; input {:?}", container_name(container), coords),
                }
            }
        }
    }
    Ok(())
}

fn grid_ctx() -> GridCtx {
    let mut c = GridCtx::new();
    for (n, g) in &env().grids {
        c.add_grid(n, g.clone());
    }
    c
}

fn check_def(case: &DefCase, rec: &mut Rec) -> CaseResult {
    match case.ctx {
        0 => run_def(&mut Minimal::new(), "Minimal", case, rec),
        1 => run_def(&mut Plain::new(), "Plain", case, rec),
        _ => run_def(&mut grid_ctx(), "GridCtx", case, rec),
    }
}

fn run_def<C: Context>(ctx: &mut C, ctx_name: &str, case: &DefCase, rec: &mut Rec) -> CaseResult {
    let mut def = case.def.clone();
    let describe = |def: &str| -> String {
        let mut s = format!("{ctx_name} context, definition {}", show(def));
        for (n, b) in &case.macros {
            s.push_str(&format!(", macro {n} = {}", show(b)));
        }
        s
    };
    // PROJ text in a context whose op() does not translate: translate like a user would
    let translate = case.via_parse_proj || case.ctx == 1;
    let mut translated: Option<String> = None;
    if translate {
        match guard(|| parse_proj(&def)) {
            Err(p) => vfail!(panic_key(&p), "parse_proj({}) panics: {} at {}:{}", show(&def), p.msg, p.file, p.line),
            Ok(Ok(t)) => translated = Some(t),
            Ok(Err(_)) => {
                if case.via_parse_proj {
                    rec.class(&format!("{}/parse_proj-error", case.form));
                    return Ok(());
                }
            }
        }
    }
    if HANG_MODIFIER_ONLY.load(Ordering::Relaxed) {
        let hit = has_modifier_only_step(&def) || translated.as_deref().map(has_modifier_only_step).unwrap_or(false) || case.macros.iter().any(|m| has_modifier_only_step(&m.1));
        if hit {
            rec.count("excluded_known_modifier_only_step", 1);
            rec.class("excluded/modifier-only-step");
            return Ok(());
        }
    }
    if case.via_parse_proj {
        def = translated.clone().unwrap_or(def);
    }
    for (n, b) in &case.macros {
        if let Err(p) = guard(|| ctx.register_resource(n, b)) {
            vfail!(panic_key(&p), "register_resource({n:?}, {}) panics: {} at {}:{}", show(b), p.msg, p.file, p.line);
        }
    }
    let outcome: String;
    match try_op(ctx, &def) {
        Err(p) => vfail!(panic_key(&p), "instantiation panics: {}: {} at {}:{}", describe(&def), p.msg, p.file, p.line),
        Ok(Err(e)) => {
            let c = err_class(&e);
            outcome = format!("err-{c}");
            if !matches!(e, Error::NotFound(_, _) | Error::Syntax(_)) {
                rec.nontrivial(&(&case.sig, c, case.ctx));
                rec.count("reached_constructor_error", 1);
            } else {
                rec.count("rejected_before_constructor", 1);
            }
        }
        Ok(Ok(op)) => {
            outcome = "instantiated".to_string();
            rec.count("instantiated", 1);
            rec.nontrivial(&(&case.sig, "ok", case.ctx, case.container));
            {
                let mut m = INSTANTIATED.lock().unwrap();
                for o in &case.ops {
                    *m.entry(o.clone()).or_insert(0) += 1;
                }
            }
            apply_all(ctx, op, case.container, &case.coords, &describe(&def))?;
            rec.count("tuples_applied", 4 * case.coords.len() as u64);
        }
    }
    rec.class(&format!("{}/{}", case.form, outcome));
    rec.class(&format!("ctx:{ctx_name}/{}", if outcome == "instantiated" { "instantiated" } else { "error" }));
    if case.ops.len() == 1 && (case.form.starts_with("single") || case.form.starts_with("proj")) && !case.form.contains("+mut") {
        rec.class(&format!("op:{}/{}", case.ops[0], outcome));
    }
    Ok(())
}

// =====================================================================================
// Macro arguments: every operator wrapped in a macro, parameters handed down by the caller
// =====================================================================================

/// Body of the macro `x:<op>`: the bare operator plus what it needs to instantiate,
/// never mentioning `exclude` (so that this key can only arrive through macro arguments).
fn macro_body(op: &str, exclude: &str, ctx: u8) -> String {
    let env = env();
    let empty = OpSpec::default();
    let spec = env.specs.get(op).unwrap_or(&empty);
    let mut s = op.to_string();
    let give = |k: &str, s: &mut String| {
        if k == exclude {
            return;
        }
        let kind = spec.keys.iter().find(|x| x.0 == k).map(|x| x.1).unwrap_or(Text);
        let v: String = if k == "grids" {
            match (ctx, op) {
                (0, _) => "@null".to_string(),
                (_, "deformation") => "test.deformation".to_string(),
                (_, "deflection") => "test.geoid".to_string(),
                _ => "test.datum".to_string(),
            }
        } else if let Some(p) = env.pools.get(&(op.to_string(), k.to_string())) {
            p.v[0].clone()
        } else {
            env.kind_pools[&kind].v[0].clone()
        };
        if kind == Flag || v.is_empty() {
            s.push_str(&format!(" {k}"));
        } else {
            s.push_str(&format!(" {k}={v}"));
        }
    };
    for k in &spec.always {
        give(k, &mut s);
    }
    for g in &spec.one_of {
        if !g.iter().any(|k| k == exclude) {
            give(&g[0], &mut s);
        }
    }
    s
}

const MACRO_ARG_VARIANTS: usize = 6;

/// (macro library, invocation text) for one wrapped operator; `args` is the argument text
fn macro_arg_case(op: &str, exclude: &str, ctx: u8, variant: usize, args: &str) -> (Vec<(String, String)>, String) {
    let body = macro_body(op, exclude, ctx);
    let name = format!("x:{op}");
    match variant {
        0 => (vec![(name.clone(), body)], format!("{name} {args}")),
        1 => (vec![(name.clone(), format!("{body} | noop"))], format!("{name} {args}")),
        2 => (vec![(name.clone(), body), ("x:outer".to_string(), name)], format!("x:outer {args}")),
        3 => (vec![(name.clone(), body), ("x:outer".to_string(), format!("noop | {name} | noop"))], format!("x:outer {args}")),
        4 => (vec![(name.clone(), body)], format!("noop | {name} {args}")),
        _ => (vec![(name.clone(), format!("noop | {body}"))], format!("{name} {args} inv")),
    }
}

fn macro_arg_coords() -> Vec<P4> {
    vec![p4(0.2, 0.9, 10.0, 2020.0), p4(f64::NAN, f64::INFINITY, -0.0, 1.0e300), p4(3.5e6, 0.8e6, 5.2e6, 1999.5)]
}

/// All values tried as a single hostile argument: the adversarial pool plus every
/// well-formed-but-extreme value of every key pool.
fn hostile_values() -> Vec<String> {
    let env = env();
    let mut v = env.adversarial.clone();
    let mut seen: BTreeSet<String> = v.iter().cloned().collect();
    let mut push = |x: &String, v: &mut Vec<String>| {
        if seen.insert(x.clone()) {
            v.push(x.clone());
        }
    };
    for p in env.pools.values().chain(env.kind_pools.values()).chain(env.grid_pools.iter()) {
        for x in &p.v[p.sane.min(p.v.len())..] {
            push(x, &mut v);
        }
        for x in p.v.iter().take(2) {
            push(x, &mut v);
        }
    }
    for x in ["no_such_ellipsoid", "6378137,298.25,17", "GRS80,intl", "$ellps_0", "$ellps_1", "$ellps_1(intl)", "$a($b($c))", "$grids", "$x,$y", "intl, GRS80", "WGS84;", "ＧＲＳ８０"] {
        push(&x.to_string(), &mut v);
    }
    v
}

#[derive(Clone, Debug)]
struct RawMacroArgs {
    op: u16,
    variant: u8,
    ctx: u8,
    exclude_first: bool,
    args: Vec<(u16, RawKV)>,
    modif: u8,
    container: u8,
    coords: Vec<P4>,
}

fn raw_macro_args() -> impl Strategy<Value = RawMacroArgs> {
    (any::<u16>(), 0u8..(MACRO_ARG_VARIANTS as u8), 0u8..3, any::<bool>(), prop::collection::vec((any::<u16>(), raw_kv()), 1..=4), any::<u8>(), any::<u8>(), prop::collection::vec(coord(), 0..=4))
        .prop_map(|(op, variant, ctx, exclude_first, args, modif, container, coords)| RawMacroArgs { op, variant, ctx, exclude_first, args, modif, container, coords })
}

/// Random: several arguments (gamut keys of the wrapped operator, sometimes foreign keys)
/// with valid / extreme / hostile / `$`-lookup values.
fn build_macro_args(r: &RawMacroArgs) -> DefCase {
    let env = env();
    let op = env.ops[pick(r.op, env.ops.len())].clone();
    let spec = &env.specs[&op];
    let mut b = Builder { env, ctx: r.ctx, quality: Quality::Chaotic, macro_names: vec![], in_body: false, bad_slot: 0, slot: 0, proj: false, ops_used: vec![op.clone()], sig: String::new() };
    let mut args = String::new();
    let mut first_key = String::new();
    let mut classes = String::new();
    let mut keys: Vec<String> = vec![];
    for (ksel, kv) in &r.args {
        let (key, kind): (String, Kind) = if spec.keys.is_empty() || kv.keymode % 8 == 0 {
            let other = &env.specs[&env.ops[pick(*ksel, env.ops.len())]];
            if other.keys.is_empty() {
                ("ellps_1".to_string(), Text)
            } else {
                other.keys[pick(kv.key, other.keys.len())].clone()
            }
        } else {
            spec.keys[pick(*ksel, spec.keys.len())].clone()
        };
        if first_key.is_empty() {
            first_key = key.clone();
        }
        let (v, c) = b.value(&op, &key, kind, kv);
        classes.push(c);
        match v {
            None => args.push_str(&format!("{key} ")),
            Some(v) => args.push_str(&format!("{key}={v} ")),
        }
        keys.push(key);
    }
    match r.modif % 8 {
        0 => args.push_str("inv"),
        1 => args.push_str("omit_fwd"),
        _ => {}
    }
    let exclude = if r.exclude_first { first_key.as_str() } else { "" };
    let (macros, def) = macro_arg_case(&op, exclude, r.ctx, r.variant as usize, args.trim_end());
    keys.sort();
    DefCase {
        ctx: r.ctx,
        via_parse_proj: false,
        macros,
        def,
        container: pick_w(w(r.container), &[(5, 0u8), (1, 1), (1, 2), (1, 3)]),
        coords: r.coords.clone(),
        form: format!("macroargs-v{}", r.variant),
        ops: vec![op.clone()],
        sig: format!("[x:{op}/{}/{classes}/v{}]", keys.join(","), r.variant),
    }
}

// =====================================================================================
// Catalogue: every operator x canonical definitions x direction x f64 lattice
// =====================================================================================

#[derive(Clone, Debug, Serialize, Deserialize)]
struct CatCase {
    op: String,
    def: String,
    ctx: u8,
    first_fwd: bool,
    first: F,
    /// thorough tier: the second slot is fixed too (smaller batches, bounded time per case)
    #[serde(default)]
    second: Option<F>,
    lattice: Vec<F>,
}

fn lattice(thorough: bool) -> Vec<f64> {
    use std::f64::consts::{FRAC_PI_2, PI};
    let mut v = vec![f64::NAN, f64::INFINITY, f64::NEG_INFINITY, 0.0, -0.0, f64::MIN_POSITIVE / 8.0, 1.0e300, -1.0e300, FRAC_PI_2, -FRAC_PI_2, PI, 1.0, 6.4e6, 180.0];
    if thorough {
        v.extend([f64::MAX, f64::MIN_POSITIVE, -PI, 1.0e-300, 90.0, -90.0, 2.0 * PI, 1.0e16, -1.0, 2020.0]);
    }
    v
}

const ELLPS_SHAPES: [&str; 9] = ["intl", "6378137,0", "6378137,1", "6378137,0.5", "6378137,-298", "0,298", "-6378137,298", "6378137,1e-300", "NaN,NaN"];

/// (operator, definition, needs grids)
fn catalogue() -> Vec<(String, String, bool)> {
    let env = env();
    let mut v: Vec<(&str, String, bool)> = vec![];
    let mut add = |op: &'static str, defs: &[&str]| {
        for d in defs {
            v.push((op, d.to_string(), d.contains("grids=")));
        }
    };
    add("adapt", &["adapt from=neuf_deg", "adapt to=wsdp_gon", "adapt from=sedf_rad to=nwuf_deg", "adapt from=pass", "adapt inv from=dsep_gon"]);
    add("addone", &["addone", "addone inv"]);
    add("axisswap", &["axisswap order=2,1", "axisswap order=-4,3,-2,1", "axisswap order=3,1,2", "axisswap", "axisswap order=-1"]);
    add("btmerc", &["btmerc lat_0=10 lon_0=9 k_0=0.9996 x_0=500000", "btmerc", "btmerc lat_0=90 k_0=0"]);
    add("tmerc", &["tmerc lat_0=10 lon_0=9 k_0=0.9996 x_0=500000", "tmerc", "tmerc lat_0=90 k_0=0"]);
    add("butm", &["butm zone=32", "butm zone=1 south", "butm zone=60 inv"]);
    add("utm", &["utm zone=32", "utm zone=1 south", "utm zone=60 inv"]);
    add("cart", &["cart", "cart inv"]);
    add("curvature", &["curvature prime", "curvature meridian", "curvature gaussian", "curvature mean", "curvature azimuthal"]);
    add("deflection", &["deflection grids=test.geoid", "deflection grids=world.geoid", "deflection grids=@null", "deflection grids=test.datum"]);
    add(
        "deformation",
        &[
            "deformation grids=test.deformation dt=1",
            "deformation grids=test.deformation t_epoch=2000",
            "deformation raw grids=test.deformation dt=1000",
            "deformation grids=world.deformation t_epoch=2000 inv",
            "deformation grids=@null dt=1",
            "deformation grids=test.deformation,@null dt=inf t_epoch=1e300",
        ],
    );
    add("dm", &["dm", "dm inv"]);
    add("dms", &["dms", "dms inv"]);
    add("geodesic", &["geodesic", "geodesic reversible", "geodesic inv"]);
    add("gravity", &["gravity", "gravity cassinis", "gravity jeffreys", "gravity grs67", "gravity grs80", "gravity welmec", "gravity zero-height welmec"]);
    add(
        "gridshift",
        &[
            "gridshift grids=test.datum",
            "gridshift grids=test.geoid",
            "gridshift grids=5458.gsb",
            "gridshift grids=5458_with_subgrid.gsb",
            "gridshift grids=100800401.gsb inv",
            "gridshift grids=@null",
            "gridshift grids=test.datum,@null",
            "gridshift grids=tiny.datum, world.geoid",
            "gridshift grids=world.geoid, tiny.datum padding=-1e300",
            "gridshift grids=@missing",
            "gridshift grids=test.deformation",
        ],
    );
    add(
        "helmert",
        &[
            "helmert x=1 y=2 z=3",
            "helmert convention=position_vector x=0.06155 y=-0.01087 z=-0.04019 rx=-0.0394924 ry=-0.0327221 rz=-0.0328979 s=-0.009994",
            "helmert exact convention=coordinate_frame rotation=1,2,3 translation=1,2,3 scale=1",
            "helmert convention=position_vector x=1 dx=0.1 rx=0.01 drx=0.001 s=0.1 ds=0.01 t_epoch=2000",
            "helmert convention=coordinate_frame translation=1,2,3 velocity=0.1,0.2,0.3 angular_velocity=1,2,3 t_epoch=1994 t_obs=2010 inv",
            "helmert convention=position_vector rotation=1e300,inf,-inf exact",
        ],
    );
    add("laea", &["laea", "laea lat_0=90", "laea lat_0=-90", "laea lat_0=52 lon_0=10 x_0=4321000 y_0=3210000"]);
    add("latitude", &["latitude geocentric", "latitude reduced", "latitude parametric", "latitude conformal", "latitude authalic", "latitude rectifying", "latitude conformal inv"]);
    add("lcc", &["lcc lat_1=33 lat_2=45 lon_0=10", "lcc lat_1=57 lon_0=12", "lcc lat_1=-30 lat_2=-40 lat_0=-35", "lcc lat_1=0", "lcc lat_1=90", "lcc lat_1=45 lat_2=-45"]);
    add("merc", &["merc", "merc lat_ts=56", "merc lat_ts=90 lon_0=9", "merc k_0=0"]);
    add("webmerc", &["webmerc", "webmerc inv"]);
    add("molodensky", &["molodensky ellps_0=intl ellps_1=GRS80 dx=-87 dy=-96 dz=-120", "molodensky abridged ellps_0=intl ellps_1=GRS80 dx=-87 dy=-96 dz=-120", "molodensky da=-251 df=-0.000014192702 dx=-87 inv"]);
    add(
        "omerc",
        &[
            "omerc latc=4 lonc=115 alpha=53:18:56.9537 gamma_c=53:07:48.3685 k_0=0.99984 x_0=590476.87 y_0=442857.65",
            "omerc variant latc=4 lonc=115 alpha=53:18:56.9537 gamma_c=53:07:48.3685 k_0=0.99984 x_0=590476.87 y_0=442857.65",
            "omerc alpha=90 latc=10",
            "omerc alpha=0 latc=10",
            "omerc latc=90 alpha=30",
            "omerc latc=0 alpha=30 gamma_c=1e300",
        ],
    );
    add("permtide", &["permtide from=mean to=zero", "permtide from=zero to=free k=0.29", "permtide from=free to=mean inv", "permtide from=mean to=mean"]);
    add("somerc", &["somerc lat_0=46.9524055555556 lon_0=7.43958333333333 k_0=1 x_0=2600000 y_0=1200000 ellps=bessel", "somerc", "somerc lat_0=90", "somerc inv lat_0=-90 k_0=0"]);
    add("unitconvert", &["unitconvert xy_in=deg xy_out=rad", "unitconvert z_in=ft z_out=m", "unitconvert xy_in=us-ft xy_out=km z_in=m z_out=mm inv", "unitconvert"]);
    add("pipeline", &["addone | addone inv", "cart | helmert x=1 | cart inv", "geo:in | utm zone=32 > noop < addone | utm zone=32 inv | geo:out", "cart ellps=intl | helmert x=-87 y=-96 z=-120 | cart inv ellps=GRS80 inv"]);
    add("push", &["push v_1 v_2 | addone | pop v_1 v_2", "push v_3 | pop v_4", "push v_1", "push v_1 v_2 v_3 v_4 | noop"]);
    add("pop", &["pop v_1 | noop", "push v_4 v_3 | cart | pop v_3 v_4", "pop v_1"]);
    add(
        "stack",
        &[
            "stack push=1,2 | stack pop=2,1",
            "stack push=1,2,3,4 | stack roll=3,2 | stack unroll=3,2 | stack flip=1,2 | stack swap | stack pop=1,2,3,4",
            "stack pop=1 | noop",
            "stack swap",
            "stack drop | noop",
            "stack push=1 | stack swap",
            "stack roll=2,1 | noop",
            "stack push=4,4,4,4 | stack flip=1,2,3,4 | stack unroll=4,-3",
        ],
    );
    add("noop", &["noop"]);
    add("longlat", &["longlat"]);
    add("latlon", &["latlon inv"]);
    add("latlong", &["latlong"]);
    add("lonlat", &["lonlat"]);
    add("macro", &["nkg:itrf2014-sweref99", "nkg:itrf2014-etrs89dk inv", "nkg:test", "stupid:bad", "stupid:add_x x=3", "stupid:add_something", "stupid:addthree", "stupid:way_three | stupid:way", "geo:in | cart | helmert x=1 | cart inv | geo:out", "gis:in | utm zone=32", "neu:in | enu:out", "+proj=utm +zone=32 +ellps=GRS80", "proj=pipeline step proj=cart step proj=helmert x=1 step inv proj=cart", "+proj=pipeline +inv +step +proj=tmerc +a=6378137 +rf=298.257 +k=0.9996 +step +proj=merc +lat_ts=56"]);
    let mut out: Vec<(String, String, bool)> = v.into_iter().map(|(a, b, c)| (a.to_string(), b, c)).collect();
    // ellipsoid shapes for every operator with an ellps key (first canonical definition)
    let base: Vec<(String, String, bool)> = out.clone();
    for op in &env.ops {
        let Some(spec) = env.specs.get(op) else { continue };
        if !spec.keys.iter().any(|k| k.0 == "ellps") {
            continue;
        }
        let Some((_, d, g)) = base.iter().find(|x| &x.0 == op && !x.1.contains("ellps")) else { continue };
        for (i, shape) in ELLPS_SHAPES.iter().enumerate() {
            out.push((op.clone(), format!("{d} ellps={shape}"), *g));
            if i % 3 == 0 {
                out.push((op.clone(), format!("{d} inv ellps={shape}"), *g));
            }
        }
    }
    // operators the table does not know: generic forms
    for op in &env.ops {
        if !out.iter().any(|x| &x.0 == op) {
            out.push((op.clone(), op.clone(), false));
            out.push((op.clone(), format!("{op} inv"), false));
        }
    }
    out
}

// The engine records in-flight cases only for random sections; enumerated cases that hang
// would be reported without their input. Own bookkeeping + monitor for the catalogue.
static CAT_INFLIGHT: Mutex<BTreeMap<String, (Instant, String)>> = Mutex::new(BTreeMap::new());
const CAT_HANG_LIMIT: Duration = Duration::from_secs(55); // fires before the engine's 60 s watchdog

struct InflightGuard(String);
impl Drop for InflightGuard {
    fn drop(&mut self) {
        CAT_INFLIGHT.lock().unwrap().remove(&self.0);
    }
}
fn cat_enter(case: &CatCase) -> InflightGuard {
    let id = format!("{:?}", std::thread::current().id());
    let js = serde_json::to_string(case).unwrap_or_default();
    CAT_INFLIGHT.lock().unwrap().insert(id.clone(), (Instant::now(), js));
    InflightGuard(id)
}
fn start_cat_monitor() {
    let root = PathBuf::from(std::env::var("VERIF_ROOT").unwrap_or_else(|_| "/verif".into()));
    std::thread::spawn(move || loop {
        std::thread::sleep(Duration::from_millis(500));
        let hit = CAT_INFLIGHT.lock().unwrap().values().find(|v| v.0.elapsed() > CAT_HANG_LIMIT).map(|v| v.1.clone());
        if let Some(js) = hit {
            let case: serde_json::Value = serde_json::from_str(&js).unwrap_or(serde_json::Value::Null);
            let body = serde_json::json!({"property": "C09", "section": "catalogue", "key": "hang",
                "message": format!("catalogue case did not return within {} s (normal cost: milliseconds)", CAT_HANG_LIMIT.as_secs()), "case": case});
            let txt = serde_json::to_string_pretty(&body).unwrap();
            let mut h: u64 = 0xcbf29ce484222325;
            for b in txt.bytes() {
                h = (h ^ b as u64).wrapping_mul(0x100000001b3);
            }
            let p = root.join("replays").join(format!("C09-catalogue-hang-{:012x}.json", h & 0xffff_ffff_ffff));
            let _ = std::fs::create_dir_all(root.join("replays"));
            let _ = std::fs::write(&p, txt);
            println!("VIOLATION property=C09 replay={}", p.display());
            println!("  section=catalogue key=hang: definition {} ({}) did not return within {} s", case["def"], if case["first_fwd"] == true { "Fwd first" } else { "Inv first" }, CAT_HANG_LIMIT.as_secs());
            use std::io::Write;
            let _ = std::io::stdout().flush();
            std::process::exit(1);
        }
    });
}

fn check_cat(case: &CatCase, rec: &mut Rec) -> CaseResult {
    let _guard = cat_enter(case);
    match case.ctx {
        0 => run_cat(&mut Minimal::new(), "Minimal", case, rec),
        1 => run_cat(&mut Plain::new(), "Plain", case, rec),
        _ => run_cat(&mut grid_ctx(), "GridCtx", case, rec),
    }
}

fn run_cat<C: Context>(ctx: &mut C, ctx_name: &str, case: &CatCase, rec: &mut Rec) -> CaseResult {
    let what = format!("{ctx_name} context, definition {:?}", case.def);
    let op = match try_op(ctx, &case.def) {
        Err(p) => vfail!(panic_key(&p), "instantiation panics: {what}: {} at {}:{}", p.msg, p.file, p.line),
        Ok(Err(e)) => {
            rec.class(&format!("rejected/{}", err_class(&e)));
            return Ok(());
        }
        Ok(Ok(op)) => op,
    };
    *INSTANTIATED.lock().unwrap().entry(format!("catalogue:{}", case.op)).or_insert(0) += 1;
    let l = &case.lattice;
    let mut coords: Vec<P4> = Vec::with_capacity(l.len() * l.len() * l.len());
    let seconds: Vec<F> = match case.second {
        Some(b) => vec![b],
        None => l.clone(),
    };
    for b in &seconds {
        for c in l {
            for d in l {
                coords.push([case.first, *b, *c, *d]);
            }
        }
    }
    let mut why = String::new();
    match apply_chain(ctx, op, case.first_fwd, 0, &coords, &mut why) {
        Ok(()) => {}
        Err(None) => vfail!("count-exceeds-len", "{what}: {why}"),
        Err(Some(p)) => {
            for c in &coords {
                let mut w = String::new();
                if let Err(Some(_)) = apply_chain(ctx, op, case.first_fwd, 0, std::slice::from_ref(c), &mut w) {
                    vfail!(panic_key(&p), "{what}: on the single tuple {}: {w}", fmt_c4(&c4(c)));
                }
            }
            vfail!(panic_key(&p), "{what}: {why} (no single tuple reproduces it)");
        }
    }
    rec.class(&format!("applied/{}", case.op));
    rec.count("tuples_applied", 2 * coords.len() as u64);
    rec.nontrivial(&(&case.def, case.ctx, case.first_fwd, case.first.0.to_bits(), case.second.map(|b| b.0.to_bits())));
    Ok(())
}

// =====================================================================================
// Direct API sections: ellipsoid, angular, tokenizer
// =====================================================================================

macro_rules! call {
    ($coll:expr, $what:expr, $desc:expr, $e:expr) => {
        match guard(|| {
            let _ = std::hint::black_box($e);
        }) {
            Ok(()) => {}
            Err(p) => $coll.add(api_key($what, &p), format!("{} with {} panics: {} at {}:{}", $what, $desc, p.msg, p.file, p.line)),
        }
    };
}

/// Panics raised inside std (no #[track_caller]) carry no library location: name the API function instead.
fn api_key(what: &str, p: &PanicInfo) -> String {
    if p.in_library() {
        panic_key(p)
    } else {
        format!("panic@{}>{}", what.split('(').next().unwrap_or(what), p.sig())
    }
}

fn text_fragments() -> Vec<String> {
    let env = env();
    let mut v: Vec<String> = env.adversarial.iter().filter(|s| s.len() < 64).cloned().collect();
    v.extend(env.ellps_names.iter().cloned());
    v.extend(env.ops.iter().cloned());
    for s in [
        "6378137", "298.257", ",", " ", "(", ")", ":", "12", "30", "36.5", "N", "S", "E", "W", "-", "+", ".", "e5", "1e400", "=", "|", "<", ">", "$", "#", "\n", "\r\n", "inv", "omit_fwd", "omit_inv", "proj=",
        "+proj=", "step", "+step", "pipeline", "init=", "a=", "rf=", "k=", "ellps=", "zone=32", "x=1", "geo:in", "m:a", "_name=", "₀=", "lat₀=1", "\n:", "é", "😀",
    ] {
        v.push(s.to_string());
    }
    v
}
static FRAGS: OnceLock<Vec<String>> = OnceLock::new();

/// Arbitrary text: fragments glued with varying joiners, random Unicode, or both.
fn any_text() -> impl Strategy<Value = String> {
    let frag = prop::collection::vec((any::<u16>(), any::<u16>()), 0..10).prop_map(|v| {
        let f = FRAGS.get().expect("frags");
        let mut s = String::new();
        for (a, j) in v {
            s.push_str(&f[pick(a, f.len())]);
            s.push_str(pick_w(j, &[(6, ""), (4, " "), (1, ","), (1, ":"), (1, "=")]));
        }
        s
    });
    let chars = prop::collection::vec(any::<char>(), 0..24).prop_map(|v| v.into_iter().collect::<String>());
    prop_oneof![
        5 => frag.clone(),
        1 => chars.clone(),
        2 => (frag, chars, any::<u16>()).prop_map(|(f, c, at)| {
            let mut v: Vec<char> = f.chars().collect();
            let i = pick(at, v.len() + 1);
            for (k, ch) in c.chars().take(3).enumerate() {
                v.insert(i + k, ch);
            }
            v.into_iter().collect()
        }),
    ]
}

// ---- ellipsoid ------------------------------------------------------------------------

#[derive(Clone, Debug, Serialize, Deserialize)]
struct EllCase {
    name: String,
    a: F,
    ay: F,
    f: F,
    v: Vec<F>,
    p: P4,
    q: P4,
}

fn shape_a() -> impl Strategy<Value = F> {
    prop_oneof![
        6 => Just(F(6378137.0)),
        2 => (1.0f64..7.0e6).prop_map(F),
        1 => Just(F(1.0)),
        1 => Just(F(0.0)),
        1 => Just(F(-6378137.0)),
        1 => Just(F(f64::NAN)),
        1 => Just(F(f64::INFINITY)),
        1 => Just(F(1e300)),
        1 => Just(F(1e-300)),
        2 => any_f64_class(),
    ]
}
fn shape_f() -> impl Strategy<Value = F> {
    prop_oneof![
        6 => Just(F(1.0 / 298.257222100882711243)),
        2 => (0.0f64..(1.0 / 150.0)).prop_map(F),
        2 => Just(F(0.0)),
        1 => Just(F(-0.0)),
        1 => Just(F(-0.003)),
        1 => Just(F(1.0)),
        1 => Just(F(2.0)),
        1 => Just(F(0.5)),
        1 => Just(F(1.0 - 1e-16)),
        1 => Just(F(f64::NAN)),
        1 => Just(F(f64::INFINITY)),
        1 => Just(F(1e-300)),
        2 => any_f64_class(),
    ]
}

fn ell_case() -> impl Strategy<Value = EllCase> {
    (any_text(), shape_a(), prop_oneof![3 => Just(None), 1 => shape_a().prop_map(Some)], shape_f(), prop::collection::vec(any_f64_class(), 8..=8), coord(), coord())
        .prop_map(|(name, a, ay, f, v, p, q)| EllCase { name, a, ay: ay.unwrap_or(a), f, v, p, q })
}

fn ellipsoid_calls<E: EllipsoidBase>(e: &E, desc: &str, c: &EllCase, coll: &mut Coll) {
    let v: Vec<f64> = c.v.iter().map(|x| x.0).collect();
    let (p4d, q4d) = (c4(&c.p), c4(&c.q));
    let d = format!("{desc}, args {:?}, p={}, q={}", v, fmt_c4(&p4d), fmt_c4(&q4d));
    let d = d.as_str();
    // EllipsoidBase
    call!(coll, "semimajor_axis", d, e.semimajor_axis());
    call!(coll, "flattening", d, e.flattening());
    call!(coll, "a", d, e.a());
    call!(coll, "f", d, e.f());
    call!(coll, "semimedian_axis", d, e.semimedian_axis());
    call!(coll, "semiminor_axis", d, e.semiminor_axis());
    call!(coll, "second_flattening", d, e.second_flattening());
    call!(coll, "third_flattening", d, e.third_flattening());
    call!(coll, "aspect_ratio", d, e.aspect_ratio());
    call!(coll, "linear_eccentricity", d, e.linear_eccentricity());
    call!(coll, "eccentricity_squared", d, e.eccentricity_squared());
    call!(coll, "eccentricity", d, e.eccentricity());
    call!(coll, "second_eccentricity_squared", d, e.second_eccentricity_squared());
    call!(coll, "second_eccentricity", d, e.second_eccentricity());
    call!(coll, "prime_vertical_radius_of_curvature", d, e.prime_vertical_radius_of_curvature(v[0]));
    call!(coll, "meridian_radius_of_curvature", d, e.meridian_radius_of_curvature(v[0]));
    call!(coll, "polar_radius_of_curvature", d, e.polar_radius_of_curvature());
    // Meridians
    call!(coll, "normalized_meridian_arc_unit", d, e.normalized_meridian_arc_unit());
    call!(coll, "rectifying_radius", d, e.rectifying_radius());
    call!(coll, "rectifying_radius_bowring", d, e.rectifying_radius_bowring());
    call!(coll, "meridian_quadrant", d, e.meridian_quadrant());
    call!(coll, "meridian_latitude_to_distance", d, e.meridian_latitude_to_distance(v[0]));
    call!(coll, "meridian_distance_to_latitude", d, e.meridian_distance_to_latitude(v[1]));
    // Latitudes
    call!(coll, "latitude_geographic_to_geocentric", d, e.latitude_geographic_to_geocentric(v[0]));
    call!(coll, "latitude_geocentric_to_geographic", d, e.latitude_geocentric_to_geographic(v[0]));
    call!(coll, "latitude_geographic_to_reduced", d, e.latitude_geographic_to_reduced(v[0]));
    call!(coll, "latitude_reduced_to_geographic", d, e.latitude_reduced_to_geographic(v[0]));
    call!(coll, "latitude_geographic_to_isometric", d, e.latitude_geographic_to_isometric(v[0]));
    call!(coll, "latitude_isometric_to_geographic", d, e.latitude_isometric_to_geographic(v[2]));
    let mut coefs: Vec<FourierCoefficients> = vec![];
    match guard(|| {
        vec![
            e.coefficients_for_rectifying_latitude_computations(),
            e.coefficients_for_conformal_latitude_computations(),
            e.coefficients_for_authalic_latitude_computations(),
        ]
    }) {
        Ok(c) => coefs.extend(c),
        Err(p) => coll.add(panic_key(&p), format!("coefficients_for_*_latitude_computations with {d} panics: {} at {}:{}", p.msg, p.file, p.line)),
    }
    // arbitrary coefficient sets as well (public fields)
    let mut arb = FourierCoefficients::default();
    for i in 0..6 {
        arb.fwd[i] = v[i % 8];
        arb.inv[i] = v[(i + 3) % 8];
    }
    arb.etc = [v[6], v[7]];
    coefs.push(arb);
    let mut poly = PolynomialCoefficients::default();
    for i in 0..6 {
        for j in 0..6 {
            poly.fwd[i][j] = v[(i + j) % 8];
            poly.inv[i][j] = v[(i * j) % 8];
        }
    }
    call!(coll, "latitude_fourier_coefficients", d, e.latitude_fourier_coefficients(&poly));
    for co in &coefs {
        call!(coll, "latitude_geographic_to_rectifying", d, e.latitude_geographic_to_rectifying(v[0], co));
        call!(coll, "latitude_rectifying_to_geographic", d, e.latitude_rectifying_to_geographic(v[0], co));
        call!(coll, "latitude_geographic_to_conformal", d, e.latitude_geographic_to_conformal(v[0], co));
        call!(coll, "latitude_conformal_to_geographic", d, e.latitude_conformal_to_geographic(v[0], co));
        call!(coll, "latitude_geographic_to_authalic", d, e.latitude_geographic_to_authalic(v[0], co));
        call!(coll, "latitude_authalic_to_geographic", d, e.latitude_authalic_to_geographic(v[0], co));
    }
    // GeoCart, all tuple types
    let (p3, p2, p32) = (Coor3D([p4d[0], p4d[1], p4d[2]]), Coor2D([p4d[0], p4d[1]]), Coor32([p4d[0] as f32, p4d[1] as f32]));
    let (q3, q2, q32) = (Coor3D([q4d[0], q4d[1], q4d[2]]), Coor2D([q4d[0], q4d[1]]), Coor32([q4d[0] as f32, q4d[1] as f32]));
    call!(coll, "cartesian(Coor4D)", d, e.cartesian(&p4d));
    call!(coll, "cartesian(Coor3D)", d, e.cartesian(&p3));
    call!(coll, "cartesian(Coor2D)", d, e.cartesian(&p2));
    call!(coll, "cartesian(Coor32)", d, e.cartesian(&p32));
    call!(coll, "geographic(Coor4D)", d, e.geographic(&p4d));
    call!(coll, "geographic(Coor3D)", d, e.geographic(&p3));
    call!(coll, "geographic(Coor2D)", d, e.geographic(&p2));
    call!(coll, "geographic(Coor32)", d, e.geographic(&p32));
    call!(coll, "geographic(cartesian)", d, e.geographic(&e.cartesian(&p4d)));
    // Geodesics
    call!(coll, "geodesic_fwd(Coor4D)", d, e.geodesic_fwd(&p4d, v[3], v[4]));
    call!(coll, "geodesic_fwd(Coor2D)", d, e.geodesic_fwd(&p2, v[3], v[4]));
    call!(coll, "geodesic_fwd(Coor32)", d, e.geodesic_fwd(&p32, v[3], v[4]));
    call!(coll, "geodesic_inv(Coor4D)", d, e.geodesic_inv(&p4d, &q4d));
    call!(coll, "geodesic_inv(Coor3D)", d, e.geodesic_inv(&p3, &q3));
    call!(coll, "geodesic_inv(Coor2D)", d, e.geodesic_inv(&p2, &q2));
    call!(coll, "geodesic_inv(Coor32)", d, e.geodesic_inv(&p32, &q32));
    call!(coll, "geodesic_inv(p,p)", d, e.geodesic_inv(&p4d, &p4d));
    call!(coll, "distance", d, e.distance(&p4d, &q4d));
    call!(coll, "distance(Coor2D)", d, e.distance(&p2, &q2));
    // Gravity
    call!(coll, "somigliana_gravity(None)", d, e.somigliana_gravity(v[0], None, None));
    call!(coll, "somigliana_gravity(Some)", d, e.somigliana_gravity(v[0], Some(v[5]), Some(v[6])));
    call!(coll, "somigliana_gravity(Some,None)", d, e.somigliana_gravity(v[0], Some(v[5]), None));
    call!(coll, "cassinis_gravity_1930", d, e.cassinis_gravity_1930(v[0]));
    call!(coll, "jeffreys_gravity_1948", d, e.jeffreys_gravity_1948(v[0]));
    call!(coll, "grs67_gravity", d, e.grs67_gravity(v[0]));
    call!(coll, "grs80_gravity", d, e.grs80_gravity(v[0]));
    call!(coll, "cassinis_height_correction", d, e.cassinis_height_correction(v[2], v[7]));
    call!(coll, "grs67_height_correction", d, e.grs67_height_correction(v[0], v[2]));
    call!(coll, "welmec", d, e.welmec(v[0], v[2]));
}

fn check_ell(c: &EllCase, rec: &mut Rec) -> CaseResult {
    let mut coll = Coll::default();
    let coll = &mut coll;
    // constructors on arbitrary text
    let named = match guard(|| Ellipsoid::named(&c.name)) {
        Err(p) => {
            coll.add(panic_key(&p), format!("Ellipsoid::named({}) panics: {} at {}:{}", show(&c.name), p.msg, p.file, p.line));
            None
        }
        Ok(r) => r.ok(),
    };
    let tnamed = match guard(|| TriaxialEllipsoid::named(&c.name)) {
        Err(p) => {
            coll.add(panic_key(&p), format!("TriaxialEllipsoid::named({}) panics: {} at {}:{}", show(&c.name), p.msg, p.file, p.line));
            None
        }
        Ok(r) => r.ok(),
    };
    call!(coll, "Ellipsoid::default", "-", Ellipsoid::default());
    call!(coll, "TriaxialEllipsoid::default", "-", TriaxialEllipsoid::default());
    let e = Ellipsoid::new(c.a.0, c.f.0);
    ellipsoid_calls(&e, &format!("Ellipsoid::new({:?}, {:?})", c.a.0, c.f.0), c, coll);
    let t = TriaxialEllipsoid::new(c.a.0, c.ay.0, c.f.0);
    ellipsoid_calls(&t, &format!("TriaxialEllipsoid::new({:?}, {:?}, {:?})", c.a.0, c.ay.0, c.f.0), c, coll);
    if let Some(e) = named {
        rec.class("named-ok");
        ellipsoid_calls(&e, &format!("Ellipsoid::named({})", show(&c.name)), c, coll);
    } else {
        rec.class("named-err");
    }
    if let Some(t) = tnamed {
        ellipsoid_calls(&t, &format!("TriaxialEllipsoid::named({})", show(&c.name)), c, coll);
    }
    let shape = if !(c.a.0.is_finite() && c.f.0.is_finite()) {
        "shape:non-finite"
    } else if c.a.0 <= 0.0 {
        "shape:a<=0"
    } else if c.f.0 == 0.0 {
        "shape:sphere"
    } else if c.f.0 < 0.0 {
        "shape:prolate"
    } else if c.f.0 >= 1.0 {
        "shape:f>=1"
    } else {
        "shape:oblate"
    };
    rec.class(shape);
    rec.nontrivial(&(c.a.0.to_bits(), c.f.0.to_bits(), c.v[0].0.to_bits(), &c.name));
    std::mem::take(coll).result()
}

// ---- angular --------------------------------------------------------------------------

#[derive(Clone, Debug, Serialize, Deserialize)]
struct AngCase {
    text: String,
    v: F,
    d: i32,
    m: u16,
}

fn sexagesimal_text() -> impl Strategy<Value = String> {
    let pieces: &'static [&'static str] = &[
        "12", "30", "36.5", ":", ":", "N", "S", "E", "W", "n", "s", "e", "w", "-", "+", ".", "0", "60", "1e5", "1e400", "NaN", "inf", " ", "é", "Ñ", "😀", "\u{301}", "", "-0", "00", "59.999", "٣", "１", "x",
        ",", "e", "E5",
    ];
    prop_oneof![
        3 => prop::collection::vec(any::<u16>(), 0..8).prop_map(move |v| v.into_iter().map(|i| pieces[pick(i, pieces.len())]).collect::<String>()),
        1 => any_text(),
    ]
}

fn ang_case() -> impl Strategy<Value = AngCase> {
    (
        sexagesimal_text(),
        any_f64_class(),
        prop_oneof![3 => any::<i32>(), 1 => Just(i32::MIN), 1 => Just(i32::MAX), 1 => Just(0), 2 => -360i32..=360],
        prop_oneof![2 => any::<u16>(), 1 => 0u16..60],
    )
        .prop_map(|(text, v, d, m)| AngCase { text, v, d, m })
}

fn check_ang(c: &AngCase, rec: &mut Rec) -> CaseResult {
    let mut coll = Coll::default();
    let d = format!("text={}, v={:?}, d={}, m={}", show(&c.text), c.v.0, c.d, c.m);
    let d = d.as_str();
    let v = c.v.0;
    call!(coll, "angular::parse_sexagesimal", d, angular::parse_sexagesimal(&c.text));
    call!(coll, "angular::dms_to_dd", d, angular::dms_to_dd(c.d, c.m, v));
    call!(coll, "angular::dm_to_dd", d, angular::dm_to_dd(c.d, v));
    call!(coll, "angular::iso_dm_to_dd", d, angular::iso_dm_to_dd(v));
    call!(coll, "angular::dd_to_iso_dm", d, angular::dd_to_iso_dm(v));
    call!(coll, "angular::iso_dms_to_dd", d, angular::iso_dms_to_dd(v));
    call!(coll, "angular::dd_to_iso_dms", d, angular::dd_to_iso_dms(v));
    call!(coll, "angular::normalize_symmetric", d, angular::normalize_symmetric(v));
    call!(coll, "angular::normalize_positive", d, angular::normalize_positive(v));
    let r = guard(|| angular::parse_sexagesimal(&c.text)).unwrap_or(f64::NAN);
    rec.class(if r.is_nan() { "sexagesimal-nan" } else { "sexagesimal-number" });
    rec.nontrivial(&(&c.text, v.to_bits(), c.d, c.m));
    coll.result()
}

// ---- tokenizer + parse_proj -----------------------------------------------------------

#[derive(Clone, Debug, Serialize, Deserialize)]
struct TokCase {
    text: String,
}

fn tok_case() -> impl Strategy<Value = TokCase> {
    prop_oneof![
        3 => raw_def().prop_map(|r| build_def(&r).def),
        3 => any_text(),
        1 => (raw_def(), any_text()).prop_map(|(r, t)| format!("{} {t}", build_def(&r).def)),
    ]
    .prop_map(|text| TokCase { text })
}

fn check_tok(c: &TokCase, rec: &mut Rec) -> CaseResult {
    let mut coll = Coll::default();
    let t = c.text.as_str();
    let d = format!("text {}", show(t));
    let d = d.as_str();
    let skip = HANG_MODIFIER_ONLY.load(Ordering::Relaxed);
    call!(coll, "normalize", d, t.normalize());
    call!(coll, "normalize(normalize)", d, t.normalize().normalize());
    call!(coll, "is_pipeline", d, t.is_pipeline());
    call!(coll, "split_into_steps", d, t.split_into_steps());
    call!(coll, "parse_proj", d, parse_proj(t));
    if skip && modifier_only(t) {
        rec.count("excluded_known_modifier_only_step", 1);
    } else {
        call!(coll, "split_into_parameters", d, t.split_into_parameters());
        call!(coll, "operator_name", d, t.operator_name());
        call!(coll, "is_resource_name", d, t.is_resource_name());
        call!(coll, "String::split_into_parameters", d, c.text.split_into_parameters());
    }
    // the way the library itself uses the tokenizer: parameters of every step
    let steps = guard(|| t.split_into_steps()).unwrap_or_default();
    for s in &steps {
        if skip && modifier_only(s) {
            rec.count("excluded_known_modifier_only_step", 1);
            continue;
        }
        call!(coll, "split_into_parameters(step)", format!("step {} of {d}", show(s)), s.split_into_parameters());
        call!(coll, "operator_name(step)", format!("step {} of {d}", show(s)), s.operator_name());
        call!(coll, "is_resource_name(step)", format!("step {} of {d}", show(s)), s.is_resource_name());
    }
    if let Ok(p) = guard(|| parse_proj(t)).unwrap_or(Err(Error::Unknown)) {
        call!(coll, "parse_proj(parse_proj)", d, parse_proj(&p));
        if p != t {
            rec.class("proj-translated");
            call!(coll, "split_into_steps(parse_proj)", d, p.split_into_steps());
        } else {
            rec.class("proj-unchanged");
        }
    } else {
        rec.class("proj-error");
    }
    rec.class(if steps.len() > 1 { "steps>1" } else if steps.len() == 1 { "steps=1" } else { "steps=0" });
    rec.nontrivial(&c.text);
    coll.result()
}

// =====================================================================================
// Hang probe in a killable child process
// =====================================================================================

#[derive(Clone, Debug, Serialize, Deserialize)]
struct ProbeCase {
    text: String,
}

enum ProbeResult {
    Returned,
    Panicked(i32),
    Hang,
    Unavailable(String),
}

const PROBE_LIMIT: Duration = Duration::from_secs(3);

fn probe(text: &str) -> ProbeResult {
    let Ok(exe) = std::env::current_exe() else { return ProbeResult::Unavailable("current_exe".into()) };
    let child = std::process::Command::new(exe)
        .env("C09_PROBE_TEXT", text)
        .stdin(std::process::Stdio::null())
        .stdout(std::process::Stdio::null())
        .stderr(std::process::Stdio::null())
        .spawn();
    let mut child = match child {
        Ok(c) => c,
        Err(e) => return ProbeResult::Unavailable(e.to_string()),
    };
    let t0 = Instant::now();
    loop {
        match child.try_wait() {
            Ok(Some(st)) => return if st.success() { ProbeResult::Returned } else { ProbeResult::Panicked(st.code().unwrap_or(-1)) },
            Ok(None) => {}
            Err(e) => return ProbeResult::Unavailable(e.to_string()),
        }
        if t0.elapsed() > PROBE_LIMIT {
            let _ = child.kill();
            let _ = child.wait();
            return ProbeResult::Hang;
        }
        std::thread::sleep(Duration::from_millis(3));
    }
}

fn probe_child(text: &str) -> ! {
    // exactly what a user does; a panic gives exit code 101
    let mut ctx = Minimal::new();
    let _ = std::hint::black_box(ctx.op(text));
    std::process::exit(0)
}

fn check_probe(c: &ProbeCase, rec: &mut Rec) -> CaseResult {
    match probe(&c.text) {
        ProbeResult::Returned => {
            rec.class("returned");
            rec.nontrivial(&c.text);
            Ok(())
        }
        ProbeResult::Panicked(code) => vfail!("panic-in-probe", "Minimal::new().op({:?}) in a child process exits with code {code} (panic)", c.text),
        ProbeResult::Hang => vfail!(
            "hang@token/mod.rs:split_into_parameters:modifier-only-step",
            "Minimal::new().op({:?}) does not return within {} s in a child process (normal cost: microseconds); the step consists of modifiers only, and Tokenize::split_into_parameters rotates them forever",
            c.text,
            PROBE_LIMIT.as_secs()
        ),
        ProbeResult::Unavailable(e) => {
            rec.count("probe_unavailable", 1);
            eprintln!("probe unavailable: {e}");
            Ok(())
        }
    }
}

// =====================================================================================
// Resource files on disk: the environment part of the input of a Plain context
// =====================================================================================
//
// `Plain::op("prefix:suffix")` reads `<prefix>_<suffix>.resource` and the register
// `<prefix>.md` (items fenced by ```geodesy:<suffix> ... ```) below ./geodesy/resources and
// $XDG_DATA_HOME/geodesy/resources. Those files are input like the definition text is, so
// they are generated too: well-formed, cut at every byte length, with missing / doubled /
// nested / malformed fences, all line ending conventions, empty bodies, multi-byte
// characters and invalid UTF-8 around the fences, very long lines, directories in the
// place of files - and rewritten between two calls on the same context.
//
// The sections run in a private tree (/tmp/verif-c09-<pid>/{w,u}) that is the process cwd
// (and XDG_DATA_HOME) only while they run: sections are executed one after the other, so
// nothing else observes the change. All shards share the two directories; every file name
// carries a per-thread tag of fixed width (`{T}` in the case), so concurrent cases never see
// each other's files and the outcome of a case does not depend on the thread it runs on.
//
// Bounded expansion (the nesting limit is 100, so a body that calls itself twice would be
// a 2^100 expansion, not a hang of the library): in every generated file, the text after any
// tag contains at most one call of an item at or before it; files that get byte-level
// mutations contain no macro calls at all. Cutting a file only shortens its last token.

const TAG_PH: &str = "{T}";

#[derive(Clone, Debug, Serialize, Deserialize, PartialEq, Eq, Hash)]
enum Content {
    Utf8(String),
    Raw(Vec<u8>),
    /// a directory of that name instead of a file
    Directory,
}
impl Content {
    fn from_bytes(b: Vec<u8>) -> Content {
        match String::from_utf8(b) {
            Ok(s) => Content::Utf8(s),
            Err(e) => Content::Raw(e.into_bytes()),
        }
    }
    fn bytes(&self) -> Option<&[u8]> {
        match self {
            Content::Utf8(s) => Some(s.as_bytes()),
            Content::Raw(b) => Some(b),
            Content::Directory => None,
        }
    }
    fn cut(&self, at: usize) -> Content {
        match self.bytes() {
            Some(b) => Content::from_bytes(b[..at.min(b.len())].to_vec()),
            None => Content::Directory,
        }
    }
}

#[derive(Clone, Debug, Serialize, Deserialize)]
struct EnvFile {
    /// 0: ./geodesy/resources (cwd), 1: $XDG_DATA_HOME/geodesy/resources
    place: u8,
    /// `{T}` stands for the per-thread tag (3 characters, like the place holder)
    name: String,
    content: Content,
}

#[derive(Clone, Debug, Serialize, Deserialize)]
struct ResCall {
    kind: String,
    def: String,
}

/// Stage 0: all files as given; stage k: file `victim` rewritten, cut to `cuts[k-1]` bytes.
/// Every stage: all `calls` on one and the same Plain context.
#[derive(Clone, Debug, Serialize, Deserialize)]
struct ResCase {
    /// generator's view, for the class histogram only
    label: String,
    tags: Vec<String>,
    files: Vec<EnvFile>,
    victim: usize,
    cuts: Vec<usize>,
    calls: Vec<ResCall>,
    coords: Vec<P4>,
}

struct ResWorld {
    root: PathBuf,
    w: PathBuf,
    u: PathBuf,
}
static RES_WORLD: OnceLock<ResWorld> = OnceLock::new();

fn setup_res_world() -> &'static ResWorld {
    RES_WORLD.get_or_init(|| {
        let pid = std::process::id();
        let tmp = std::env::temp_dir();
        // trees left behind by killed runs
        if let Ok(rd) = std::fs::read_dir(&tmp) {
            for e in rd.flatten() {
                let n = e.file_name().to_string_lossy().to_string();
                if let Some(p) = n.strip_prefix("verif-c09-").and_then(|p| p.parse::<u32>().ok()) {
                    if p != pid && !std::path::Path::new(&format!("/proc/{p}")).exists() {
                        let _ = std::fs::remove_dir_all(e.path());
                    }
                }
            }
        }
        let root = tmp.join(format!("verif-c09-{pid}"));
        let _ = std::fs::remove_dir_all(&root);
        let w = root.join("w").join("geodesy").join("resources");
        let u = root.join("u").join("geodesy").join("resources");
        for d in [&w, &u] {
            if let Err(e) = std::fs::create_dir_all(d) {
                eprintln!("cannot create {}: {e}", d.display());
                std::process::exit(2);
            }
        }
        ResWorld { root, w, u }
    })
}

fn thread_tag() -> String {
    const D: &[u8; 36] = b"0123456789abcdefghijklmnopqrstuvwxyz";
    match rayon::current_thread_index() {
        Some(i) => {
            let i = i % 1296;
            format!("t{}{}", D[i / 36] as char, D[i % 36] as char)
        }
        None => "m00".to_string(),
    }
}

fn subst_bytes(b: &[u8], tag: &str) -> Vec<u8> {
    let ph = TAG_PH.as_bytes();
    let mut out = Vec::with_capacity(b.len());
    let mut i = 0;
    while i < b.len() {
        if b[i..].starts_with(ph) {
            out.extend_from_slice(tag.as_bytes());
            i += ph.len();
        } else {
            out.push(b[i]);
            i += 1;
        }
    }
    out
}

fn env_path(world: &ResWorld, tag: &str, f: &EnvFile) -> Option<PathBuf> {
    let name = if f.name.contains(TAG_PH) { f.name.replace(TAG_PH, tag) } else { format!("{tag}{}", f.name) };
    if name.contains('/') || name.contains('\0') || name.len() > 200 {
        return None;
    }
    Some(if f.place == 0 { &world.w } else { &world.u }.join(name))
}

fn remove_any(p: &PathBuf) {
    if std::fs::remove_file(p).is_err() {
        let _ = std::fs::remove_dir(p);
    }
}

struct Cleanup(Vec<PathBuf>);
impl Drop for Cleanup {
    fn drop(&mut self) {
        for p in &self.0 {
            remove_any(p);
        }
    }
}

fn write_env(world: &ResWorld, tag: &str, f: &EnvFile, content: &Content, cleanup: &mut Cleanup) -> bool {
    let Some(p) = env_path(world, tag, f) else { return false };
    remove_any(&p);
    if !cleanup.0.contains(&p) {
        cleanup.0.push(p.clone());
    }
    match content.bytes() {
        None => std::fs::create_dir(&p).is_ok(),
        Some(b) => std::fs::write(&p, subst_bytes(b, tag)).is_ok(),
    }
}

fn show_bytes(b: &[u8]) -> String {
    match std::str::from_utf8(b) {
        Ok(s) => show(s),
        Err(_) => format!("(not UTF-8) {}", show(&String::from_utf8_lossy(b))),
    }
}

fn describe_env(case: &ResCase, stage: usize, tag: &str) -> String {
    let mut s = String::new();
    for (i, f) in case.files.iter().enumerate() {
        let dir = if f.place == 0 { "./geodesy/resources" } else { "$XDG_DATA_HOME/geodesy/resources" };
        let name = f.name.replace(TAG_PH, tag);
        let content = if stage > 0 && i == case.victim { f.content.cut(case.cuts[stage - 1]) } else { f.content.clone() };
        let full = f.content.bytes().map(|b| b.len()).unwrap_or(0);
        match content.bytes() {
            None => s.push_str(&format!("\n  {dir}/{name}: a directory")),
            Some(b) => {
                let b = subst_bytes(b, tag);
                let cut = if stage > 0 && i == case.victim { format!(", cut to {} of {full} bytes", b.len()) } else { String::new() };
                s.push_str(&format!("\n  {dir}/{name} ({} bytes{cut}): {}", b.len(), show_bytes(&b)));
            }
        }
    }
    s
}

/// Every text the documented formats can hand to the tokenizer from this content: the whole
/// file (separate resource file) and what follows each register tag up to the next fence and
/// up to the end of the file.
fn candidate_bodies(b: &[u8]) -> Vec<String> {
    let t = String::from_utf8_lossy(b).replace('\r', "\n");
    let mut out = vec![t.clone()];
    let mut rest: &str = &t;
    while let Some(i) = rest.find("```geodesy:") {
        rest = &rest[i + 3..];
        let Some(nl) = rest.find('\n') else { break };
        let after = &rest[nl + 1..];
        out.push(after.to_string());
        if let Some(j) = after.find("```") {
            out.push(after[..j].to_string());
        }
    }
    out
}

/// Panic messages about slicing quote the sliced text between back ticks - here the content
/// of a generated file: the key stops there, and runs of blanked digits collapse to one.
fn res_panic_key(p: &PanicInfo) -> String {
    let k = panic_key(p);
    let k = k.split('`').next().unwrap_or("").trim_end().to_string();
    let mut out = String::with_capacity(k.len());
    for c in k.chars() {
        if c == '#' && out.ends_with('#') {
            continue;
        }
        out.push(c);
    }
    out
}

fn check_res(case: &ResCase, rec: &mut Rec) -> CaseResult {
    let world = RES_WORLD.get().expect("resource world");
    let tag = thread_tag();
    let tag = tag.as_str();
    let mut cleanup = Cleanup(vec![]);
    let mut ctx = Plain::new();
    let mut minimal = Minimal::new();
    let mut coll = Coll::default();
    let hang_flag = HANG_MODIFIER_ONLY.load(Ordering::Relaxed);
    for t in &case.tags {
        rec.class(&format!("tag:{t}"));
    }
    'stages: for stage in 0..=case.cuts.len() {
        for (i, f) in case.files.iter().enumerate() {
            if stage > 0 && i != case.victim {
                continue;
            }
            let content = if stage > 0 { f.content.cut(case.cuts[stage - 1]) } else { f.content.clone() };
            if hang_flag {
                if let Some(b) = content.bytes() {
                    if candidate_bodies(&subst_bytes(b, tag)).iter().any(|t| has_modifier_only_step(t)) {
                        rec.count("excluded_known_modifier_only_step", 1);
                        rec.class("excluded/modifier-only-step");
                        return Ok(());
                    }
                }
            }
            if !write_env(world, tag, f, &content, &mut cleanup) {
                rec.count("files_not_written", 1);
                return Ok(());
            }
            rec.count("files_written", 1);
            if stage > 0 {
                rec.count("truncations", 1);
            }
        }
        let stage_name = if stage == 0 { "as generated".to_string() } else { format!("after rewriting file #{} cut to {} bytes (same context)", case.victim, case.cuts[stage - 1]) };
        for call in &case.calls {
            // names that cannot reach an item are tried on the files as generated and after the first rewrite only
            if stage > 1 && (call.kind == "malformed" || call.kind == "absent-file") {
                continue;
            }
            let def = call.def.replace(TAG_PH, tag);
            if hang_flag && has_modifier_only_step(&def) {
                continue;
            }
            let what = || format!("Plain context, cwd and XDG_DATA_HOME in a private tree, files {stage_name}:{}\n  definition {}", describe_env(case, stage, tag), show(&def));
            let outcome: String;
            match try_op(&mut ctx, &def) {
                Err(p) => {
                    coll.add(res_panic_key(&p), format!("instantiation panics: {}: {} at {}:{}", what(), p.msg, p.file, p.line));
                    outcome = "panic".into();
                }
                Ok(Err(e)) => {
                    let c = err_class(&e);
                    outcome = format!("err-{c}");
                    if !matches!(e, Error::NotFound(_, _)) {
                        rec.nontrivial(&(&case.files[case.victim].content, stage > 0, case.cuts.get(stage.wrapping_sub(1)), &call.def, c));
                    }
                }
                Ok(Ok(op)) => {
                    outcome = "instantiated".into();
                    rec.count("plain_instantiated", 1);
                    rec.nontrivial(&(&case.files[case.victim].content, stage > 0, case.cuts.get(stage.wrapping_sub(1)), &call.def));
                    if let Err(mut f) = apply_all(&ctx, op, 0, &case.coords, "<ENV>") {
                        f.msg = f.msg.replace("<ENV>", &what());
                        coll.add(f.key, f.msg);
                    }
                    rec.count("tuples_applied", 4 * case.coords.len() as u64);
                }
            }
            rec.count("plain_op_calls", 1);
            rec.class(&format!("call:{}/{}", call.kind, outcome));
            rec.class(&format!("env:{}/{}", case.label, if outcome == "instantiated" { "instantiated" } else { "error" }));
            if stage == 0 {
                // the same names in a context that has no disk behind it
                match try_op(&mut minimal, &def) {
                    Err(p) => coll.add(panic_key(&p), format!("instantiation panics: Minimal context, definition {}: {} at {}:{}", show(&def), p.msg, p.file, p.line)),
                    Ok(Err(_)) => rec.class("minimal/error"),
                    Ok(Ok(op)) => {
                        rec.class("minimal/instantiated");
                        coll.add_result(apply_all(&minimal, op, 0, &case.coords, &format!("Minimal context, definition {}", show(&def))));
                    }
                }
                rec.count("minimal_op_calls", 1);
            }
            if coll.new.is_some() {
                break 'stages;
            }
        }
    }
    drop(cleanup);
    coll.result()
}

// ---- building registers ------------------------------------------------------------

#[derive(Clone, Debug)]
struct ItemSpec {
    suffix: String,
    body: String,
    open: u8,
    close: u8,
    pre: u8,
}

const N_OPEN: u8 = 12;
const N_CLOSE: u8 = 11;

fn open_fence(style: u8, s: &str) -> String {
    match style {
        0 => format!("```geodesy:{s}\n"),
        1 => format!("````geodesy:{s}\n"),
        2 => format!("```geodesy:{s} \n"),
        3 => format!("   ```geodesy:{s}\n"),
        4 => format!("see ```geodesy:{s}\n"),
        5 => format!("```geodesy:{s} "), // the body starts on the line of the tag
        6 => format!("~~~geodesy:{s}\n"),
        7 => format!("```Geodesy:{s}\n"),
        8 => format!("é```geodesy:{s}\n"),
        9 => format!("```geodesy:{s}\n```geodesy:{s}\n"),
        10 => format!("```geodesy: {s}\n"),
        _ => format!("```geodesy:{s}\n\n\n"),
    }
}

/// (text between body and fence, fence)
fn close_fence(style: u8) -> (&'static str, &'static str) {
    match style {
        0 => ("\n", "```\n"),
        1 => ("\n", ""), // missing
        2 => ("\n", "````\n"),
        3 => ("\n", "```é\n"),
        4 => ("\n", "```"), // nothing after the fence, not even an end of line
        5 => ("\n", "~~~\n"),
        6 => ("\n", "  ```\n"),
        7 => ("\n", "``\n"), // one back tick short
        8 => ("\n", "```\n```\n"),
        9 => ("\n\n\n", "```\n"),
        _ => ("", "```\n"), // glued to the body
    }
}

const PRE_TEXTS: [&str; 8] = [
    "## An item\n\n",
    "",
    "\n",
    "Prose é 日本 😀 `code`\n\n",
    "```console\n$ echo 55 12 | kp some:thing\n> 56 12\n```\n\n",
    "> a quote with a stray ``` fence\n",
    "#\n",
    "\t \n",
];
const HEADERS: [&str; 5] = ["# A register\n\n", "", "\u{feff}# A register\n\n", "``` stray\n", "# A register\n\n```geodesy\naddone\n```\n\n"];
const TRAILERS: [&str; 7] = ["", "\n## Tests\n\n```console\n$ echo 55 12 | kp {P}:a\n> 56 12\n```\n", "```geodesy:zz\n", "```geodesy:zz", "\n\n\n", "é", "```geodesy:zz\n```"];

fn apply_eol(text: &str, eol: u8) -> String {
    match eol {
        0 => text.to_string(),
        1 => text.replace('\n', "\r\n"),
        2 => text.replace('\n', "\r"),
        _ => {
            let mut out = String::with_capacity(text.len() + 16);
            let mut k = 0usize;
            for ch in text.chars() {
                if ch == '\n' {
                    out.push_str(["\n", "\r\n", "\r"][k % 3]);
                    k += 1;
                } else {
                    out.push(ch);
                }
            }
            out
        }
    }
}
const EOL_NAMES: [&str; 4] = ["lf", "crlf", "cr", "mixed-eol"];

fn register_text(prefix: &str, header: &str, items: &[ItemSpec], trailer: &str, eol: u8) -> String {
    let mut t = String::from(header);
    for it in items {
        t.push_str(PRE_TEXTS[it.pre as usize % PRE_TEXTS.len()]);
        t.push_str(&open_fence(it.open, &it.suffix));
        let (gap, fence) = close_fence(it.close);
        t.push_str(&it.body);
        if !it.body.is_empty() {
            t.push_str(gap);
        }
        t.push_str(fence);
        t.push('\n');
    }
    t.push_str(trailer);
    apply_eol(&t.replace("{P}", prefix), eol)
}

fn res_calls(prefix: &str, suffixes: &[String]) -> Vec<ResCall> {
    let mut v: Vec<ResCall> = vec![];
    let mut seen = BTreeSet::new();
    for s in suffixes {
        if seen.insert(s.clone()) {
            v.push(ResCall { kind: "item".into(), def: format!("{prefix}:{s}") });
        }
    }
    let first = suffixes.first().cloned().unwrap_or_else(|| "a".into());
    let last = suffixes.last().cloned().unwrap_or_else(|| "a".into());
    let mut add = |kind: &str, def: String| v.push(ResCall { kind: kind.into(), def });
    add("item-inv", format!("{prefix}:{first} inv"));
    add("item-inv", format!("inv {prefix}:{last}"));
    add("item-omit", format!("{prefix}:{first} omit_fwd"));
    add("item-args", format!("{prefix}:{last} x=3 something=2"));
    add("item-pipeline", format!("{prefix}:{first} | {prefix}:{last}"));
    add("item-pipeline", format!("addone | {prefix}:{last} inv | noop"));
    add("absent-item", format!("{prefix}:nosuch"));
    add("absent-item", format!("{prefix}:{first}x"));
    add("absent-item", format!("{prefix}:zz"));
    add("absent-file", format!("nofile{TAG_PH}:{first}"));
    add("malformed", format!("{prefix}:"));
    add("malformed", format!(":{first}"));
    add("malformed", format!("{prefix}:{first}:x"));
    add("malformed", format!("{prefix}:{first}\n"));
    add("malformed", format!("{prefix}:é```"));
    add("malformed", format!("{prefix}:geodesy"));
    v
}

fn res_coords() -> Vec<P4> {
    vec![p4(55.0, 12.0, 0.0, 0.0), p4(f64::NAN, f64::INFINITY, -0.0, 1.0e300)]
}

const NKG_LIKE: &str = "|   adapt from=neuf_deg\n|   cart ellps=GRS80\n|   helmert\n:      drx = 0.000085  dry = 0.000531  drz = -0.00077 ds = 0\n:       t_epoch=1989    convention=position_vector\n|   helmert inv\n:       x = 0.03054 rx = 0.00141958\n:       convention=position_vector\n|   cart inv ellps=GRS80\n|   adapt to=neuf_deg";

/// Item sets of the enumerated section: (name, prefix, [(suffix, body)]).
/// Order matters for the expansion bound: an item calling several others comes first and
/// calls only items without calls; the one self-calling item comes last.
fn item_sets() -> Vec<(&'static str, String, Vec<(String, String)>)> {
    let s = |v: &[(&str, &str)]| -> Vec<(String, String)> { v.iter().map(|(a, b)| (a.to_string(), b.to_string())).collect() };
    vec![
        ("two-items", format!("reg{TAG_PH}"), s(&[("addone", "addone"), ("addtwo", "addone | addone")])),
        (
            "nested-calls",
            format!("reg{TAG_PH}"),
            s(&[("top", "{P}:a | {P}:ab inv | {P}:a x=1 | geo:in | geo:out"), ("a", "helmert x=(1)"), ("ab", "addone | addone inv | addone"), ("way", "helmert x=$something"), ("way_too", "addone inv"), ("self", "addone | {P}:self")]),
        ),
        ("hostile-names", format!("ré{TAG_PH}"), s(&[("é", "addone # é"), ("日本", "é=1 é"), ("x-1", ""), ("c", "   "), ("d", "# only a comment"), ("e.f", "addone é=日本 | noop")])),
        ("multi-line", format!("a.b{TAG_PH}"), s(&[("itrf2014-test", NKG_LIKE), ("short", "\n\naddone\n\n")])),
        ("duplicates", format!("reg{TAG_PH}"), s(&[("a", "addone"), ("a", "addone | addone"), ("b", "helmert x=1"), ("a", "")])),
        ("nested-fences", format!("reg{TAG_PH}"), s(&[("outer", "addone\n```geodesy:inner\naddone | addone\n```\naddone"), ("inner", "addone inv"), ("after", "noop")])),
    ]
}

struct ResBase {
    label: String,
    tags: Vec<String>,
    files: Vec<EnvFile>,
    victim: usize,
    calls: Vec<ResCall>,
}

/// (label, which items: 0 all / 1 first / 2 last, open style, close style)
const LAYOUTS: [(&str, u8, u8, u8); 19] = [
    ("well-formed", 0, 0, 0),
    ("no-close-last", 2, 0, 1),
    ("no-close-first", 1, 0, 1),
    ("no-close-any", 0, 0, 1),
    ("no-eol-after-close", 2, 0, 4),
    ("four-backticks", 0, 1, 2),
    ("tag-trailing-space", 1, 2, 0),
    ("indented", 0, 3, 6),
    ("inline-tag", 1, 4, 0),
    ("body-on-tag-line", 1, 5, 0),
    ("tilde-fences", 1, 6, 5),
    ("capitalised-tag", 2, 7, 0),
    ("multi-byte-at-fences", 0, 8, 3),
    ("tag-doubled", 1, 9, 0),
    ("space-in-tag", 2, 10, 0),
    ("short-close", 2, 0, 7),
    ("close-doubled", 0, 0, 8),
    ("blank-lines", 0, 11, 9),
    ("close-glued", 2, 0, 10),
];

fn res_bases(repo: &PathBuf) -> Vec<ResBase> {
    let mut out: Vec<ResBase> = vec![];
    let sets = item_sets();
    let specs = |items: &[(String, String)], which: u8, open: u8, close: u8| -> Vec<ItemSpec> {
        let n = items.len();
        items
            .iter()
            .enumerate()
            .map(|(i, (s, b))| {
                let hit = which == 0 || (which == 1 && i == 0) || (which == 2 && i + 1 == n);
                ItemSpec { suffix: s.clone(), body: b.clone(), open: if hit { open } else { 0 }, close: if hit { close } else { 0 }, pre: (i % 4) as u8 }
            })
            .collect()
    };
    let suffixes = |items: &[(String, String)]| -> Vec<String> { items.iter().map(|x| x.0.clone()).collect() };
    // 1. item sets x layouts x line endings, register in the cwd tree
    for (si, (sname, prefix, items)) in sets.iter().enumerate() {
        for (li, (lname, which, open, close)) in LAYOUTS.iter().enumerate() {
            for eol in 0..4u8 {
                // mixed line endings: once per item set and for the plainest layouts only
                if eol == 3 && li > 1 {
                    continue;
                }
                // the larger sets: every third layout per line ending convention (rotating)
                if si >= 2 && li > 3 && (li + eol as usize + si) % 3 != 0 {
                    continue;
                }
                let text = register_text(prefix, HEADERS[0], &specs(items, *which, *open, *close), "", eol);
                out.push(ResBase {
                    label: lname.to_string(),
                    tags: vec![format!("items:{sname}"), format!("eol:{}", EOL_NAMES[eol as usize])],
                    files: vec![EnvFile { place: 0, name: format!("{prefix}.md"), content: Content::Utf8(text) }],
                    victim: 0,
                    calls: res_calls(prefix, &suffixes(items)),
                });
            }
        }
    }
    // 2. headers x trailers (BOM, stray fences, a console block, a tag at the very end)
    {
        let (_, prefix, items) = &sets[0];
        for (h, header) in HEADERS.iter().enumerate() {
            for (t, trailer) in TRAILERS.iter().enumerate() {
                if h == 0 && t == 0 {
                    continue;
                }
                let mut sfx = suffixes(items);
                sfx.push("zz".into());
                sfx.push("a".into());
                let text = register_text(prefix, header, &specs(items, 0, 0, 0), trailer, (h + t) as u8 % 3);
                out.push(ResBase {
                    label: "header-trailer".to_string(),
                    tags: vec![format!("header:{h}"), format!("trailer:{t}"), format!("eol:{}", EOL_NAMES[(h + t) % 3])],
                    files: vec![EnvFile { place: 0, name: format!("{prefix}.md"), content: Content::Utf8(text) }],
                    victim: 0,
                    calls: res_calls(prefix, &sfx),
                });
            }
        }
    }
    // 3. the two search paths: the item only in the user tree, in both, behind an unreadable
    //    (not UTF-8) file or a directory of the same name in the cwd tree; a separate
    //    resource file next to / instead of the register
    {
        let (_, prefix, items) = &sets[0];
        let good = register_text(prefix, HEADERS[0], &specs(items, 0, 0, 0), "", 0);
        let other = register_text(prefix, HEADERS[0], &specs(&[("other".to_string(), "noop".to_string())], 0, 0, 0), "", 1);
        let mut broken = good.clone().into_bytes();
        broken.insert(20, 0xff);
        let reg = |place: u8, c: Content| EnvFile { place, name: format!("{prefix}.md"), content: c };
        let resource = |place: u8, sfx: &str, c: Content| EnvFile { place, name: format!("{prefix}_{sfx}.resource"), content: c };
        let res_text = "# Stupid way of adding one\r\n\r\naddone|addone inv|addone\r\n";
        let mut add = |label: &str, files: Vec<EnvFile>, victim: usize| {
            out.push(ResBase { label: format!("places/{label}"), tags: vec![], files, victim, calls: res_calls(prefix, &suffixes(items)) });
        };
        add("user-tree-only", vec![reg(1, Content::Utf8(good.clone()))], 0);
        add("cwd-lacks-item-user-has-it/cut-user", vec![reg(0, Content::Utf8(other.clone())), reg(1, Content::Utf8(good.clone()))], 1);
        add("cwd-lacks-item-user-has-it/cut-cwd", vec![reg(0, Content::Utf8(other.clone())), reg(1, Content::Utf8(good.clone()))], 0);
        add("both-have-it/cut-cwd", vec![reg(0, Content::Utf8(good.clone())), reg(1, Content::Utf8(apply_eol(&good, 1)))], 0);
        add("cwd-not-utf8/cut-user", vec![reg(0, Content::from_bytes(broken.clone())), reg(1, Content::Utf8(good.clone()))], 1);
        add("cwd-not-utf8/cut-cwd", vec![reg(0, Content::from_bytes(broken)), reg(1, Content::Utf8(good.clone()))], 0);
        add("cwd-directory/cut-user", vec![reg(0, Content::Directory), reg(1, Content::Utf8(good.clone()))], 1);
        add("resource-file/cwd", vec![resource(0, "addone", Content::Utf8(res_text.into()))], 0);
        add("resource-file/user", vec![resource(1, "addtwo", Content::Utf8(res_text.replace("\r\n", "\n")))], 0);
        add("resource-file-and-register/cut-resource", vec![resource(0, "addtwo", Content::Utf8(res_text.into())), reg(0, Content::Utf8(good.clone()))], 0);
        add("resource-file-and-register/cut-register", vec![resource(1, "addone", Content::Utf8(res_text.into())), reg(0, Content::Utf8(good.clone()))], 1);
        add("resource-file-multi-byte", vec![resource(0, "addone", Content::Utf8("\u{feff}# é 日本 😀\naddone é=日本 | addone inv # 😀\n".into()))], 0);
        add("resource-file-directory", vec![resource(0, "addone", Content::Directory), reg(0, Content::Utf8(good.clone()))], 1);
        add("resource-file-empty", vec![resource(0, "addone", Content::Utf8(" \r\n\t\n".into())), resource(1, "addtwo", Content::Utf8(String::new()))], 0);
    }
    // 4. the registers and the resource file shipped with the repository under test
    for (file, prefix0) in [("stupid.md", "stupid"), ("nkg.md", "nkg"), ("stupid_way.resource", "stupid")] {
        let Ok(text) = std::fs::read_to_string(repo.join("geodesy").join("resources").join(file)) else { continue };
        let prefix = format!("{prefix0}{TAG_PH}");
        let text = text.replace(&format!("{prefix0}:"), &format!("{prefix}:"));
        let mut sfx: Vec<String> = vec![];
        let mut rest: &str = &text;
        while let Some(i) = rest.find("```geodesy:") {
            rest = &rest[i + 11..];
            sfx.push(rest.chars().take_while(|c| !c.is_whitespace()).collect());
        }
        if sfx.is_empty() {
            sfx.push("way".into());
        }
        let mut calls = res_calls(&prefix, &sfx);
        if text.len() > 4000 {
            // a large register of long pipelines: the items, one inverted, one absent
            let mut inv = 0;
            calls.retain(|c| c.kind == "item" || c.def.ends_with(":nosuch") || (c.kind == "item-inv" && std::mem::replace(&mut inv, 1) == 0));
        }
        out.push(ResBase {
            label: format!("shipped/{file}"),
            tags: vec![],
            files: vec![EnvFile { place: 0, name: file.replacen(prefix0, &prefix, 1), content: Content::Utf8(text) }],
            victim: 0,
            calls,
        });
    }
    out
}

/// cuts per case in the enumerated section (consecutive byte lengths, longest first)
const CUTS_PER_CASE: usize = 8;

// ---- random environments -----------------------------------------------------------

const RES_PREFIXES: [&str; 6] = ["reg", "ré", "a.b", "R-1", "日", "x y"];
const RES_SUFFIXES: [&str; 12] = ["a", "ab", "way", "way_too", "b", "é", "x-1", "itrf2014-etrs89dk", "日本", "A", "a_", "0"];
/// bodies without macro calls of their own
const LEAF_BODIES: [&str; 30] = [
    "addone",
    "addone | addone",
    "addone inv",
    "addone | addone inv | addone",
    "helmert x=1",
    "helmert x=(1)",
    "helmert x=$something",
    "utm zone=32",
    "cart ellps=intl | helmert x=-87 y=-96 z=-120 | cart inv ellps=GRS80",
    NKG_LIKE,
    "# only a comment",
    "",
    "   ",
    "\n\n",
    "addone # trailing comment é",
    "# leading comment\naddone",
    "geo:in | utm zone=32",
    "foo",
    "é",
    "addone é=1",
    "addone | ",
    "| addone",
    "stack push=1,2 | stack pop=2,1",
    "push v_1 | addone | pop v_1",
    "gridshift grids=nonexistent.gsb",
    "proj=utm zone=32",
    "+proj=utm +zone=32",
    "addone\n```geodesy:inner\nnoop\n```",
    "helmert x=1 y=``",
    "tmerc lat_0=é lon_0=9",
];
const RES_FILE_BODIES: [&str; 10] = [
    "# Stupid way of adding one\r\n\r\naddone|addone inv|addone\r\n",
    "addone",
    "",
    " \n\t\r\n",
    "\u{feff}addone",
    "# only a comment\n",
    "```geodesy:a\naddone\n```\n",
    "helmert x=$something\n",
    "é",
    "addone |\n",
];
const MUT_BYTES: [&[u8]; 26] = [
    b"\xff", b"\x80", b"\xc3", b"\xe6\x97", b"\xf0\x9f\x98", b"\0", b"`", b"```", b"\r", b"\n", b"\r\n", b":", "é".as_bytes(), "日".as_bytes(), "😀".as_bytes(), b"\xef\xbb\xbf", b" ", b"\t", b"#", b"|", b"geodesy:",
    b"```geodesy:", b"\xe2\x80\xa8", b"~", b"```geodesy:a\n", b"\x1a",
];

fn mutate_bytes(b: &mut Vec<u8>, muts: &[(u16, u16, u16)]) {
    for (kind, pos, what) in muts {
        let n = b.len();
        let at = pick(*pos, n + 1);
        let seq = MUT_BYTES[pick(*what, MUT_BYTES.len())];
        match pick(*kind, 7) {
            0 | 1 => {
                for (i, x) in seq.iter().enumerate() {
                    b.insert(at + i, *x);
                }
            }
            2 => {
                // overwrite
                for (i, x) in seq.iter().enumerate() {
                    if at + i < b.len() {
                        b[at + i] = *x;
                    } else {
                        b.push(*x);
                    }
                }
            }
            3 => {
                if at < n {
                    b.remove(at);
                }
            }
            4 => {
                let end = (at + 1 + (*what as usize % 16)).min(n);
                if at < end {
                    b.drain(at..end);
                }
            }
            5 => {
                let end = (at + 1 + (*what as usize % 40)).min(n);
                let span: Vec<u8> = b[at.min(n)..end].to_vec();
                for (i, x) in span.into_iter().enumerate() {
                    b.insert(end + i, x);
                }
            }
            _ => {
                if at + 1 < n {
                    b.swap(at, at + 1);
                }
            }
        }
    }
}

#[derive(Clone, Debug)]
struct RawItem {
    suffix: u16,
    body: u16,
    open: u8,
    close: u8,
    pre: u8,
}
#[derive(Clone, Debug)]
struct RawRes {
    prefix: u8,
    nitems: u8,
    items: Vec<RawItem>,
    anomalies: u8,
    eol: u8,
    header: u8,
    trailer: u8,
    long: u8,
    place: u8,
    second: u8,
    second_body: u16,
    refs: u8,
    muts: Vec<(u16, u16, u16)>,
    cuts: Vec<u16>,
    calls: Vec<u16>,
    coords: Vec<P4>,
}

fn raw_res() -> impl Strategy<Value = RawRes> {
    let item = (any::<u16>(), any::<u16>(), any::<u8>(), any::<u8>(), any::<u8>()).prop_map(|(suffix, body, open, close, pre)| RawItem { suffix, body, open, close, pre });
    let a = (any::<u8>(), 1u8..=4, prop::collection::vec(item, 4..=4), any::<u8>(), any::<u8>(), any::<u8>(), any::<u8>(), any::<u8>());
    let b = (
        any::<u8>(),
        any::<u8>(),
        any::<u16>(),
        any::<u8>(),
        prop_oneof![2 => Just(vec![]), 3 => prop::collection::vec((any::<u16>(), any::<u16>(), any::<u16>()), 1..=3)],
        prop::collection::vec(any::<u16>(), 0..=3),
        prop::collection::vec(any::<u16>(), 2..=5),
        prop::collection::vec(coord(), 0..=2),
    );
    (a, b).prop_map(|((prefix, nitems, items, anomalies, eol, header, trailer, long), (place, second, second_body, refs, muts, cuts, calls, coords))| RawRes {
        prefix,
        nitems,
        items,
        anomalies,
        eol,
        header,
        trailer,
        long,
        place,
        second,
        second_body,
        refs,
        muts,
        cuts,
        calls,
        coords,
    })
}

const LONG_LINE: usize = 66_000;

fn build_res(r: &RawRes) -> ResCase {
    let prefix = format!("{}{TAG_PH}", RES_PREFIXES[pick(w(r.prefix), RES_PREFIXES.len())]);
    let mutated = !r.muts.is_empty();
    // anomalies: none / one item / every item draws its own fence styles
    let anomalies = pick_w(w(r.anomalies), &[(3, 0u8), (3, 1), (3, 2)]);
    let n = r.nitems as usize;
    let mut items: Vec<ItemSpec> = vec![];
    for (i, it) in r.items.iter().take(n).enumerate() {
        let odd = anomalies == 2 || (anomalies == 1 && i == (r.anomalies as usize) % n);
        items.push(ItemSpec {
            suffix: RES_SUFFIXES[pick(it.suffix, RES_SUFFIXES.len())].to_string(),
            body: LEAF_BODIES[pick(it.body, LEAF_BODIES.len())].to_string(),
            open: if odd { it.open % N_OPEN } else { 0 },
            close: if odd { it.close % N_CLOSE } else { 0 },
            pre: it.pre,
        });
    }
    // macro calls inside the register: only in files that get no byte-level mutations; the
    // calling item first (it calls items without calls), the self-calling item last
    let with_refs = !mutated && r.refs % 2 == 0;
    if with_refs {
        let callee = items[0].suffix.clone();
        let body = match r.refs % 3 {
            0 => format!("{{P}}:{callee} | {{P}}:{callee} inv"),
            1 => format!("addone | {{P}}:{callee} x=2 | {{P}}:nosuch"),
            _ => format!("{{P}}:{callee}"),
        };
        items.insert(0, ItemSpec { suffix: "top".into(), body, open: 0, close: 0, pre: 0 });
        if r.refs % 4 < 2 {
            items.push(ItemSpec { suffix: "self".into(), body: "addone | {P}:self".into(), open: 0, close: if r.refs % 8 < 4 { 0 } else { 1 }, pre: 1 });
        }
    }
    let header = HEADERS[pick_w(w(r.header), &[(6, 0usize), (2, 1), (2, 2), (1, 3), (1, 4)])];
    let trailer = TRAILERS[pick_w(w(r.trailer), &[(6, 0usize), (if mutated { 0 } else { 2 }, 1), (2, 2), (2, 3), (1, 4), (1, 5), (1, 6)])];
    let eol = pick_w(w(r.eol), &[(4, 0u8), (3, 1), (2, 2), (2, 3)]);
    let mut text = register_text(&prefix, header, &items, trailer, eol);
    // very long lines: prose before the first tag, a comment inside the first body, the end
    let long = pick_w(w(r.long), &[(13, 0u8), (1, 1), (1, 2), (1, 3)]);
    if long > 0 {
        let line = match r.long % 3 {
            0 => "x".repeat(LONG_LINE),
            1 => "é".repeat(LONG_LINE / 2),
            _ => "` ".repeat(LONG_LINE / 2),
        };
        match long {
            1 => text = format!("{line}\n{text}"),
            2 => {
                let at = text.find("```geodesy:").and_then(|i| text[i..].find(|c: char| c == '\n' || c == '\r').map(|j| i + j + 1)).unwrap_or(text.len());
                text.insert_str(at, &format!("# {line}\n"));
            }
            _ => text.push_str(&line),
        }
    }
    let mut bytes = text.into_bytes();
    mutate_bytes(&mut bytes, &r.muts);
    let place = pick_w(w(r.place), &[(5, 0u8), (3, 1)]);
    let mut files = vec![EnvFile { place, name: format!("{prefix}.md"), content: Content::from_bytes(bytes) }];
    let first = items.iter().find(|i| i.suffix != "top").map(|i| i.suffix.clone()).unwrap_or_else(|| "a".into());
    let second = pick_w(w(r.second), &[(6, 0u8), (2, 1), (3, 2), (1, 3), (1, 4), (1, 5)]);
    let second_label = ["single", "second-register", "resource-file", "directory-for-register", "directory-for-resource", "not-utf8-register"][second as usize];
    match second {
        1 => {
            let other = vec![ItemSpec { suffix: "zz".into(), body: "noop".into(), open: 0, close: 0, pre: 0 }, ItemSpec { suffix: first.clone(), body: "addone".into(), open: 0, close: (r.second_body % 2) as u8, pre: 1 }];
            files.push(EnvFile { place: 1 - place, name: format!("{prefix}.md"), content: Content::Utf8(register_text(&prefix, HEADERS[0], &other[..1 + (r.second_body as usize / 2) % 2], "", (r.second_body % 3) as u8)) });
        }
        2 => {
            let mut b = RES_FILE_BODIES[pick(r.second_body, RES_FILE_BODIES.len())].as_bytes().to_vec();
            if mutated && r.second_body % 2 == 0 {
                mutate_bytes(&mut b, &r.muts[..1]);
            }
            files.push(EnvFile { place: (r.second_body % 2) as u8, name: format!("{prefix}_{first}.resource"), content: Content::from_bytes(b) });
        }
        3 => {
            // the register proper moves to the user tree, a directory takes its name in the cwd tree
            files[0].place = 1;
            files.push(EnvFile { place: 0, name: format!("{prefix}.md"), content: Content::Directory });
        }
        4 => files.push(EnvFile { place: (r.second_body % 2) as u8, name: format!("{prefix}_{first}.resource"), content: Content::Directory }),
        5 => {
            files[0].place = 1;
            files.push(EnvFile { place: 0, name: format!("{prefix}.md"), content: Content::Raw(b"# A register\n\n```geodesy:\xff\nnoop\n```\n".to_vec()) });
        }
        _ => {}
    }
    // which file is rewritten between the calls: the register, now and then the other file
    let victim = if files.len() > 1 && files[1].content != Content::Directory && r.second_body % 5 == 0 { 1 } else { 0 };
    let len = files[victim].content.bytes().map(|b| b.len()).unwrap_or(0);
    // cuts: anywhere, or within the last item / the last 40 bytes (where the fence is)
    let cuts: Vec<usize> = r.cuts.iter().enumerate().map(|(i, c)| if i % 2 == 0 { pick(*c, len + 1) } else { len - pick(*c, len.min(40) + 1).min(len) }).collect();
    let mut sfx: Vec<String> = items.iter().map(|i| i.suffix.clone()).collect();
    sfx.push("zz".into());
    let all = res_calls(&prefix, &sfx);
    let mut calls: Vec<ResCall> = all.iter().filter(|c| c.kind == "item").cloned().collect();
    for c in &r.calls {
        calls.push(all[pick(*c, all.len())].clone());
    }
    let tags = vec![format!("files:{second_label}"), format!("eol:{}", EOL_NAMES[eol as usize]), format!("cuts:{}", r.cuts.len()), format!("mutations:{}", r.muts.len())];
    let label = format!(
        "{}{}{}{}",
        ["well-formed", "one-odd-item", "odd-items"][anomalies as usize],
        if mutated { "+bytes" } else { "" },
        if with_refs { "+calls" } else { "" },
        if long > 0 { "+long-line" } else { "" }
    );
    ResCase { label, tags, files, victim, cuts, calls, coords: r.coords.clone() }
}

/// The two resource sections, run inside the private tree.
fn resource_sections(run: &mut Run, repo: &PathBuf) {
    let world = setup_res_world();
    let old_xdg = std::env::var_os("XDG_DATA_HOME");
    // (only the main thread is active between sections: the pool threads are idle)
    std::env::set_var("XDG_DATA_HOME", world.root.join("u"));
    if let Err(e) = std::env::set_current_dir(world.root.join("w")) {
        eprintln!("cannot chdir to {}: {e}", world.root.join("w").display());
        std::process::exit(2);
    }
    {
        let bases = res_bases(repo);
        // index space: base x block of CUTS_PER_CASE consecutive cut lengths
        let mut starts: Vec<usize> = vec![];
        let mut total = 0usize;
        let mut bytes = 0usize;
        for b in &bases {
            starts.push(total);
            let len = b.files[b.victim].content.bytes().map(|x| x.len()).unwrap_or(0);
            bytes += len;
            total += (len + 1).div_ceil(CUTS_PER_CASE);
        }
        run.note("resource_environments", serde_json::json!({"base_environments": bases.len(), "bytes_cut_one_by_one": bytes, "cuts_per_case": CUTS_PER_CASE}));
        let coords = res_coords();
        run.enumerate(
            "resource-files-truncated",
            "Plain context in a private cwd / XDG_DATA_HOME tree: register files <prefix>.md (6 item sets incl. nested macro calls, multi-byte names, duplicates, nested fences x 19 fence layouts: missing / doubled / glued / indented / tilde / four-back-tick / one-back-tick-short fences, tags with spaces, body on the tag line x LF / CRLF / CR / mixed; headers with BOM and stray fences, trailers with a console block or a tag at the very end), the same item in the cwd tree, the user tree or both, behind a non-UTF-8 file or a directory, separate .resource files, and the registers shipped with the repository; each environment first intact, then one file rewritten at EVERY byte length (longest first, 8 lengths per case, same context) and after every rewrite op() for every item, with modifiers / arguments / in pipelines, absent items, absent files, malformed names; handles are applied in both orders; the same names on a Minimal context; non-trivial = instantiated or an error other than NotFound",
            total,
            move |i| {
                let bi = starts.partition_point(|s| *s <= i) - 1;
                let b = &bases[bi];
                let len = b.files[b.victim].content.bytes().map(|x| x.len()).unwrap_or(0);
                let k = i - starts[bi];
                // cut lengths len, len-1, .., 0 in blocks
                let cuts: Vec<usize> = (0..CUTS_PER_CASE).filter_map(|j| len.checked_sub(k * CUTS_PER_CASE + j)).collect();
                ResCase { label: b.label.clone(), tags: b.tags.clone(), files: b.files.clone(), victim: b.victim, cuts, calls: b.calls.clone(), coords: coords.clone() }
            },
            check_res,
        );
    }
    let n = run.scale(5_000, 300_000);
    run.section(
        "resource-files-random",
        "as resource-files-truncated, but the environment is drawn: 1..4 items (12 suffixes, 30 bodies incl. empty / comment-only / multi-line / nested fence / hostile), fence styles per item (12 opening x 11 closing), prose between items, header, trailer, line endings, a line of 66 000 characters (before the first tag, inside a body, at the end), 0..3 byte-level mutations (invalid UTF-8, NUL, BOM, fences, CR, multi-byte characters; insert / overwrite / delete / delete range / duplicate span / swap), a second file (register in the other tree, .resource file, a directory or a non-UTF-8 file in the way), 0..3 rewrites of one file cut at a drawn length; prefixes with multi-byte characters, dots, spaces",
        n,
        || raw_res().prop_map(|r| build_res(&r)),
        check_res,
    );
    let _ = std::env::set_current_dir(repo);
    match old_xdg {
        Some(v) => std::env::set_var("XDG_DATA_HOME", v),
        None => std::env::remove_var("XDG_DATA_HOME"),
    }
    let _ = std::fs::remove_dir_all(&world.root);
}

// =====================================================================================
// main
// =====================================================================================

fn main() {
    if let Ok(t) = std::env::var("C09_PROBE_TEXT") {
        probe_child(&t);
    }
    // Plain looks for ./geodesy/{resources,datum,gsb,...}: run inside the repository under
    // test (never changed afterwards)
    let repo = PathBuf::from(std::env::var("VERIF_REPO_DIR").unwrap_or_else(|_| "/repo".into()));
    // (Run::init first: it resolves a relative --replay path against the caller's cwd; the
    // pool threads it creates are idle until the first section, so no thread observes the change)
    let mut run = Run::init("C09");
    if let Err(e) = std::env::set_current_dir(&repo) {
        eprintln!("cannot chdir to {}: {e}", repo.display());
        std::process::exit(2);
    }
    run.watchdog(Duration::from_secs(60), true);
    if ENV.set(build_env(&repo)).is_err() {
        unreachable!();
    }
    let _ = FRAGS.set(text_fragments());
    let _ = KNOWN.set(load_known());
    let env = env();

    run.assume("an Err value from op/apply/parse_proj is the documented contract for bad input and never a violation");
    run.assume("termination is decided by a watchdog: 60 s per case in-process (normal cost: micro- to milliseconds), 3 s in the child-process probe");
    run.assume("grid names handed to Plain never contain '/', so no file outside <repo>/geodesy is opened (e.g. /dev/zero would be read without bound)");
    run.assume("macro libraries have at most 3 macros of at most 2 steps: expansion size stays small; exponential-size but finite expansions are not treated as hangs");
    run.assume("resource sections: register / resource files are generated into a private tree that is the process cwd and XDG_DATA_HOME only while these sections run; in every generated file the text after a tag calls at most one item at or before it (macro expansion stays linear in the nesting limit of 100); file names never contain '/'");
    run.assume("release build with overflow-checks and debug-assertions on: arithmetic overflow on user-supplied numbers surfaces as a panic, as it does in a debug build of the library");

    // a step made of modifiers only: detect once, in a child that can be killed
    if let ProbeResult::Hang = probe("inv") {
        HANG_MODIFIER_ONLY.store(true, Ordering::SeqCst);
        run.assume("op(\"inv\") hangs (reported by section modifier-only-steps): definitions containing a modifier-only step are excluded from the in-process sections and counted as excluded_known_modifier_only_step");
    }

    // 0. modifier-only steps, each in a child process
    let probes: Vec<&str> = vec![
        "inv", "omit_fwd", "omit_inv", "inv inv", "omit_fwd inv omit_inv", "noop >", "noop <", "noop | inv", "inv | noop", "noop > | noop", "addone | omit_inv | addone", " inv \n",
        // controls: must return
        "noop inv", "inv noop", "noop | inv noop", "> noop", "inv=true", "noop > noop",
    ];
    {
        let probes: Vec<String> = probes.iter().map(|s| s.to_string()).collect();
        let n = probes.len();
        run.enumerate(
            "modifier-only-steps",
            "definitions in which a step consists of modifiers only (inv / omit_fwd / omit_inv, also as produced by a trailing '<' or '>'), plus controls; each instantiated in a child process that is killed after 3 s",
            n,
            move |i| ProbeCase { text: probes[i].clone() },
            check_probe,
        );
    }

    // 1. catalogue x lattice
    start_cat_monitor();
    {
        let thorough = run.is_thorough();
        let lat: Vec<F> = lattice(thorough).into_iter().map(F).collect();
        let cat = catalogue();
        let mut items: Vec<(String, String, u8)> = vec![];
        for (op, def, grids) in &cat {
            let ctxs: &[u8] = if *grids { &[0, 1, 2] } else if op == "macro" || op == "pipeline" { &[0, 1, 2] } else if def.contains("ellps=") && !thorough { &[0] } else { &[0, 1] };
            for c in ctxs {
                items.push((op.clone(), def.clone(), *c));
            }
        }
        let nl = lat.len();
        let per_def = if thorough { 2 * nl * nl } else { 2 * nl };
        let n = items.len() * per_def;
        run.note("catalogue_definitions", serde_json::json!(cat.len()));
        run.enumerate(
            "catalogue",
            "every built-in operator (hook list) x canonical definitions (aspects, sub-commands, 9 ellipsoid shapes incl. f=0, f>=1, a<=0, NaN) x contexts x both application orders x the full 4-D lattice of special f64 values (NaN, +-inf, +-0, subnormal, +-1e300, +-pi/2, pi, 1, 6.4e6, 180; more in the thorough tier); non-trivial = instantiated and applied",
            n,
            move |i| {
                // definition index varies fastest: expensive definitions are spread over all chunks
                let (op, def, ctx) = &items[i % items.len()];
                let r = i / items.len();
                let (first_fwd, r) = (r % 2 == 0, r / 2);
                let second = if thorough { Some(lat[r / nl]) } else { None };
                CatCase { op: op.clone(), def: def.clone(), ctx: *ctx, first_fwd, first: lat[r % nl], second, lattice: lat.clone() }
            },
            check_cat,
        );
    }

    // 2. grammar-generated definitions
    let n = run.scale(100_000, 3_000_000);
    run.section(
        "definitions",
        "grammar over all operator names x gamut keys (+unknown keys) x valid / extreme / adversarial values, modifiers in all spellings, pipelines with all separators, macro libraries (incl. recursive), PROJ syntax, garbage, character mutations; contexts Minimal / Plain / GridCtx; applied Fwd-Inv and Inv-Fwd to 0..7 tuples of all f64 classes in 4 container types; non-trivial = instantiated, or rejected by a constructor (error other than NotFound/Syntax); distinct by (operators, key sets, value classes, modifiers, context, outcome)",
        n,
        || raw_def().prop_map(|r| build_def(&r)),
        check_def,
    );

    // 2b. macro arguments: every operator wrapped in a macro, one hostile argument (exhaustive)
    {
        let values = hostile_values();
        let mut triples: Vec<(String, String, Kind)> = vec![];
        for op in &env.ops {
            let mut keys: Vec<(String, Kind)> = env.specs[op].keys.clone();
            // keys every operator can be handed although they are not in every gamut
            for k in ["ellps", "ellps_0", "ellps_1", "grids", "lat_0", "inv", "omit_fwd", "_name"] {
                if !keys.iter().any(|x| x.0 == k) {
                    keys.push((k.to_string(), Text));
                }
            }
            for (k, t) in keys {
                triples.push((op.clone(), k, t));
            }
        }
        let (nt, nv) = (triples.len(), values.len());
        // quick: every (operator, key, value) in 2 of the 6 shapes (rotating); thorough: all 6
        let shapes = if run.is_thorough() { MACRO_ARG_VARIANTS } else { 2 };
        let n = nt * nv * shapes;
        run.note("macro_argument_space", serde_json::json!({"operator_key_pairs": nt, "hostile_values": nv, "shapes_per_triple": shapes}));
        let coords = macro_arg_coords();
        run.enumerate(
            "macro-arguments",
            "every built-in operator wrapped in a registered macro x:<op> (body = bare operator + required parameters, never mentioning the key under test) x every gamut key (+ ellps, ellps_0, ellps_1, grids, lat_0, inv, omit_fwd, _name for all) x every hostile value (adversarial pool, all extreme pool values, unknown ellipsoids, $-chains), each triple in 2 (quick, rotating) or all 6 (thorough) shapes (plain body, pipeline body, nested macro, nested in a pipeline, invoked as a pipeline step, inverted); contexts cycled; instantiated and applied in both orders; non-trivial = instantiated or refused by a constructor",
            n,
            move |i| {
                let j = i / shapes;
                let variant = if shapes == MACRO_ARG_VARIANTS { i % shapes } else { (j % nt + j / nt + 3 * (i % shapes)) % MACRO_ARG_VARIANTS };
                let (op, key, kind) = &triples[j % nt];
                let value = &values[j / nt];
                let ctx = ((j / nt + j % nt + variant) % 3) as u8;
                let arg = if *kind == Flag && value.is_empty() { key.clone() } else { format!("{key}={value}") };
                let (macros, def) = macro_arg_case(op, key, ctx, variant, &arg);
                DefCase {
                    ctx,
                    via_parse_proj: false,
                    macros,
                    def,
                    container: 0,
                    coords: coords.clone(),
                    form: format!("macroarg-v{variant}"),
                    ops: vec![op.clone()],
                    sig: format!("[x:{op}/{key}/{}/v{variant}]", j / nt),
                }
            },
            check_def,
        );
    }

    // 2c. macro arguments, random combinations
    let n = run.scale(20_000, 600_000);
    run.section(
        "macro-arguments-random",
        "as macro-arguments, but 1..4 arguments per invocation: gamut keys of the wrapped operator (1 in 8 foreign), values valid / extreme / hostile / $-lookups, the first key optionally left to the body, modifiers, 0..4 tuples of all f64 classes in 4 container types",
        n,
        || raw_macro_args().prop_map(|r| build_macro_args(&r)),
        check_def,
    );

    // 3. tokenizer and parse_proj
    let n = run.scale(30_000, 800_000);
    run.section(
        "tokenizer-api",
        "normalize, split_into_steps, split_into_parameters, is_pipeline, is_resource_name, operator_name (on the text and on each of its steps) and parse_proj on grammar-generated definitions, glued fragments and arbitrary Unicode",
        n,
        tok_case,
        check_tok,
    );

    // 4. angular
    let n = run.scale(40_000, 1_000_000);
    run.section(
        "angular-api",
        "every function of geodesy::prelude::angular on all f64 classes, arbitrary i32/u16 and sexagesimal-like / arbitrary text",
        n,
        ang_case,
        check_ang,
    );

    // 5. ellipsoid
    let n = run.scale(20_000, 600_000);
    run.section(
        "ellipsoid-api",
        "Ellipsoid::named / TriaxialEllipsoid::named on arbitrary text; every method of EllipsoidBase, Meridians, Latitudes, GeoCart, Geodesics, Gravity on ellipsoid shapes incl. f=0, f<0, f>=1, a<=0, NaN, inf and arguments of all f64 classes, all four tuple types",
        n,
        ell_case,
        check_ell,
    );

    // 6. resource files on disk (changes cwd and XDG_DATA_HOME while it runs, restores them)
    resource_sections(&mut run, &repo);

    // coverage notes (not in replay / single-section mode)
    if !std::env::args().any(|a| a == "--replay" || a == "--only") {
        let inst = INSTANTIATED.lock().unwrap();
        let never: Vec<String> = env.ops.iter().filter(|o| !inst.contains_key(&format!("catalogue:{o}")) && !inst.contains_key(*o)).cloned().collect();
        if !never.is_empty() {
            eprintln!("WARNING C09: operators never instantiated: {never:?}");
        }
        run.note("operators_never_instantiated", serde_json::json!(never));
        run.note("operators_from_hook", serde_json::json!(env.ops.len()));
        run.note("uncovered_operators", serde_json::json!(env.uncovered_operators));
        run.note("gamut_keys_only_in_source_scan", serde_json::json!(env.keys_only_in_source));
        run.note("gamut_keys_only_in_static_table", serde_json::json!(env.keys_only_in_table));
        let per_op: BTreeMap<String, u64> = inst.iter().map(|(k, v)| (k.clone(), *v)).collect();
        run.note("instantiations_per_operator", serde_json::json!(per_op));
    }
    run.finish("invariant Ok/Err/count<=len without panic, abort or hang over grammar-generated definitions, an exhaustive operator x f64-lattice catalogue and direct calls of the ellipsoid, angular and tokenizer APIs; see sections");
}
