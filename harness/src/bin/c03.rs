//! C03 — pipelines compose steps in order and invert by reversing inverted steps;
//! the modifiers inv / omit_fwd / omit_inv are local to the step that carries them.
//!
//! Oracle: a reference interpreter over the generated definition AST. It flattens a
//! definition (pipeline, macro steps recursing into their body AST) into the sequence of
//! *stand-alone* elementary operators that the documentation says must be executed
//! (forward: in order, skipping omit_fwd steps, each in direction Fwd xor inv; inverse:
//! reversed order, skipping omit_inv steps, direction Inv xor inv), instantiates every
//! elementary operator on its own through the same public `ctx.op` from its *bare*
//! definition (no modifiers at all) and applies them one after another to the probe set.
//! The result (bit for bit) and the count (minimum over the executed steps, set size if
//! none) are compared with `ctx.op(<rendered definition text>)` applied in both directions.
//!
//! Failure keys: a mismatch is classified by re-running the reference interpreter with
//! *models of known defects* switched on (macro `inv` detected by substring; omit_* of a
//! macro invocation leaking into the body through the globals; the pipeline constructor
//! parsing its whole text as one step's parameter list). If the library behaves exactly
//! like one of these models the failure carries that model's key, otherwise the generic
//! key. Classes listed as `known` in the known-findings files are in addition excluded
//! from the random generator by construction (and counted), so the rest of the space is
//! still searched; when an entry disappears or becomes `fixed` the exclusion is lifted.
//!
//! Containers: sections 1-5 hold the operands in a Vec<Coor4D>. Section `containers` crosses the
//! definitions with all 36 kinds of CoordinateSet the library offers; there the reference applies
//! its stand-alone steps to a container of the same kind (which narrows after every step), and the
//! stored elements are compared (see "operand containers of every supported kind" below).
//!
//! Length: sections 1-6 use pipelines of at most a dozen steps. Sections `long-pipelines-placed` and
//! `long-pipelines` cross the same oracle with the LENGTH of the pipeline (1..300 steps, concentrated
//! around powers of two, in the definition and in macro bodies, also a long macro body as a step of a
//! long pipeline) and with the POSITION of the modified steps counted from the front and from the back
//! (see "long pipelines" below).

use geodesy::authoring::Tokenize;
use geodesy::prelude::*;
use proptest::prelude::*;
use serde::{Deserialize, Serialize};
use std::collections::{BTreeMap, BTreeSet};
use vcore::geo::*;
use vcore::*;

// ---- failure keys ---------------------------------------------------------------------

/// `inv` on a macro invocation is found by `def.contains(" inv ") || def.ends_with(" inv")`
const K_D1: &str = "macro-inv-not-detected";
/// omit_fwd/omit_inv of a macro invocation are copied into the globals and so apply to every step below
const K_D3A: &str = "macro-invocation-omit-leaks-into-body";
/// the pipeline constructor parses the whole pipeline text as a parameter list: modifiers of body steps
/// become modifiers of the macro step in the enclosing pipeline
const K_D3B: &str = "macro-body-modifier-leaks-to-enclosing-step";
/// same root cause as K_D3B: `inv=true` directly in front of a step delimiter -> BadParam("inv", "true|...")
const K_D4: &str = "pipeline-rejected-inv=true-before-delimiter";
/// a definition instantiated after a macro was re-registered still runs the earlier registration
const K_STALE: &str = "instantiation-ignores-reregistration";
const K_VALUES: &str = "pipeline-differs-from-sequential";
const K_COUNT: &str = "pipeline-count-differs";
const K_REJECT: &str = "well-formed-rejected";

// ---- AST ------------------------------------------------------------------------------

#[derive(Clone, Copy, Debug, Serialize, Deserialize, PartialEq, Eq, Hash)]
enum Sp {
    Prefix,
    Infix,
    Suffix,
    InfixTrue,
    SuffixTrue,
    Sugar, // only for omit_fwd (`<`) and omit_inv (`>`)
}

/// (key, Some(value)) = `key=value`; (key, None) = flag / name
type Param = (String, Option<String>);

#[derive(Clone, Debug, Serialize, Deserialize, PartialEq, Eq, Hash)]
enum Target {
    Elem { name: String, params: Vec<Param> },
    Macro(usize),
}

#[derive(Clone, Debug, Serialize, Deserialize, PartialEq, Eq, Hash)]
struct Step {
    target: Target,
    inv: Option<Sp>,
    omit_fwd: Option<Sp>,
    omit_inv: Option<Sp>,
    lay: u32,
}

/// `piped == false`: a single operator / macro invocation without any step delimiter
/// (then no omit_* modifiers are generated: they are documented for pipeline steps only).
#[derive(Clone, Debug, Serialize, Deserialize, PartialEq, Eq, Hash)]
struct Body {
    steps: Vec<Step>,
    piped: bool,
    lay: u32,
    #[serde(default)]
    spicy: bool, // allow a comment that contains modifier words
}

#[derive(Clone, Debug, Serialize, Deserialize, PartialEq, Eq, Hash)]
struct MacroDef {
    name: String,
    body: Body,
}

#[derive(Clone, Debug, Serialize, Deserialize)]
struct Case {
    macros: Vec<MacroDef>,
    main: Body,
    probes: Vec<P4>,
    #[serde(default)]
    excluded: Vec<String>, // known classes removed by construction (for the evidence counters)
    #[serde(default)]
    bulk: Option<Bulk>, // a large operand set described compactly (then `probes` is empty)
}

/// A large operand set: `n` benign tuples that differ from each other, computed from their index,
/// with a few fault tuples (NaN, inf, absurdly large) put into different thirds of the set.
#[derive(Clone, Debug, Serialize, Deserialize)]
struct Bulk {
    n: usize,
    base: u8,
    faults: Vec<(u16, u8)>,
}

fn expand(b: &Bulk) -> Vec<P4> {
    let mut v: Vec<P4> = (0..b.n)
        .map(|i| {
            let (a, c, d) = ((i % 977) as f64, (i % 911) as f64, (i % 53) as f64);
            match b.base % 4 {
                0 => p4(0.05 + a * 1e-4, 0.6 + c * 1e-4, d, 2020.0),          // geographic, radians
                1 => p4(4.0e5 + 13.0 * a, 6.1e6 + 7.0 * c, 10.0 + d, 0.0),    // projected
                2 => p4(3.6e6 + a, 6.0e5 + 2.0 * c, 5.2e6 - d, 0.0),          // cartesian
                _ => p4(a - 400.0, c / 4.0, d, (i % 5) as f64),               // small numbers
            }
        })
        .collect();
    for (k, (sel, kind)) in b.faults.iter().enumerate() {
        let third = k % 3;
        let (lo, hi) = (third * b.n / 3, (third + 1) * b.n / 3);
        if hi <= lo {
            continue;
        }
        let pos = lo + pick(*sel, hi - lo);
        v[pos] = match kind % 8 {
            0 => p4(f64::NAN, 0.5, 0.0, 0.0),
            1 => p4(f64::INFINITY, 0.5, 0.0, 0.0),
            2 => p4(0.2, 0.9, 1.0e25, 0.0),
            3 => p4(1.0e9, 5.0e6, 0.0, 0.0),
            4 => p4(3.0, 0.5, 0.0, 0.0),
            5 => p4(0.1, f64::NAN, 0.0, 0.0),
            6 => p4(-1.0e12, 1.0, 5.0, 0.0),
            _ => p4(v[pos][0].0, v[pos][1].0, f64::NAN, 0.0),
        };
    }
    v
}

fn probes_of(case: &Case) -> Vec<P4> {
    match &case.bulk {
        Some(b) => expand(b),
        None => case.probes.clone(),
    }
}

// ---- deterministic layout choices -----------------------------------------------------------

fn splitmix(mut x: u64) -> u64 {
    x = x.wrapping_add(0x9E3779B97F4A7C15);
    let mut z = x;
    z = (z ^ (z >> 30)).wrapping_mul(0xBF58476D1CE4E5B9);
    z = (z ^ (z >> 27)).wrapping_mul(0x94D049BB133111EB);
    z ^ (z >> 31)
}

/// Pure function of the seed stored in the case; seed 0 = plain layout (always choice 0).
struct Lay {
    s: u64,
    plain: bool,
}
impl Lay {
    fn new(seed: u32, salt: u64) -> Lay {
        Lay { s: ((seed as u64) << 16) ^ salt.wrapping_mul(0xD1342543DE82EF95), plain: seed == 0 }
    }
    fn pick(&mut self, n: usize) -> usize {
        if self.plain || n <= 1 {
            return 0;
        }
        self.s = splitmix(self.s);
        ((self.s >> 32) as usize) % n
    }
}

const GAP_PIPE: [&str; 15] = [" ", " ", " ", " ", " ", " ", " ", "  ", "\t", " \n  ", "\n", "\n:   ", "\n:", " # note\n ", "\r\n "];
const GAP_SINGLE: [&str; 8] = [" ", " ", " ", " ", "  ", "\t", "\n", " \n "];
const EQ: [&str; 7] = ["=", "=", "=", "=", " =", "= ", " = "];
const DELIM: [&str; 12] = [
    " @ ", " @ ", " @ ", "@", " @", "@ ", "\n@ ", "\n  @ ", " # only one way\n@ ", "\n\n@ ", "\r\n@ ", "\n# block comment\n@ ",
];
const DELIM_SPICY: &str = " # omit_fwd omit_inv and inv are modifiers\n@ ";
const SIGIL: [&str; 9] = [":", ":", ":", ":", ":", ":", " : ", ": ", " :"];
const LEAD: [&str; 4] = ["@ ", "@", "\n@ ", "  @  "];

// ---- rendering -----------------------------------------------------------------------------

struct StepToks {
    sugar: Option<char>,
    toks: Vec<Param>,
}

fn step_toks(step: &Step, macros: &[MacroDef], allow_sugar: bool) -> StepToks {
    let (name, params) = match &step.target {
        Target::Elem { name, params } => (name.clone(), params.clone()),
        Target::Macro(i) => (macros[*i].name.clone(), vec![]),
    };
    let mut mods: Vec<(&'static str, Sp)> = vec![];
    if let Some(s) = step.inv {
        mods.push(("inv", s));
    }
    if let Some(s) = step.omit_fwd {
        mods.push(("omit_fwd", s));
    }
    if let Some(s) = step.omit_inv {
        mods.push(("omit_inv", s));
    }
    let mut l = Lay::new(step.lay, 1);
    if mods.len() > 1 {
        let r = l.pick(mods.len());
        mods.rotate_left(r);
        if mods.len() == 3 && l.pick(2) == 1 {
            mods.swap(1, 2);
        }
    }
    let mut sugar = None;
    let mut prefix: Vec<Param> = vec![];
    let mut infix: Vec<Param> = vec![];
    let mut suffix: Vec<Param> = vec![];
    for (m, sp) in mods {
        match sp {
            Sp::Sugar if allow_sugar && sugar.is_none() && m != "inv" => sugar = Some(if m == "omit_fwd" { '<' } else { '>' }),
            Sp::Sugar | Sp::Prefix => prefix.push((m.to_string(), None)),
            Sp::Infix => infix.push((m.to_string(), None)),
            Sp::InfixTrue => infix.push((m.to_string(), Some("true".to_string()))),
            Sp::Suffix => suffix.push((m.to_string(), None)),
            Sp::SuffixTrue => suffix.push((m.to_string(), Some("true".to_string()))),
        }
    }
    let mut toks = prefix;
    toks.push((name, None));
    if params.is_empty() {
        toks.extend(infix);
    } else {
        // an infix modifier goes in front of parameter `slot`, so at least one parameter follows it
        let slots: Vec<usize> = infix.iter().map(|_| l.pick(params.len())).collect();
        for (j, p) in params.iter().enumerate() {
            for (k, m) in infix.iter().enumerate() {
                if slots[k] == j {
                    toks.push(m.clone());
                }
            }
            toks.push(p.clone());
        }
    }
    toks.extend(suffix);
    StepToks { sugar, toks }
}

fn tok_text(t: &Param) -> String {
    match &t.1 {
        Some(v) => format!("{}={}", t.0, v),
        None => t.0.clone(),
    }
}

/// The step text as `split_into_steps` hands it to the operator factory (normalised, desugared).
fn canonical_step(step: &Step, macros: &[MacroDef], allow_sugar: bool) -> String {
    let st = step_toks(step, macros, allow_sugar);
    let mut v: Vec<String> = vec![];
    match st.sugar {
        Some('<') => v.push("omit_fwd".into()),
        Some('>') => v.push("omit_inv".into()),
        _ => {}
    }
    v.extend(st.toks.iter().map(tok_text));
    v.join(" ")
}

/// Fingerprint of the spelled AST (layout excluded)
fn canonical_body(body: &Body, macros: &[MacroDef]) -> String {
    if !body.piped {
        return canonical_step(&body.steps[0], macros, false);
    }
    let mut out = String::new();
    for s in &body.steps {
        let st = step_toks(s, macros, true);
        out.push(st.sugar.unwrap_or('|'));
        out.push_str(&st.toks.iter().map(tok_text).collect::<Vec<_>>().join(" "));
    }
    out
}

fn render_toks(toks: &[Param], l: &mut Lay, piped: bool) -> String {
    let mut out = String::new();
    for (i, t) in toks.iter().enumerate() {
        if i > 0 {
            out.push_str(if piped { GAP_PIPE[l.pick(GAP_PIPE.len())] } else { GAP_SINGLE[l.pick(GAP_SINGLE.len())] });
        }
        if t.1.is_none() && t.0.contains(':') {
            // a macro name: blanks around the sigil are not significant ("foo: bar -> foo:bar")
            out.push_str(&t.0.replace(':', SIGIL[l.pick(SIGIL.len())]));
        } else {
            out.push_str(&t.0);
        }
        if let Some(v) = &t.1 {
            out.push_str(EQ[l.pick(EQ.len())]);
            out.push_str(v);
        }
    }
    out
}

fn render_body(body: &Body, macros: &[MacroDef]) -> String {
    if !body.piped {
        let s = &body.steps[0];
        let st = step_toks(s, macros, false);
        let seed = if body.lay == 0 { 0 } else { s.lay };
        return render_toks(&st.toks, &mut Lay::new(seed, 3), false);
    }
    let mut l = Lay::new(body.lay, 7);
    let mut out = String::new();
    for (i, s) in body.steps.iter().enumerate() {
        let st = step_toks(s, macros, true);
        let d = st.sugar.unwrap_or('|').to_string();
        if i == 0 {
            if st.sugar.is_some() || body.steps.len() == 1 || l.pick(5) == 4 {
                out.push_str(&LEAD[l.pick(LEAD.len())].replace('@', &d));
            }
        } else {
            let k = l.pick(DELIM.len() + 1);
            let pat = if k == DELIM.len() {
                if body.spicy {
                    DELIM_SPICY
                } else {
                    DELIM[0]
                }
            } else {
                DELIM[k]
            };
            out.push_str(&pat.replace('@', &d));
        }
        let seed = if body.lay == 0 { 0 } else { s.lay };
        out.push_str(&render_toks(&st.toks, &mut Lay::new(seed, 3), true));
    }
    out
}

struct Texts {
    macros: Vec<String>,
    main: String,
}

fn render_case(case: &Case) -> Texts {
    Texts { macros: case.macros.iter().map(|m| render_body(&m.body, &case.macros)).collect(), main: render_body(&case.main, &case.macros) }
}

fn bare_def(name: &str, params: &[Param]) -> String {
    let mut v = vec![name.to_string()];
    v.extend(params.iter().map(tok_text));
    v.join(" ")
}

// ---- the reference interpreter (planner) with optional defect models --------------------------

#[derive(Clone, Copy, Default, PartialEq, Eq, Debug)]
struct Q {
    d1: bool,
    d3a: bool,
    d3b: bool,
}
impl Q {
    const NONE: Q = Q { d1: false, d3a: false, d3b: false };
    fn names(&self) -> Vec<&'static str> {
        let mut v = vec![];
        if self.d1 {
            v.push(K_D1);
        }
        if self.d3b {
            v.push(K_D3B);
        }
        if self.d3a {
            v.push(K_D3A);
        }
        v
    }
}

/// (bare elementary definition, applied forward?)
type Trace = Vec<(String, bool)>;

/// Modifier words that the library's own tokenizer finds when the whole body text is read as
/// one step's parameter list (only used by the defect models, never by the reference).
fn text_flag(text: &str, key: &str) -> Option<String> {
    text.split_into_parameters().get(key).cloned()
}
fn is_true(v: &str) -> bool {
    v.is_empty() || v.to_lowercase() == "true"
}
fn leaks(text: &str) -> (bool, bool) {
    (
        text_flag(text, "omit_fwd").map(|v| is_true(&v)).unwrap_or(false),
        text_flag(text, "omit_inv").map(|v| is_true(&v)).unwrap_or(false),
    )
}
/// model of K_D4: the pipeline's own `inv` flag has a value that is not a boolean
fn d4_rejects(text: &str) -> bool {
    text_flag(text, "inv").map(|v| !is_true(&v)).unwrap_or(false)
}

struct Planner<'a> {
    case: &'a Case,
    texts: &'a Texts,
    q: Q,
}

impl<'a> Planner<'a> {
    fn plan(&self, fwd: bool) -> Trace {
        let mut out = vec![];
        let main_seen = self.texts.main.trim().to_string();
        self.body(&self.case.main, &main_seen, fwd, (false, false), &mut out);
        out
    }

    fn body(&self, body: &Body, raw: &str, fwd: bool, g: (bool, bool), out: &mut Trace) {
        if !body.piped {
            self.step(&body.steps[0], Some(raw), fwd, g, out);
            return;
        }
        let n = body.steps.len();
        for k in 0..n {
            let s = &body.steps[if fwd { k } else { n - 1 - k }];
            let e = self.eff_omits(s, g);
            if (fwd && e.0) || (!fwd && e.1) {
                continue;
            }
            self.step(s, None, fwd, g, out);
        }
    }

    fn eventual_pipeline(&self, mut m: usize) -> Option<usize> {
        loop {
            let b = &self.case.macros[m].body;
            if b.piped {
                return Some(m);
            }
            match b.steps[0].target {
                Target::Macro(j) => m = j,
                Target::Elem { .. } => return None,
            }
        }
    }

    fn eff_omits(&self, s: &Step, g: (bool, bool)) -> (bool, bool) {
        let mut e = (s.omit_fwd.is_some(), s.omit_inv.is_some());
        if self.q.d3a {
            e.0 |= g.0;
            e.1 |= g.1;
        }
        if self.q.d3b {
            if let Target::Macro(m) = s.target {
                if let Some(pm) = self.eventual_pipeline(m) {
                    let lk = leaks(&self.texts.macros[pm]);
                    e.0 |= lk.0;
                    e.1 |= lk.1;
                }
            }
        }
        e
    }

    fn step(&self, s: &Step, raw_seen: Option<&str>, fwd: bool, g: (bool, bool), out: &mut Trace) {
        match &s.target {
            Target::Elem { name, params } => out.push((bare_def(name, params), fwd ^ s.inv.is_some())),
            Target::Macro(m) => {
                let inverted = if self.q.d1 {
                    let seen = match raw_seen {
                        Some(t) => t.to_string(),
                        None => canonical_step(s, &self.case.macros, true),
                    };
                    seen.contains(" inv ") || seen.ends_with(" inv")
                } else {
                    s.inv.is_some()
                };
                let g2 = if self.q.d3a { (g.0 || s.omit_fwd.is_some(), g.1 || s.omit_inv.is_some()) } else { (false, false) };
                self.body(&self.case.macros[*m].body, &self.texts.macros[*m], fwd ^ inverted, g2, out);
            }
        }
    }
}

fn plan(case: &Case, texts: &Texts, q: Q, fwd: bool) -> Trace {
    Planner { case, texts, q }.plan(fwd)
}

/// piped bodies that get instantiated when the main definition is instantiated
fn reachable(case: &Case) -> BTreeSet<usize> {
    fn visit(case: &Case, b: &Body, seen: &mut BTreeSet<usize>) {
        for s in &b.steps {
            if let Target::Macro(m) = s.target {
                if seen.insert(m) {
                    visit(case, &case.macros[m].body, seen);
                }
            }
        }
    }
    let mut seen = BTreeSet::new();
    visit(case, &case.main, &mut seen);
    seen
}

fn depth(case: &Case, b: &Body) -> usize {
    b.steps.iter().map(|s| if let Target::Macro(m) = s.target { 1 + depth(case, &case.macros[m].body) } else { 0 }).max().unwrap_or(0)
}

// ---- execution -------------------------------------------------------------------------------

struct Exec {
    ctx: Minimal,
    cache: BTreeMap<String, OpHandle>,
}

enum RefOut {
    Done(Vec<Coor4D>, usize),
    Panicked(String),
}

impl Exec {
    /// The stand-alone operator for a bare elementary definition (instantiated once per context);
    /// `Ok(Err(text))` = the instantiation panicked.
    fn handle(&mut self, def: &str) -> Result<Result<OpHandle, String>, Failure> {
        if let Some(h) = self.cache.get(def) {
            return Ok(Ok(*h));
        }
        let h = match try_op(&mut self.ctx, def) {
            Err(p) => return Ok(Err(format!("instantiating stand-alone '{def}': {} at {}:{}", p.msg, p.file, p.line))),
            Ok(Err(e)) => vfail!("harness-standalone-step-rejected", "the stand-alone step '{def}' is rejected: {e:?} (generator bug)"),
            Ok(Ok(h)) => h,
        };
        self.cache.insert(def.to_string(), h);
        Ok(Ok(h))
    }

    fn run(&mut self, trace: &Trace, probes: &[P4]) -> Result<RefOut, Failure> {
        let mut data = c4s(probes);
        let mut count = usize::MAX;
        for (def, fwd) in trace {
            let h = match self.handle(def)? {
                Ok(h) => h,
                Err(what) => return Ok(RefOut::Panicked(what)),
            };
            match try_apply(&self.ctx, h, dir_of(*fwd), &mut data) {
                Err(p) => return Ok(RefOut::Panicked(format!("applying stand-alone '{def}': {} at {}:{}", p.msg, p.file, p.line))),
                Ok(Err(e)) => vfail!("harness-standalone-apply-error", "apply of stand-alone '{def}' returned {e:?}"),
                Ok(Ok(c)) => count = count.min(c),
            }
        }
        if count == usize::MAX {
            count = probes.len();
        }
        Ok(RefOut::Done(data, count))
    }
}

impl Exec {
    /// Sum over chunks of the minimum count over the steps (all steps of the trace must be cached already).
    fn run_chunked(&mut self, trace: &Trace, probes: &[P4], chunk: usize) -> Option<usize> {
        let mut data = c4s(probes);
        let mut total = 0;
        let mut a = 0;
        while a < data.len() {
            let b = (a + chunk).min(data.len());
            let mut m = usize::MAX;
            for (def, fwd) in trace {
                let h = *self.cache.get(def)?;
                let mut sl: &mut [Coor4D] = &mut data[a..b];
                match try_apply(&self.ctx, h, dir_of(*fwd), &mut sl) {
                    Ok(Ok(c)) => m = m.min(c),
                    _ => return None,
                }
            }
            total += if m == usize::MAX { b - a } else { m };
            a = b;
        }
        Some(total)
    }
}

fn describe(case: &Case, texts: &Texts) -> String {
    let mut s = String::new();
    for (i, m) in case.macros.iter().enumerate() {
        s.push_str(&format!("  macro {} = {:?}\n", m.name, texts.macros[i]));
    }
    s.push_str(&format!("  definition = {:?}\n", texts.main));
    s
}

fn fmt_trace(t: &Trace) -> String {
    let mut v: Vec<String> = t.iter().take(16).map(|(d, f)| format!("{}[{}]", d, if *f { "Fwd" } else { "Inv" })).collect();
    if t.len() > 16 {
        v.push(format!("… ({} steps)", t.len()));
    }
    if v.is_empty() {
        "(nothing executed)".into()
    } else {
        v.join(" ; ")
    }
}

fn sp_name(sp: Sp) -> &'static str {
    match sp {
        Sp::Prefix => "prefix",
        Sp::Infix => "infix",
        Sp::Suffix => "suffix",
        Sp::InfixTrue => "infix=true",
        Sp::SuffixTrue => "suffix=true",
        Sp::Sugar => "sugar",
    }
}

fn record_classes(case: &Case, reach: &BTreeSet<usize>, rec: &mut Rec) -> bool {
    let mut any_mod = false;
    let (_, tainted) = macro_flags(&case.macros);
    let mut bodies: Vec<(&Body, &str)> = vec![(&case.main, "main")];
    for m in reach {
        bodies.push((&case.macros[*m].body, "body"));
    }
    for (b, place) in bodies {
        if place == "body" {
            rec.class(if b.piped {
                "macro-body=pipeline"
            } else if matches!(b.steps[0].target, Target::Macro(_)) {
                "macro-body=alias"
            } else {
                "macro-body=single-operator"
            });
        }
        for (i, s) in b.steps.iter().enumerate() {
            let kind = if matches!(s.target, Target::Macro(_)) { "macro" } else { "elem" };
            let pos = if !b.piped {
                "single"
            } else if i + 1 == b.steps.len() {
                "last"
            } else if i == 0 {
                "first"
            } else {
                "mid"
            };
            for (m, sp) in [("inv", s.inv), ("omit_fwd", s.omit_fwd), ("omit_inv", s.omit_inv)] {
                if let Some(sp) = sp {
                    any_mod = true;
                    rec.class(&format!("{place}:{kind}:{m}:{}", sp_name(sp)));
                    rec.class(&format!("{place}:{m}@{pos}"));
                }
            }
            if let Target::Elem { name, .. } = &s.target {
                rec.class(&format!("op={name}"));
            }
            let ow = match &s.target {
                Target::Elem { name, .. } => one_way(name),
                Target::Macro(j) => tainted[*j],
            };
            if ow && b.piped {
                let marks = match (s.omit_fwd.is_some(), s.omit_inv.is_some()) {
                    (false, false) => "plain",
                    (false, true) => "omit_inv",
                    (true, false) => "omit_fwd",
                    (true, true) => "omit_both",
                };
                rec.class(&format!("one-way:{place}:{kind}:{marks}{}", if s.inv.is_some() { "+inv" } else { "" }));
            }
        }
    }
    any_mod
}

fn check(case: &Case, known: &BTreeSet<String>, rec: &mut Rec) -> CaseResult {
    let texts = render_case(case);
    let reach = reachable(case);
    let mut ex = Exec { ctx: Minimal::new(), cache: BTreeMap::new() };
    for (i, m) in case.macros.iter().enumerate() {
        ex.ctx.register_resource(&m.name, &texts.macros[i]);
    }
    for e in &case.excluded {
        rec.count(&format!("excluded_known:{e}"), 1);
    }

    // --- the library
    let op = match try_op(&mut ex.ctx, &texts.main) {
        Err(p) => vfail!(format!("panic-instantiate@{}", p.sig()), "instantiation panics: {} at {}:{}\n{}", p.msg, p.file, p.line, describe(case, &texts)),
        Ok(Err(e)) => {
            let et = format!("{e:?}");
            let mut d4 = case.main.piped && d4_rejects(&texts.main);
            for m in &reach {
                d4 |= case.macros[*m].body.piped && d4_rejects(&texts.macros[*m]);
            }
            let key = if d4 && et.starts_with("BadParam(\"inv\"") { K_D4 } else { K_REJECT };
            vfail!(key, "a well-formed definition (every step instantiates on its own) is rejected: {et}\n{}", describe(case, &texts));
        }
        Ok(Ok(op)) => op,
    };

    let probes = probes_of(case);
    let n = probes.len();
    let mut lib: Vec<Option<(Vec<Coor4D>, usize)>> = vec![];
    let mut lib_panic: Vec<Option<String>> = vec![];
    for fwd in [true, false] {
        let mut data = c4s(&probes);
        match try_apply(&ex.ctx, op, dir_of(fwd), &mut data) {
            Err(p) => {
                lib.push(None);
                lib_panic.push(Some(format!("{} at {}:{} [{}]", p.msg, p.file, p.line, p.sig())));
            }
            Ok(Err(e)) => vfail!("apply-error", "apply ({:?}) returned an error: {e:?}\n{}", dir_of(fwd), describe(case, &texts)),
            Ok(Ok(c)) => {
                lib.push(Some((data, c)));
                lib_panic.push(None);
            }
        }
    }

    // --- the reference
    let traces = [plan(case, &texts, Q::NONE, true), plan(case, &texts, Q::NONE, false)];
    let mut refs: Vec<(Vec<Coor4D>, usize)> = vec![];
    for (k, t) in traces.iter().enumerate() {
        match ex.run(t, &probes)? {
            RefOut::Done(d, c) => {
                if let Some(p) = &lib_panic[k] {
                    vfail!("panic-apply-pipeline-only", "the pipeline panics ({p}) where the sequence of stand-alone steps does not\n{}", describe(case, &texts));
                }
                refs.push((d, c));
            }
            RefOut::Panicked(what) => {
                // a step that panics on its own is not a composition matter (C09)
                rec.class("standalone-step-panics");
                rec.count("skipped_standalone_panic", 1);
                let _ = what;
                return Ok(());
            }
        }
    }

    let same = |a: &(Vec<Coor4D>, usize), b: &(Vec<Coor4D>, usize)| vec_bits_eq(&a.0, &b.0) && a.1 == b.1;
    let libv: Vec<&(Vec<Coor4D>, usize)> = lib.iter().map(|x| x.as_ref().unwrap()).collect();
    let ok = same(libv[0], &refs[0]) && same(libv[1], &refs[1]);

    if !ok {
        // classify: does one of the defect models reproduce the library exactly (both directions)?
        let mut explained: Option<Q> = None;
        let mut subsets: Vec<Q> = vec![];
        for bits in 1u8..8 {
            subsets.push(Q { d1: bits & 1 != 0, d3b: bits & 2 != 0, d3a: bits & 4 != 0 });
        }
        subsets.sort_by_key(|q| q.names().len());
        for q in subsets {
            let t = [plan(case, &texts, q, true), plan(case, &texts, q, false)];
            if t[0] == traces[0] && t[1] == traces[1] {
                continue;
            }
            let mut all = true;
            for k in 0..2 {
                match ex.run(&t[k], &probes)? {
                    RefOut::Done(d, c) => all &= same(libv[k], &(d, c)),
                    RefOut::Panicked(_) => all = false,
                }
            }
            if all {
                explained = Some(q);
                break;
            }
        }
        let k = if same(libv[0], &refs[0]) { 1 } else { 0 };
        let fwd = k == 0;
        let (ld, lc) = libv[k];
        let (rd, rc) = &refs[k];
        let what = match first_bits_diff(ld, rd) {
            Some(i) => format!(
                "tuple {i}: input {}  library {}  sequential stand-alone steps {}  (bitwise comparison, tolerance 0)",
                fmt_c4(&c4(&probes[i])),
                fmt_c4(&ld[i]),
                fmt_c4(&rd[i])
            ),
            None => format!("values agree, count: library {lc}, min over executed stand-alone steps {rc} (set size {n})"),
        };
        let key = match explained {
            Some(q) => {
                let names = q.names();
                names.iter().find(|k| !known.contains(**k)).unwrap_or(&names[0]).to_string()
            }
            None => {
                if first_bits_diff(ld, rd).is_some() {
                    K_VALUES.to_string()
                } else {
                    K_COUNT.to_string()
                }
            }
        };
        let expl = match explained {
            Some(q) => format!("the library behaves exactly like the reference with defect model(s) {:?} switched on", q.names()),
            None => "no known defect model reproduces the library's result".to_string(),
        };
        vfail!(
            key,
            "{:?} application differs from the sequential application of the steps\n{}  {what}\n  reference executes: {}\n  {expl}",
            dir_of(fwd),
            describe(case, &texts),
            fmt_trace(&traces[k])
        );
    }

    // --- bookkeeping
    let any_mod = record_classes(case, &reach, rec);
    // (the long-pipeline sections report their lengths in classes of their own)
    let ns = case.main.steps.len();
    rec.class(&if ns <= 12 { format!("steps={ns}") } else { format!("steps={}", len_label(ns)) });
    rec.class(&format!("depth={}", depth(case, &case.main)));
    rec.class(if case.main.piped { "main=pipeline" } else { "main=single" });
    if case.bulk.is_none() {
        rec.class(&format!("probes={n}"));
    }
    for k in 0..2 {
        if traces[k].is_empty() {
            rec.class("nothing-executed-in-one-direction");
        }
        if refs[k].1 < n {
            rec.class("count<n");
        }
    }
    let mut chunk_sensitive = false;
    if case.bulk.is_some() {
        // would "sum over 1024-chunks of the minimum over the steps" differ from "minimum over the steps"?
        for k in 0..2 {
            if let Some(c) = ex.run_chunked(&traces[k], &probes, 1024) {
                if c != refs[k].1 {
                    chunk_sensitive = true;
                }
            }
        }
        rec.class(if chunk_sensitive { "count-depends-on-whole-set(min-of-sums != sum-of-chunk-minima)" } else { "count-insensitive-to-chunking" });
        rec.class(&format!("set-size>{}", (n.saturating_sub(1)) / 1024 * 1024));
    }
    rec.metric("max_executed_steps", traces[0].len().max(traces[1].len()) as f64);
    rec.count("standalone_applications", (traces[0].len() + traces[1].len()) as u64);
    if (case.bulk.is_none() || chunk_sensitive) && any_mod && (traces[0].len() >= 2 || traces[1].len() >= 2) && n > 0 {
        let mut fp = vec![canonical_body(&case.main, &case.macros)];
        for m in &reach {
            fp.push(format!("{}={}", case.macros[*m].name, canonical_body(&case.macros[*m].body, &case.macros)));
        }
        rec.nontrivial(&fp);
    }
    Ok(())
}

// ---- elementary operator catalogue ----------------------------------------------------------------

const ORDERS: [&str; 9] = ["2,1", "1,2", "2,1,3,4", "-1,2", "3,1,2", "2,-1,4,3", "4,3,2,1", "-2,-1,-3", "1,2,3,4"];
const UNITS: [&str; 11] = ["m", "km", "ft", "us-ft", "cm", "mm", "yd", "in", "deg", "rad", "grad"];
const DESCS: [&str; 8] = ["neuf_deg", "enuf_rad", "enuf_deg", "neuf", "wsdp", "nwuf_gon", "pass", "uenf"];
const ELLPS: [&str; 5] = ["intl", "bessel", "WGS84", "GRS80", "6378137,298.25"];
const NOOPS: [&str; 4] = ["noop", "longlat", "latlon", "lonlat"];
const LATS: [&str; 6] = ["geocentric", "reduced", "parametric", "conformal", "authalic", "rectifying"];

fn kv(k: &str, v: impl ToString) -> Param {
    (k.to_string(), Some(v.to_string()))
}
fn fl(k: &str) -> Param {
    (k.to_string(), None)
}
fn small(u: u16) -> i32 {
    let v = pick(u, 19) as i32 - 9;
    if v == 0 {
        1
    } else {
        v
    }
}

fn elem(sel: u16, a: u16, b: u16, c: u16) -> (String, Vec<Param>) {
    let (name, params): (&str, Vec<Param>) = match pick(sel, 20) {
        0..=3 => ("addone", vec![]),
        4..=6 => {
            let mut p = vec![kv("x", small(a))];
            if b & 1 == 1 {
                p.push(kv("y", small(b)));
            }
            if c & 1 == 1 {
                p.push(kv("z", small(c)));
            }
            ("helmert", p)
        }
        7 => {
            let mut p = vec![kv("x", small(a)), kv("y", small(b)), kv("z", small(c))];
            p.push(kv("s", format!("{:.1}", pick(b, 200) as f64 / 10.0 - 10.0)));
            p.push(kv("rx", format!("{:.2}", pick(c, 200) as f64 / 100.0 - 1.0)));
            p.push(kv("rz", format!("{:.2}", pick(a, 200) as f64 / 100.0 - 1.0)));
            p.push(kv("convention", if a & 1 == 1 { "position_vector" } else { "coordinate_frame" }));
            if b & 2 == 2 {
                p.push(fl("exact"));
            }
            ("helmert", p)
        }
        8 | 9 => ("axisswap", vec![kv("order", ORDERS[pick(a, ORDERS.len())])]),
        10 => {
            let mut p = vec![kv("xy_in", UNITS[pick(a, UNITS.len())]), kv("xy_out", UNITS[pick(b, UNITS.len())])];
            if c & 1 == 1 {
                p.push(kv("z_in", UNITS[pick(c, 8)]));
                p.push(kv("z_out", UNITS[pick(a ^ c, 8)]));
            }
            ("unitconvert", p)
        }
        11 => {
            let mut p = vec![kv("from", DESCS[pick(a, DESCS.len())])];
            if c & 1 == 1 {
                p.push(kv("to", DESCS[pick(b, DESCS.len())]));
            }
            ("adapt", p)
        }
        12 => (NOOPS[pick(a, NOOPS.len())], vec![]),
        13 => {
            let mut p = vec![kv("zone", 1 + pick(a, 60))];
            if b & 1 == 1 {
                p.push(fl("south"));
            }
            ("utm", p)
        }
        14 => ("tmerc", vec![kv("lon_0", small(a)), kv("lat_0", small(b) * 5), kv("k_0", "0.9996"), kv("x_0", 500000)]),
        15 | 16 => {
            let mut p = vec![];
            if a & 1 == 1 {
                p.push(kv("ellps", ELLPS[pick(b, ELLPS.len())]));
            }
            ("cart", p)
        }
        17 => {
            if a & 1 == 1 {
                ("webmerc", vec![])
            } else {
                let mut p = vec![];
                if b & 1 == 1 {
                    p.push(kv("lat_ts", small(b) * 6));
                }
                if c & 1 == 1 {
                    p.push(kv("ellps", ELLPS[pick(c, ELLPS.len())]));
                }
                ("merc", p)
            }
        }
        18 => {
            let mut p = vec![fl(LATS[pick(a, LATS.len())])];
            if b & 1 == 1 {
                p.push(kv("ellps", ELLPS[pick(c, ELLPS.len())]));
            }
            ("latitude", p)
        }
        _ => ("helmert", vec![kv("translation", format!("{},{},{}", small(a), small(b), small(c)))]),
    };
    (name.to_string(), params)
}

// ---- generator ---------------------------------------------------------------------------------

// ---- operators without an inverse -------------------------------------------------------------------
//
// `gravity` and `curvature` have no inverse: applied stand-alone in the inverse direction they leave
// the data alone and report 0 (the library's placeholder). That is what the reference does too,
// because it applies the stand-alone operator through ctx.apply. They never carry `inv`, and a macro
// is invoked with `inv` only if every such operator below it is shielded by an omit_inv (on the step
// itself or on an enclosing macro step inside that macro): `inv` on anything else is documented to be
// refused (Error::NonInvertible) or is at least not promised to work ("a pipeline can be inverted as
// long as each of its steps can").

const GRAV: [&str; 5] = ["grs80", "grs67", "welmec", "jeffreys", "cassinis"];
const CURV: [&str; 4] = ["prime", "meridian", "gaussian", "mean"];

fn one_way(name: &str) -> bool {
    name == "gravity" || name == "curvature"
}

fn one_way_elem(a: u16, b: u16, c: u16) -> (String, Vec<Param>) {
    if a & 1 == 1 {
        let mut p = vec![fl(GRAV[pick(b, GRAV.len())])];
        if c & 1 == 1 {
            p.push(fl("zero-height"));
        }
        if c & 2 == 2 {
            p.push(kv("ellps", ELLPS[pick(c, 4)]));
        }
        ("gravity".to_string(), p)
    } else {
        let mut p = vec![fl(CURV[pick(b, CURV.len())])];
        if c & 1 == 1 {
            p.push(kv("ellps", ELLPS[pick(c, 4)]));
        }
        ("curvature".to_string(), p)
    }
}

/// shielded[m]: every one-way operator below macro m sits under an omit_inv inside m
fn shielded_body(b: &Body, shielded: &[bool]) -> bool {
    b.steps.iter().all(|s| {
        s.omit_inv.is_some()
            || match &s.target {
                Target::Elem { name, .. } => !one_way(name),
                Target::Macro(j) => shielded[*j],
            }
    })
}
/// tainted[m]: some one-way operator below macro m
fn tainted_body(b: &Body, tainted: &[bool]) -> bool {
    b.steps.iter().any(|s| match &s.target {
        Target::Elem { name, .. } => one_way(name),
        Target::Macro(j) => tainted[*j],
    })
}
fn macro_flags(macros: &[MacroDef]) -> (Vec<bool>, Vec<bool>) {
    let mut sh: Vec<bool> = vec![];
    let mut ta: Vec<bool> = vec![];
    for m in macros {
        let (a, b) = (shielded_body(&m.body, &sh), tainted_body(&m.body, &ta));
        sh.push(a);
        ta.push(b);
    }
    (sh, ta)
}
/// No `inv` on a one-way operator nor on a macro that is not shielded (macros only use earlier macros).
fn strip_unsound_inv(case: &mut Case) {
    let mut sh: Vec<bool> = vec![];
    let fix = |b: &mut Body, sh: &[bool]| {
        for s in b.steps.iter_mut() {
            let ok = match &s.target {
                Target::Elem { name, .. } => !one_way(name),
                Target::Macro(j) => sh[*j],
            };
            if !ok {
                s.inv = None;
            }
        }
    };
    for i in 0..case.macros.len() {
        fix(&mut case.macros[i].body, &sh);
        let v = shielded_body(&case.macros[i].body, &sh);
        sh.push(v);
    }
    fix(&mut case.main, &sh);
}

/// macro names: the ':' makes them resource names; some contain modifier words on purpose
const NAMES: [&str; 6] = ["m:a", "lib:b", "x:inv", "inv:c", "omit_fwd:d", "geo:e"];

#[derive(Clone, Debug)]
struct RawStep {
    is_macro: bool,
    sel: u16,
    a: u16,
    b: u16,
    c: u16,
    inv: Option<u8>,
    of: Option<u8>,
    oi: Option<u8>,
    lay: u32,
    ow: u8, // < 20: an operator without an inverse (gravity, curvature); also biases omit_inv on one-way steps
}

fn lay() -> impl Strategy<Value = u32> {
    prop_oneof![2 => Just(0u32), 3 => any::<u32>()]
}

fn raw_step(macro_weight: f64) -> impl Strategy<Value = RawStep> {
    (
        prop::bool::weighted(macro_weight),
        any::<u16>(),
        any::<u16>(),
        any::<u16>(),
        any::<u16>(),
        prop::option::weighted(0.40, 0u8..5),
        prop::option::weighted(0.17, 0u8..6),
        prop::option::weighted(0.17, 0u8..6),
        lay(),
        any::<u8>(),
    )
        .prop_map(|(is_macro, sel, a, b, c, inv, of, oi, lay, ow)| RawStep { is_macro, sel, a, b, c, inv, of, oi, lay, ow })
}

#[derive(Clone, Debug)]
struct RawBody {
    kind: u8,
    steps: Vec<RawStep>,
    lay: u32,
    spicy: bool,
}

fn raw_body(max: usize, macro_weight: f64) -> impl Strategy<Value = RawBody> {
    (0u8..12, prop::collection::vec(raw_step(macro_weight), 1..=max), lay(), prop::bool::weighted(0.3)).prop_map(|(kind, steps, lay, spicy)| RawBody { kind, steps, lay, spicy })
}

fn probe() -> impl Strategy<Value = P4> {
    prop_oneof![
        4 => geo_rad(89.0, 179.0),
        2 => (2.0e5f64..8.0e5, 0.0f64..9.0e6, -100.0f64..5000.0, Just(2020.5f64)).prop_map(|(x, y, z, t)| p4(x, y, z, t)),
        2 => (-6.4e6f64..6.4e6, -6.4e6f64..6.4e6, -6.4e6f64..6.4e6, 1990.0f64..2030.0).prop_map(|(x, y, z, t)| p4(x, y, z, t)),
        2 => (-50i32..50, -50i32..50, -50i32..50, -5i32..5).prop_map(|(x, y, z, t)| p4(x as f64, y as f64, z as f64, t as f64)),
        1 => (0usize..4, -3.0f64..3.0).prop_map(|(i, v)| { let mut p = [v, v / 2.0, 10.0, 0.0]; p[i] = f64::NAN; p4(p[0], p[1], p[2], p[3]) }),
        1 => (0usize..3, prop_oneof![Just(f64::INFINITY), Just(1.0e300), Just(-1.0e12), Just(-0.0)]).prop_map(|(i, v)| { let mut p = [0.1, 0.9, 10.0, 0.0]; p[i] = v; p4(p[0], p[1], p[2], p[3]) }),
    ]
}

const INV_SP: [Sp; 5] = [Sp::Suffix, Sp::Infix, Sp::Prefix, Sp::SuffixTrue, Sp::InfixTrue];
const OMIT_SP: [Sp; 6] = [Sp::Sugar, Sp::Prefix, Sp::Suffix, Sp::Infix, Sp::SuffixTrue, Sp::InfixTrue];

fn build_step(rs: &RawStep, candidates: &[usize], tainted: &[bool], omits: bool, bulk: bool) -> Step {
    let target = if rs.is_macro && !candidates.is_empty() {
        Target::Macro(candidates[pick(rs.sel, candidates.len())])
    } else if bulk && rs.ow >= 100 {
        // large sets: prefer operators that refuse single tuples (and do not count them)
        let (name, params) = match rs.a % 4 {
            0 => ("cart", if rs.b & 1 == 1 { vec![kv("ellps", ELLPS[pick(rs.c, 4)])] } else { vec![] }),
            1 => ("utm", vec![kv("zone", 32)]),
            2 => ("utm", vec![kv("zone", 1 + pick(rs.b, 60))]),
            _ => ("tmerc", vec![kv("lon_0", small(rs.b)), kv("k_0", "0.9996"), kv("x_0", 500000)]),
        };
        Target::Elem { name: name.to_string(), params }
    } else if rs.ow < 20 && !bulk {
        let (name, params) = one_way_elem(rs.a, rs.b, rs.c);
        Target::Elem { name, params }
    } else {
        let (name, params) = elem(rs.sel, rs.a, rs.b, rs.c);
        Target::Elem { name, params }
    };
    let mut omit_inv = if omits { rs.oi.map(|i| OMIT_SP[i as usize % 6]) } else { None };
    // the realistic use of a step without an inverse is "forward only": about half of the one-way
    // steps (elementary, or macro invocations with such an operator below) are marked omit_inv / `>`
    let one_way_step = match &target {
        Target::Elem { name, .. } => one_way(name),
        Target::Macro(j) => tainted[*j],
    };
    if omits && one_way_step && omit_inv.is_none() && rs.ow % 2 == 0 {
        omit_inv = Some(OMIT_SP[(rs.ow as usize / 2) % 6]);
    }
    Step {
        target,
        inv: rs.inv.map(|i| INV_SP[i as usize % 5]),
        omit_fwd: if omits { rs.of.map(|i| OMIT_SP[i as usize % 6]) } else { None },
        omit_inv,
        lay: rs.lay,
    }
}

#[derive(Clone, Copy, Debug, Default)]
struct Known {
    d1: bool,
    d3a: bool,
    d3b: bool,
    d4: bool,
}

fn build(macros: &[RawBody], main: &RawBody, probes: Vec<P4>, nprobes: u8, kn: Known, bulk: Option<Bulk>) -> Case {
    let mut defs: Vec<MacroDef> = vec![];
    let mut level: Vec<usize> = vec![];
    let mut tainted: Vec<bool> = vec![];
    for (i, rb) in macros.iter().enumerate().take(NAMES.len()) {
        // a macro may only use earlier macros (no recursion) whose nesting level is < 3
        let cand: Vec<usize> = (0..i).filter(|j| level[*j] < 3).collect();
        let piped = rb.kind >= 3;
        let steps: Vec<Step> = if piped { rb.steps.iter().map(|rs| build_step(rs, &cand, &tainted, true, bulk.is_some())).collect() } else { vec![build_step(&rb.steps[0], &cand, &tainted, false, bulk.is_some())] };
        let lv = 1 + steps.iter().map(|s| if let Target::Macro(m) = s.target { level[m] } else { 0 }).max().unwrap_or(0);
        level.push(lv);
        let body = Body { steps, piped, lay: rb.lay, spicy: rb.spicy };
        let t = tainted_body(&body, &tainted);
        tainted.push(t);
        defs.push(MacroDef { name: NAMES[i].to_string(), body });
    }
    let cand: Vec<usize> = (0..defs.len()).collect();
    let piped = main.kind >= 1;
    let steps: Vec<Step> = if piped { main.steps.iter().map(|rs| build_step(rs, &cand, &tainted, true, bulk.is_some())).collect() } else { vec![build_step(&main.steps[0], &cand, &tainted, false, bulk.is_some())] };
    let mut probes = probes;
    // ~4% empty sets, otherwise 1..8 tuples
    probes.truncate(if nprobes < 10 { 0 } else { 1 + pick(((nprobes - 10) as u16) << 8, 8) });
    let mut case = Case { macros: defs, main: Body { steps, piped, lay: main.lay, spicy: main.spicy }, probes: if bulk.is_some() { vec![] } else { probes }, excluded: vec![], bulk };
    strip_unsound_inv(&mut case);
    sanitize(&mut case, kn);
    // the repairs above may remove an omit_inv that shielded a one-way operator
    strip_unsound_inv(&mut case);
    case
}

/// plain layout, no omit_* on or inside macros, `inv` only as the bare word after the name
fn strip_plain(b: &mut Body, inside_macro: bool) {
    b.lay = 0;
    b.spicy = false;
    for s in b.steps.iter_mut() {
        s.lay = 0;
        if inside_macro || matches!(s.target, Target::Macro(_)) {
            s.omit_fwd = None;
            s.omit_inv = None;
        }
        if s.inv.is_some() {
            s.inv = Some(Sp::Suffix);
        }
    }
}

/// Remove the classes listed as known findings by construction (and say so in `case.excluded`).
fn sanitize(case: &mut Case, kn: Known) {
    let mut excluded: BTreeSet<&'static str> = BTreeSet::new();
    let nm = case.macros.len();
    // The repairs interact through the texts (a later duplicate key overrides an earlier one in the
    // library's tokenizer), so they are repeated until the verification below succeeds.
    let q = Q { d1: kn.d1, d3a: kn.d3a, d3b: kn.d3b };
    if q == Q::NONE && !kn.d4 {
        return;
    }
    let mut still = false;
    for _round in 0..4 {
        // K_D1: `inv` of a macro invocation only as the bare word after the name, single blanks where the text is used raw
        if kn.d1 {
            let fix = |b: &mut Body, excluded: &mut BTreeSet<&'static str>| {
                for s in b.steps.iter_mut() {
                    if matches!(s.target, Target::Macro(_)) {
                        if let Some(sp) = s.inv {
                            if !matches!(sp, Sp::Infix | Sp::Suffix) {
                                s.inv = Some(Sp::Suffix);
                                excluded.insert(K_D1);
                            }
                            if !b.piped && (b.lay != 0 || s.lay != 0) {
                                b.lay = 0;
                                s.lay = 0;
                                excluded.insert(K_D1);
                            }
                        }
                    }
                }
            };
            for i in 0..nm {
                let mut b = case.macros[i].body.clone();
                fix(&mut b, &mut excluded);
                case.macros[i].body = b;
            }
            let mut b = case.main.clone();
            fix(&mut b, &mut excluded);
            case.main = b;
        }
        // K_D3A: no omit_* on a macro invocation below which a pipeline is reached with the directions exchanged
        if kn.d3a {
            fn bad(case: &Case, m: usize, parity: bool) -> bool {
                let b = &case.macros[m].body;
                if b.piped && parity {
                    return true;
                }
                b.steps.iter().any(|s| if let Target::Macro(j) = s.target { bad(case, j, parity ^ s.inv.is_some()) } else { false })
            }
            let snapshot = case.clone();
            let fix = |b: &mut Body, excluded: &mut BTreeSet<&'static str>| {
                for s in b.steps.iter_mut() {
                    if let Target::Macro(m) = s.target {
                        if (s.omit_fwd.is_some() || s.omit_inv.is_some()) && bad(&snapshot, m, s.inv.is_some()) {
                            s.omit_fwd = None;
                            s.omit_inv = None;
                            excluded.insert(K_D3A);
                        }
                    }
                }
            };
            for i in 0..nm {
                fix(&mut case.macros[i].body, &mut excluded);
            }
            fix(&mut case.main, &mut excluded);
        }
        // K_D3B: in macro bodies that are pipelines no omit_* word may stand alone as a token of the body text
        if kn.d3b {
            for i in 0..nm {
                if !case.macros[i].body.piped {
                    continue;
                }
                case.macros[i].body.spicy = false;
                let text = render_body(&case.macros[i].body, &case.macros);
                let lk = leaks(&text);
                if lk.0 || lk.1 {
                    excluded.insert(K_D3B);
                    for s in case.macros[i].body.steps.iter_mut() {
                        match (s.omit_fwd.is_some(), s.omit_inv.is_some()) {
                            (true, true) => {
                                s.omit_fwd = Some(Sp::Sugar);
                                s.omit_inv = None;
                            }
                            (true, false) => s.omit_fwd = Some(Sp::Sugar),
                            (false, true) => s.omit_inv = Some(Sp::Sugar),
                            _ => {}
                        }
                    }
                }
            }
        }
        // K_D4: no `inv=true` glued to a following delimiter
        if kn.d4 {
            let fix = |b: &mut Body, macros: &[MacroDef], excluded: &mut BTreeSet<&'static str>| {
                if b.piped && d4_rejects(&render_body(b, macros)) {
                    excluded.insert(K_D4);
                    for s in b.steps.iter_mut() {
                        s.inv = match s.inv {
                            Some(Sp::InfixTrue) => Some(Sp::Infix),
                            Some(Sp::SuffixTrue) => Some(Sp::Suffix),
                            o => o,
                        };
                    }
                }
            };
            for i in 0..nm {
                let mut b = case.macros[i].body.clone();
                fix(&mut b, &case.macros, &mut excluded);
                case.macros[i].body = b;
            }
            let mut b = case.main.clone();
            fix(&mut b, &case.macros, &mut excluded);
            case.main = b;
        }
        // Verify: with the known defect models switched on the plan must be the documented one
        let texts = render_case(case);
        still = kn.d4 && (case.main.piped && d4_rejects(&texts.main) || reachable(case).iter().any(|m| case.macros[*m].body.piped && d4_rejects(&texts.macros[*m])));
        for fwd in [true, false] {
            still |= plan(case, &texts, q, fwd) != plan(case, &texts, Q::NONE, fwd);
        }
        if !still {
            break;
        }
    }
    {
        if still {
            // last resort: plain layout, no omit_* on or inside macros, no =true spellings
            excluded.insert("fallback");
            let strip = strip_plain;
            for i in 0..nm {
                strip(&mut case.macros[i].body, true);
            }
            strip(&mut case.main, false);
        }
    }
    case.excluded = excluded.into_iter().map(|s| s.to_string()).collect();
}

fn random_case(kn: Known, max_main: usize, max_body: usize, macro_weight: f64) -> impl Strategy<Value = Case> {
    (
        prop::collection::vec(raw_body(max_body, macro_weight), 0..=NAMES.len()),
        raw_body(max_main, macro_weight),
        prop::collection::vec(probe(), 8),
        any::<u8>(),
    )
        .prop_map(move |(macros, main, probes, np)| build(&macros, &main, probes, np, kn, None))
}

const BULK_SIZES: [usize; 14] = [1025, 1026, 2047, 2048, 2049, 3071, 3072, 3073, 4095, 4096, 4097, 5000, 1024, 1023];

/// Definitions as in `random_case`, but short, rich in operators that refuse single tuples, and applied to
/// a set of 1023..5000 tuples with 2..6 fault tuples spread over the thirds of the set.
fn bulk_case(kn: Known) -> impl Strategy<Value = Case> {
    (
        prop::collection::vec(raw_body(3, 0.3), 0..=3),
        raw_body(4, 0.3),
        any::<u16>(),
        any::<u8>(),
        prop::collection::vec((any::<u16>(), any::<u8>()), 2..=6),
    )
        .prop_map(move |(macros, mut main, size, base, faults)| {
            let n = if size % 3 == 0 { 1025 + pick(size, 3976) } else { BULK_SIZES[pick(size, BULK_SIZES.len())] };
            if main.kind == 0 {
                main.kind = 1; // always a pipeline
            }
            let (mut base, mut faults) = (base, faults);
            if base & 4 != 0 {
                // half of the cases: geographic input, first step `cart`, last step `utm zone=32 inv`, passers in
                // between; one fault tuple is refused by cart (inf), another one only by the inverse utm (h = 1e25)
                base = 0;
                if main.steps.len() < 2 {
                    let c = main.steps[0].clone();
                    main.steps.push(c);
                }
                let last = main.steps.len() - 1;
                for (i, st) in main.steps.iter_mut().enumerate() {
                    if i == 0 || i == last {
                        st.is_macro = false;
                        st.ow = 200;
                        st.a = if i == 0 { 0 } else { 1 };
                        st.b = 0;
                        st.inv = if i == 0 { None } else { Some(0) };
                        st.of = None;
                        st.oi = None;
                    } else {
                        st.ow = 50;
                    }
                }
                faults[0].1 = 1;
                faults[1].1 = 2;
            }
            build(&macros, &main, vec![], 255, kn, Some(Bulk { n, base, faults }))
        })
}

// ---- exhaustive spelling matrix ---------------------------------------------------------------------

fn el(name: &str, params: Vec<Param>) -> Target {
    Target::Elem { name: name.to_string(), params }
}
fn plain(target: Target) -> Step {
    Step { target, inv: None, omit_fwd: None, omit_inv: None, lay: 0 }
}

const N_CTX: usize = 8;
const N_KIND: usize = 6;
const N_COMBO: usize = 6 * 7 * 7;
const N_LAYOUT: usize = 2;

fn matrix_case(i: usize) -> Case {
    let combo = i % N_COMBO;
    let kind = (i / N_COMBO) % N_KIND;
    let ctxk = (i / N_COMBO / N_KIND) % N_CTX;
    let layout = i / N_COMBO / N_KIND / N_CTX;
    let lay = if layout == 0 { 0 } else { 0x5eed_0000 ^ (i as u32).wrapping_mul(2654435761) | 1 };
    let (ci, cf, co) = (combo % 6, (combo / 6) % 7, combo / 42);
    let focus_target = match kind {
        0 => el("addone", vec![]),
        1 => el("cart", vec![kv("ellps", "intl")]),
        2 => Target::Macro(0),
        3 => Target::Macro(1),
        4 => Target::Macro(2),
        _ => el("latitude", vec![fl("geocentric"), kv("ellps", "bessel")]),
    };
    let focus = Step {
        target: focus_target,
        inv: if ci == 0 { None } else { Some(INV_SP[ci - 1]) },
        omit_fwd: if cf == 0 { None } else { Some(OMIT_SP[cf - 1]) },
        omit_inv: if co == 0 { None } else { Some(OMIT_SP[co - 1]) },
        lay,
    };
    let mut s_one = plain(el("addone", vec![]));
    s_one.inv = Some(Sp::Suffix);
    let mut p2c = plain(el("addone", vec![]));
    p2c.omit_inv = Some(Sp::Sugar);
    let mut p3b = plain(Target::Macro(1));
    p3b.inv = Some(Sp::Suffix);
    let mut p3c = plain(el("helmert", vec![kv("y", 4)]));
    p3c.omit_fwd = Some(Sp::Sugar);
    let hy = plain(el("helmert", vec![kv("y", 1)]));
    let hz = plain(el("helmert", vec![kv("z", 3)]));
    let q_steps = match ctxk {
        5 => vec![focus.clone(), hz],
        6 => vec![hy, focus.clone()],
        _ => vec![hy, focus.clone(), hz],
    };
    let body = |steps: Vec<Step>, piped: bool| Body { steps, piped, lay, spicy: false };
    let macros = vec![
        MacroDef { name: "s:one".into(), body: body(vec![s_one], false) },
        MacroDef { name: "p:two".into(), body: body(vec![plain(el("helmert", vec![kv("x", 10)])), plain(el("axisswap", vec![kv("order", "2,1")])), p2c], true) },
        MacroDef { name: "p:three".into(), body: body(vec![plain(el("addone", vec![])), p3b, p3c], true) },
        MacroDef { name: "q:focus".into(), body: body(q_steps, true) },
    ];
    let a1 = plain(el("addone", vec![]));
    let mut q_inv = plain(Target::Macro(3));
    q_inv.inv = Some(Sp::Suffix);
    let main_steps = match ctxk {
        0 => vec![focus],
        1 => vec![a1, focus, plain(el("helmert", vec![kv("x", 2)]))],
        2 => vec![focus, a1],
        3 => vec![a1, focus],
        4 | 5 | 6 => vec![a1.clone(), plain(Target::Macro(3)), a1],
        _ => vec![a1, q_inv, plain(el("cart", vec![]))],
    };
    Case {
        macros,
        main: body(main_steps, true),
        probes: vec![p4(0.2, 0.9, 30.0, 2020.0), p4(f64::NAN, 1.0, 2.0, 3.0), p4(12.0, 55.0, 100.0, 0.0)],
        excluded: vec![],
        bulk: None,
    }
}

// ---- exhaustive matrix for steps without an inverse ------------------------------------------------

const OW_KIND: usize = 6;
const OW_COMBO: usize = 7 * 7;

fn one_way_matrix_case(i: usize) -> Case {
    let combo = i % OW_COMBO;
    let kind = (i / OW_COMBO) % OW_KIND;
    let ctxk = (i / OW_COMBO / OW_KIND) % N_CTX;
    let layout = i / OW_COMBO / OW_KIND / N_CTX;
    let lay = if layout == 0 { 0 } else { 0x0e0e_0000 ^ (i as u32).wrapping_mul(2654435761) | 1 };
    let (cf, co) = (combo % 7, combo / 7);
    let focus_target = match kind {
        0 => el("gravity", vec![fl("grs80")]),
        1 => el("curvature", vec![fl("mean"), kv("ellps", "intl")]),
        2 => Target::Macro(0), // single one-way operator
        3 => Target::Macro(1), // pipeline body containing a one-way operator
        4 => Target::Macro(2), // one-way operator two macro levels down
        _ => Target::Macro(3), // pipeline body whose one-way step is marked `>` inside
    };
    let focus = Step {
        target: focus_target,
        inv: None,
        omit_fwd: if cf == 0 { None } else { Some(OMIT_SP[cf - 1]) },
        omit_inv: if co == 0 { None } else { Some(OMIT_SP[co - 1]) },
        lay,
    };
    let shielded_focus = focus.omit_inv.is_some() || kind == 5;
    let mut a_inv = plain(el("addone", vec![]));
    a_inv.inv = Some(Sp::Suffix);
    let mut g67 = plain(el("gravity", vec![fl("grs67")]));
    g67.omit_inv = Some(Sp::Sugar);
    let hy = plain(el("helmert", vec![kv("y", 1)]));
    let hz = plain(el("helmert", vec![kv("z", 3)]));
    let q_steps = match ctxk {
        5 => vec![focus.clone(), hz],
        6 => vec![hy, focus.clone()],
        _ => vec![hy, focus.clone(), hz],
    };
    let body = |steps: Vec<Step>, piped: bool| Body { steps, piped, lay, spicy: false };
    let macros = vec![
        MacroDef { name: "g:normal".into(), body: body(vec![plain(el("gravity", vec![fl("grs80")]))], false) },
        MacroDef { name: "g:annotate".into(), body: body(vec![plain(el("addone", vec![])), plain(el("curvature", vec![fl("mean")])), a_inv], true) },
        MacroDef { name: "g:deep".into(), body: body(vec![plain(el("helmert", vec![kv("x", 2)])), plain(Target::Macro(0)), plain(el("noop", vec![]))], true) },
        MacroDef { name: "g:safe".into(), body: body(vec![plain(el("addone", vec![])), g67, plain(el("helmert", vec![kv("y", 1)]))], true) },
        MacroDef { name: "q:focus".into(), body: body(q_steps, true) },
    ];
    let a1 = plain(el("addone", vec![]));
    let mut q = plain(Target::Macro(4));
    if shielded_focus {
        // only a macro whose one-way steps are all shielded by omit_inv may be inverted
        q.inv = Some(Sp::Suffix);
    }
    let main_steps = match ctxk {
        0 => vec![focus],
        1 => vec![a1, focus, plain(el("helmert", vec![kv("x", 3), kv("y", 4)]))],
        2 => vec![focus, a1],
        3 => vec![a1, focus],
        4 | 5 | 6 => vec![a1.clone(), plain(Target::Macro(4)), a1],
        _ => vec![a1, q, plain(el("cart", vec![]))],
    };
    Case {
        macros,
        main: body(main_steps, true),
        probes: vec![p4(12.0, 55.0, 100.0, 0.0), p4(f64::NAN, 1.0, 2.0, 3.0), p4(-71.0, -33.0, 2500.0, 2.0)],
        excluded: vec![],
        bulk: None,
    }
}

// ---- registration histories over one long-lived context --------------------------------------------

#[derive(Clone, Debug, Serialize, Deserialize)]
struct Round {
    target: usize, // macro re-registered (alone) after this round's instantiations
    body: Body,
}

#[derive(Clone, Debug, Serialize, Deserialize)]
struct HistCase {
    plain: bool, // Plain instead of Minimal
    macros: Vec<MacroDef>,
    defs: Vec<Body>,
    rounds: Vec<Round>,
    probes: Vec<P4>,
}

fn build_body(rb: &RawBody, cand: &[usize], min_piped: u8) -> Body {
    let piped = rb.kind >= min_piped;
    let no_taint = vec![false; NAMES.len()];
    let one = |rs: &RawStep, omits: bool| {
        let mut rs = rs.clone();
        rs.ow = 255; // invertible operators only: a re-registration must not make an inverted macro one-way
        build_step(&rs, cand, &no_taint, omits, false)
    };
    let steps: Vec<Step> = if piped { rb.steps.iter().map(|rs| one(rs, true)).collect() } else { vec![one(&rb.steps[0], false)] };
    Body { steps, piped, lay: rb.lay, spicy: rb.spicy }
}

fn build_history(plain: bool, macros: &[RawBody], defs: &[RawBody], rounds: &[(u16, RawBody)], probes: Vec<P4>, np: u8, kn: Known) -> HistCase {
    let mut lib: Vec<MacroDef> = vec![];
    let mut level: Vec<usize> = vec![];
    for (i, rb) in macros.iter().enumerate().take(NAMES.len()) {
        let cand: Vec<usize> = (0..i).filter(|j| level[*j] < 3).collect();
        let body = build_body(rb, &cand, 3);
        level.push(1 + body.steps.iter().map(|s| if let Target::Macro(m) = s.target { level[m] } else { 0 }).max().unwrap_or(0));
        lib.push(MacroDef { name: NAMES[i].to_string(), body });
    }
    let all: Vec<usize> = (0..lib.len()).collect();
    let mut ds: Vec<Body> = defs.iter().map(|rb| build_body(rb, &all, 1)).collect();
    let mut rs: Vec<Round> = rounds
        .iter()
        .map(|(sel, rb)| {
            let target = pick(*sel, lib.len());
            // the new body obeys the same rule as the old one: only earlier macros (no recursion)
            let cand: Vec<usize> = (0..target).filter(|j| level[*j] < 3).collect();
            Round { target, body: build_body(rb, &cand, 3) }
        })
        .collect();
    if kn.d1 || kn.d3a || kn.d3b || kn.d4 {
        // known classes are kept out of this section in the bluntest way
        for m in lib.iter_mut() {
            strip_plain(&mut m.body, true);
        }
        for d in ds.iter_mut() {
            strip_plain(d, false);
        }
        for r in rs.iter_mut() {
            strip_plain(&mut r.body, true);
        }
    }
    let mut probes = probes;
    probes.truncate(1 + pick((np as u16) << 8, 4));
    HistCase { plain, macros: lib, defs: ds, rounds: rs, probes }
}

fn history_case(kn: Known) -> impl Strategy<Value = HistCase> {
    (
        any::<bool>(),
        prop::collection::vec(raw_body(3, 0.75), 2..=NAMES.len()),
        prop::collection::vec(raw_body(3, 0.85), 1..=3),
        prop::collection::vec((any::<u16>(), raw_body(3, 0.75)), 1..=3),
        prop::collection::vec(probe(), 4),
        any::<u8>(),
    )
        .prop_map(move |(plain, macros, defs, rounds, probes, np)| build_history(plain, &macros, &defs, &rounds, probes, np, kn))
}

/// macros named as a step of the body itself / reached at any depth
fn direct_refs(b: &Body) -> BTreeSet<usize> {
    b.steps.iter().filter_map(|s| if let Target::Macro(m) = s.target { Some(m) } else { None }).collect()
}

fn run_history<C: Context>(ctx: &mut C, case: &HistCase, rec: &mut Rec) -> CaseResult {
    let mut lib = case.macros.clone();
    for m in &lib {
        ctx.register_resource(&m.name, &render_body(&m.body, &lib));
    }
    // the reference applies bare elementary operators in a context of its own that never sees a macro
    let mut refx = Exec { ctx: Minimal::new(), cache: BTreeMap::new() };
    let mut earlier: Vec<Vec<MacroDef>> = vec![];
    let n = case.probes.len();
    let mut sensitive_indirect = false;
    let same = |a: &(Vec<Coor4D>, usize), b: &(Vec<Coor4D>, usize)| vec_bits_eq(&a.0, &b.0) && a.1 == b.1;
    for round in 0..=case.rounds.len() {
        for (di, d) in case.defs.iter().enumerate() {
            let tmp = Case { macros: lib.clone(), main: d.clone(), probes: case.probes.clone(), excluded: vec![], bulk: None };
            let texts = render_case(&tmp);
            let history = format!(
                "context {}, instantiation of definition #{di} after {round} re-registration(s) ({}); every definition text was instantiated in each earlier round too",
                if case.plain { "Plain" } else { "Minimal" },
                case.rounds[..round].iter().map(|r| lib[r.target].name.clone()).collect::<Vec<_>>().join(", ")
            );
            let op = match try_op(ctx, &texts.main) {
                Err(p) => vfail!(format!("panic-instantiate@{}", p.sig()), "instantiation panics: {} at {}:{}\n  {history}\n{}", p.msg, p.file, p.line, describe(&tmp, &texts)),
                Ok(Err(e)) => vfail!(K_REJECT, "a well-formed definition is rejected: {e:?}\n  {history}\n{}", describe(&tmp, &texts)),
                Ok(Ok(op)) => op,
            };
            let mut libv: Vec<(Vec<Coor4D>, usize)> = vec![];
            for fwd in [true, false] {
                let mut data = c4s(&case.probes);
                match try_apply(ctx, op, dir_of(fwd), &mut data) {
                    Err(p) => vfail!(format!("panic-apply@{}", p.sig()), "apply panics: {} at {}:{}\n  {history}\n{}", p.msg, p.file, p.line, describe(&tmp, &texts)),
                    Ok(Err(e)) => vfail!("apply-error", "apply returned {e:?}\n  {history}\n{}", describe(&tmp, &texts)),
                    Ok(Ok(c)) => libv.push((data, c)),
                }
            }
            let traces = [plan(&tmp, &texts, Q::NONE, true), plan(&tmp, &texts, Q::NONE, false)];
            let mut refs: Vec<(Vec<Coor4D>, usize)> = vec![];
            for t in &traces {
                match refx.run(t, &case.probes)? {
                    RefOut::Done(dd, c) => refs.push((dd, c)),
                    RefOut::Panicked(_) => {
                        rec.count("skipped_standalone_panic", 1);
                        return Ok(());
                    }
                }
            }
            if !(same(&libv[0], &refs[0]) && same(&libv[1], &refs[1])) {
                // does the handle run an earlier registration state?
                let mut stale: Option<usize> = None;
                for (k, old) in earlier.iter().enumerate().rev() {
                    let t2 = Case { macros: old.clone(), main: d.clone(), probes: vec![], excluded: vec![], bulk: None };
                    let tx2 = render_case(&t2);
                    let mut all = true;
                    for (j, fwd) in [true, false].into_iter().enumerate() {
                        match refx.run(&plan(&t2, &tx2, Q::NONE, fwd), &case.probes)? {
                            RefOut::Done(dd, c) => all &= same(&libv[j], &(dd, c)),
                            RefOut::Panicked(_) => all = false,
                        }
                    }
                    if all {
                        stale = Some(k);
                        break;
                    }
                }
                let k = if same(&libv[0], &refs[0]) { 1 } else { 0 };
                let (ld, lc) = &libv[k];
                let (rd, rc) = &refs[k];
                let what = match first_bits_diff(ld, rd) {
                    Some(i) => format!("tuple {i}: input {}  library {}  sequential stand-alone steps (fresh context, current registrations) {}  (bitwise, tolerance 0)", fmt_c4(&c4(&case.probes[i])), fmt_c4(&ld[i]), fmt_c4(&rd[i])),
                    None => format!("values agree, count: library {lc}, min over executed stand-alone steps {rc} (set size {n})"),
                };
                let (key, expl) = match stale {
                    Some(k) => (K_STALE, format!("the handle behaves exactly like the definition under the registrations that were in force before re-registration #{}", k + 1)),
                    None => (if first_bits_diff(ld, rd).is_some() { K_VALUES } else { K_COUNT }, "no earlier registration state reproduces the result either".to_string()),
                };
                vfail!(key, "{:?} application differs from the sequential application of the steps\n  {history}\n{}  {what}\n  reference executes: {}\n  {expl}", dir_of(k == 0), describe(&tmp, &texts), fmt_trace(&traces[k]));
            }
            rec.count("instantiations_checked", 1);
        }
        if round < case.rounds.len() {
            let r = &case.rounds[round];
            earlier.push(lib.clone());
            // which definitions change their meaning through this re-registration, and is the macro named in them?
            let before = lib.clone();
            lib[r.target].body = r.body.clone();
            for d in &case.defs {
                let (a, b) = (Case { macros: before.clone(), main: d.clone(), probes: vec![], excluded: vec![], bulk: None }, Case { macros: lib.clone(), main: d.clone(), probes: vec![], excluded: vec![], bulk: None });
                let (ta, tb) = (render_case(&a), render_case(&b));
                if plan(&a, &ta, Q::NONE, true) != plan(&b, &tb, Q::NONE, true) || plan(&a, &ta, Q::NONE, false) != plan(&b, &tb, Q::NONE, false) {
                    if direct_refs(d).contains(&r.target) {
                        rec.class("meaning-changes:macro-named-in-definition");
                    } else {
                        rec.class("meaning-changes:macro-reached-through-other-macros-only");
                        sensitive_indirect = true;
                    }
                }
            }
            let used_by_others = lib.iter().any(|m| direct_refs(&m.body).contains(&r.target));
            rec.class(if direct_refs(&before[r.target].body).is_empty() && used_by_others {
                "reregistered=leaf"
            } else if used_by_others {
                "reregistered=middle"
            } else {
                "reregistered=top-or-unused"
            });
            ctx.register_resource(&lib[r.target].name, &render_body(&r.body, &lib));
        }
    }
    rec.class(if case.plain { "context=Plain" } else { "context=Minimal" });
    rec.class(&format!("rounds={}", case.rounds.len()));
    rec.class(&format!("definitions={}", case.defs.len()));
    if sensitive_indirect && n > 0 {
        let mut fp: Vec<String> = case.defs.iter().map(|d| canonical_body(d, &lib)).collect();
        fp.extend(case.macros.iter().map(|m| canonical_body(&m.body, &lib)));
        fp.extend(case.rounds.iter().map(|r| format!("{}:{}", r.target, canonical_body(&r.body, &lib))));
        rec.nontrivial(&fp);
    }
    Ok(())
}

fn check_history(case: &HistCase, rec: &mut Rec) -> CaseResult {
    if case.plain {
        run_history(&mut Plain::new(), case, rec)
    } else {
        run_history(&mut Minimal::new(), case, rec)
    }
}

// ---- operand containers of every supported kind ----------------------------------------------------
//
// The property is stated for "all coordinates", i.e. for operands in any CoordinateSet the library
// offers, not only Vec<Coor4D>. A container that stores fewer than four f64 per tuple narrows what an
// operator hands back (Coor2D drops z and t, Coor3D drops t, Coor32 rounds to f32; get_coord supplies
// 0 / NaN again, the (set, h, t) and (set, t) wrappers supply their fixed values), and a stand-alone
// operator applied to such a container does so after EVERY step ("2-D/3-D containers drop Z/T between
// pipeline steps by design"). So the reference interpreter applies its stand-alone steps one after
// another to a container of the SAME kind holding the same operands, and the contents of the two
// containers (what they store, bit for bit) and the counts must agree.
//
// A case is discriminating ("narrowing-sensitive") when the same stand-alone steps applied to a dense
// 4-D copy of the operands (narrowed into the container once, at the end) give something else than the
// step-by-step application on the container itself: measured with the reference, for the evidence and
// for the failure key only.

/// the pipeline behaves as if it ran on a dense 4-D copy of the operands, narrowed into the container once
const K_WIDE: &str = "pipeline-narrows-once-instead-of-after-every-step";

trait Elem: Copy {
    fn from4(p: [f64; 4]) -> Self;
    fn stored(&self) -> Vec<f64>;
}
impl Elem for Coor4D {
    fn from4(p: [f64; 4]) -> Self {
        Coor4D(p)
    }
    fn stored(&self) -> Vec<f64> {
        self.0.to_vec()
    }
}
impl Elem for Coor3D {
    fn from4(p: [f64; 4]) -> Self {
        Coor3D([p[0], p[1], p[2]])
    }
    fn stored(&self) -> Vec<f64> {
        self.0.to_vec()
    }
}
impl Elem for Coor2D {
    fn from4(p: [f64; 4]) -> Self {
        Coor2D([p[0], p[1]])
    }
    fn stored(&self) -> Vec<f64> {
        self.0.to_vec()
    }
}
impl Elem for Coor32 {
    fn from4(p: [f64; 4]) -> Self {
        Coor32([p[0] as f32, p[1] as f32])
    }
    fn stored(&self) -> Vec<f64> {
        vec![self.0[0] as f64, self.0[1] as f64]
    }
}

/// arrays have a fixed length: a case with an array container holds exactly ARR_N tuples
const ARR_N: usize = 4;
const INNER: [&str; 4] = ["Coor4D", "Coor3D", "Coor2D", "Coor32"];
const SHAPES: [&str; 3] = ["Vec", "array", "&mut slice"];

#[derive(Clone, Copy, Debug, Serialize, Deserialize)]
struct Kind {
    inner: u8, // Coor4D, Coor3D, Coor2D, Coor32
    shape: u8, // Vec, array, &mut slice
    wrap: u8,  // plain, (set, h, t), (set, t)
    h: F,
    t: F,
}

impl Kind {
    fn shape_for(&self, n: usize) -> usize {
        if self.shape % 3 == 1 && n != ARR_N {
            0
        } else {
            (self.shape % 3) as usize
        }
    }
    fn label(&self, n: usize) -> String {
        let base = format!("{} of {}", SHAPES[self.shape_for(n)], INNER[(self.inner % 4) as usize]);
        match self.wrap % 3 {
            1 => format!("({base}, {:?}, {:?})", self.h.0, self.t.0),
            2 => format!("({base}, {:?})", self.t.0),
            _ => base,
        }
    }
    /// what CoordinateSet::dim reports for this kind
    fn dim(&self) -> usize {
        if self.wrap % 3 != 0 {
            4
        } else {
            [4, 3, 2, 2][(self.inner % 4) as usize]
        }
    }
    fn plain_4d(&self) -> bool {
        self.inner % 4 == 0 && self.wrap % 3 == 0
    }
}

/// Build a container of the given kind from the operands, hand it to `f` as a CoordinateSet, and
/// return what `f` returns together with what the elements of the container store afterwards.
fn with_set<T: Elem, R>(k: &Kind, pts: &[P4], f: &mut dyn FnMut(&mut dyn CoordinateSet) -> R) -> (R, Vec<Vec<f64>>)
where
    Vec<T>: CoordinateSet,
    [T; ARR_N]: CoordinateSet,
    for<'a> &'a mut [T]: CoordinateSet,
{
    let mut elems: Vec<T> = pts.iter().map(|p| T::from4([p[0].0, p[1].0, p[2].0, p[3].0])).collect();
    let (h, t) = (k.h.0, k.t.0);
    let wrap = k.wrap % 3;
    let r = match k.shape_for(pts.len()) {
        0 => match wrap {
            1 => {
                let mut w = (elems, h, t);
                let r = f(&mut w);
                elems = w.0;
                r
            }
            2 => {
                let mut w = (elems, t);
                let r = f(&mut w);
                elems = w.0;
                r
            }
            _ => f(&mut elems),
        },
        1 => {
            let mut a: [T; ARR_N] = std::array::from_fn(|i| elems[i]);
            let r = match wrap {
                1 => {
                    let mut w = (a, h, t);
                    let r = f(&mut w);
                    a = w.0;
                    r
                }
                2 => {
                    let mut w = (a, t);
                    let r = f(&mut w);
                    a = w.0;
                    r
                }
                _ => f(&mut a),
            };
            elems = a.to_vec();
            r
        }
        _ => {
            let mut sl: &mut [T] = &mut elems[..];
            match wrap {
                1 => {
                    let mut w = (sl, h, t);
                    f(&mut w)
                }
                2 => {
                    let mut w = (sl, t);
                    f(&mut w)
                }
                _ => f(&mut sl),
            }
        }
    };
    (r, elems.iter().map(|e| e.stored()).collect())
}

fn on_kind<R>(k: &Kind, pts: &[P4], f: &mut dyn FnMut(&mut dyn CoordinateSet) -> R) -> (R, Vec<Vec<f64>>) {
    match k.inner % 4 {
        0 => with_set::<Coor4D, R>(k, pts, f),
        1 => with_set::<Coor3D, R>(k, pts, f),
        2 => with_set::<Coor2D, R>(k, pts, f),
        _ => with_set::<Coor32, R>(k, pts, f),
    }
}

fn stored_eq(a: &[Vec<f64>], b: &[Vec<f64>]) -> bool {
    a.len() == b.len() && a.iter().zip(b).all(|(x, y)| x.len() == y.len() && x.iter().zip(y).all(|(p, q)| bits_eq(*p, *q)))
}
fn first_stored_diff(a: &[Vec<f64>], b: &[Vec<f64>]) -> Option<usize> {
    if a.len() != b.len() {
        return Some(a.len().min(b.len()));
    }
    a.iter().zip(b).position(|(x, y)| !stored_eq(std::slice::from_ref(x), std::slice::from_ref(y)))
}

enum Seq {
    Done(usize),
    Panicked,
    Error(String),
}

/// the stand-alone steps one after another on the set itself (count: minimum, set size if none)
fn seq_apply(ctx: &Minimal, steps: &[(OpHandle, bool, String)], set: &mut dyn CoordinateSet) -> Seq {
    let mut count = usize::MAX;
    for (h, fwd, def) in steps {
        match try_apply(ctx, *h, dir_of(*fwd), &mut *set) {
            Err(_) => return Seq::Panicked,
            Ok(Err(e)) => return Seq::Error(format!("apply of stand-alone '{def}' returned {e:?}")),
            Ok(Ok(c)) => count = count.min(c),
        }
    }
    if count == usize::MAX {
        count = set.len();
    }
    Seq::Done(count)
}

/// the same steps on a dense 4-D copy of the set, stored back once (NOT the reference: only used to
/// measure whether a case can tell the two apart, and to name the failure)
fn wide_apply(ctx: &Minimal, steps: &[(OpHandle, bool, String)], set: &mut dyn CoordinateSet) -> Seq {
    let mut buf: Vec<Coor4D> = (0..set.len()).map(|i| set.get_coord(i)).collect();
    let r = seq_apply(ctx, steps, &mut buf);
    for (i, c) in buf.iter().enumerate() {
        set.set_coord(i, c);
    }
    r
}

#[derive(Clone, Debug, Serialize, Deserialize)]
struct ContCase {
    kind: Kind,
    recipe: String, // how the definition was built (evidence only)
    case: Case,
}

fn check_container(cc: &ContCase, rec: &mut Rec) -> CaseResult {
    let case = &cc.case;
    let kind = &cc.kind;
    let texts = render_case(case);
    let reach = reachable(case);
    let mut ex = Exec { ctx: Minimal::new(), cache: BTreeMap::new() };
    for (i, m) in case.macros.iter().enumerate() {
        ex.ctx.register_resource(&m.name, &texts.macros[i]);
    }
    let op = match try_op(&mut ex.ctx, &texts.main) {
        Err(p) => vfail!(format!("panic-instantiate@{}", p.sig()), "instantiation panics: {} at {}:{}\n{}", p.msg, p.file, p.line, describe(case, &texts)),
        Ok(Err(e)) => vfail!(K_REJECT, "a well-formed definition (every step instantiates on its own) is rejected: {e:?}\n{}", describe(case, &texts)),
        Ok(Ok(op)) => op,
    };
    let probes = probes_of(case);
    let n = probes.len();
    let label = kind.label(n);

    let traces = [plan(case, &texts, Q::NONE, true), plan(case, &texts, Q::NONE, false)];
    let mut steps: Vec<Vec<(OpHandle, bool, String)>> = vec![];
    for t in &traces {
        let mut v = vec![];
        for (def, fwd) in t {
            match ex.handle(def)? {
                Ok(h) => v.push((h, *fwd, def.clone())),
                Err(_) => {
                    rec.class("standalone-step-panics");
                    rec.count("skipped_standalone_panic", 1);
                    return Ok(());
                }
            }
        }
        steps.push(v);
    }

    let mut sensitive = [false, false];
    for (k, fwd) in [true, false].into_iter().enumerate() {
        let ctx = &ex.ctx;
        let (lib_r, lib_st) = on_kind(kind, &probes, &mut |set| try_apply(ctx, op, dir_of(fwd), set));
        let (ref_r, ref_st) = on_kind(kind, &probes, &mut |set| seq_apply(ctx, &steps[k], set));
        let (wide_r, wide_st) = on_kind(kind, &probes, &mut |set| wide_apply(ctx, &steps[k], set));
        let ref_count = match ref_r {
            Seq::Done(c) => c,
            Seq::Panicked => {
                // a step that panics on its own is not a composition matter (C09)
                rec.class("standalone-step-panics");
                rec.count("skipped_standalone_panic", 1);
                return Ok(());
            }
            Seq::Error(e) => vfail!("harness-standalone-apply-error", "{e} on a {label}"),
        };
        let lib_count = match lib_r {
            Err(p) => vfail!(
                "panic-apply-pipeline-only",
                "the pipeline applied to a {label} panics ({} at {}:{} [{}]) where the sequence of stand-alone steps does not\n{}",
                p.msg,
                p.file,
                p.line,
                p.sig(),
                describe(case, &texts)
            ),
            Ok(Err(e)) => vfail!("apply-error", "apply ({:?}) to a {label} returned an error: {e:?}\n{}", dir_of(fwd), describe(case, &texts)),
            Ok(Ok(c)) => c,
        };
        let wide_ok = matches!(wide_r, Seq::Done(_));
        sensitive[k] = wide_ok && !stored_eq(&wide_st, &ref_st);
        if !stored_eq(&lib_st, &ref_st) {
            let i = first_stored_diff(&lib_st, &ref_st).unwrap_or(0);
            let like_wide = wide_ok && stored_eq(&lib_st, &wide_st);
            let key = if like_wide { K_WIDE } else { K_VALUES };
            let expl = if like_wide {
                "the library's result is what the same steps give on a dense 4-D copy of the operands that is narrowed into the container once at the end; a stand-alone step stores into the container (dropping what it cannot hold) every time"
            } else {
                "(not explained by running on a dense 4-D copy either)"
            };
            vfail!(
                key,
                "{:?} application to a {label} differs from the sequential application of the stand-alone steps to a container of the same kind\n{}  tuple {i}: operand {}  the container stores after the pipeline {:?}  after the stand-alone steps {:?}  (bitwise comparison, tolerance 0)\n  reference executes: {}\n  {expl}",
                dir_of(fwd),
                describe(case, &texts),
                fmt_c4(&c4(&probes[i.min(n.saturating_sub(1))])),
                lib_st.get(i),
                ref_st.get(i),
                fmt_trace(&traces[k])
            );
        }
        vensure!(
            lib_count == ref_count,
            K_COUNT,
            "{:?} application to a {label}: stored values agree, count: library {lib_count}, min over executed stand-alone steps {ref_count} (set size {n})\n{}  reference executes: {}",
            dir_of(fwd),
            describe(case, &texts),
            fmt_trace(&traces[k])
        );
        if ref_count < n {
            rec.class("count<n");
        }
    }

    // --- bookkeeping
    let any_mod = record_classes(case, &reach, rec);
    let inner = INNER[(kind.inner % 4) as usize];
    let wrap = ["plain", "(set,h,t)", "(set,t)"][(kind.wrap % 3) as usize];
    rec.class(&format!("container:{}:{inner}:{wrap}", SHAPES[kind.shape_for(n)]));
    rec.class(&format!("dim()={}", kind.dim()));
    let (shape_name, how) = cc.recipe.split_once('/').unwrap_or((cc.recipe.as_str(), "as-generated"));
    rec.class(&format!("built={shape_name}"));
    rec.class(&format!("placed={how}"));
    rec.class(if case.main.piped { "main=pipeline" } else { "main=single" });
    rec.class(&format!("depth={}", depth(case, &case.main)));
    rec.class(&format!("probes={n}"));
    rec.metric("max_executed_steps", traces[0].len().max(traces[1].len()) as f64);
    rec.count("standalone_applications", 2 * (traces[0].len() + traces[1].len()) as u64);
    let any_sensitive = sensitive[0] || sensitive[1];
    if any_sensitive {
        rec.class(&format!("narrowing-sensitive:{inner}:{wrap}"));
        rec.class(&format!("narrowing-sensitive:{}", SHAPES[kind.shape_for(n)]));
        rec.class(&format!("narrowing-sensitive:built={shape_name}"));
        rec.class(&format!("narrowing-sensitive:placed={how}"));
        if sensitive[0] {
            rec.class("narrowing-sensitive:Fwd");
        }
        if sensitive[1] {
            rec.class("narrowing-sensitive:Inv");
        }
        if any_mod {
            rec.class("narrowing-sensitive:with-modifiers");
        }
        if !reach.is_empty() {
            rec.class("narrowing-sensitive:through-macro");
        }
        rec.count("narrowing_sensitive_cases", 1);
        let mut fp = vec![label.clone(), canonical_body(&case.main, &case.macros)];
        for m in &reach {
            fp.push(format!("{}={}", case.macros[*m].name, canonical_body(&case.macros[*m].body, &case.macros)));
        }
        rec.nontrivial(&fp);
    } else if kind.plain_4d() {
        rec.class("control:plain-4-D-container");
    } else {
        rec.class("narrowing-insensitive");
    }
    Ok(())
}

// ---- generator: container kinds x pipelines whose intermediate results do not survive narrowing --------

fn kind_strategy() -> impl Strategy<Value = Kind> {
    let inner = prop_oneof![1 => Just(0u8), 3 => Just(1u8), 3 => Just(2u8), 3 => Just(3u8)];
    let wrap = prop_oneof![3 => Just(0u8), 1 => Just(1u8), 1 => Just(2u8)];
    let h = prop_oneof![1 => Just(0.0f64), 3 => -250.0f64..9000.0, 1 => Just(1234.5f64)];
    let t = prop_oneof![2 => Just(2020.0f64), 2 => 1990.0f64..2030.0, 1 => Just(f64::NAN)];
    (inner, 0u8..3, wrap, h, t).prop_map(|(inner, shape, wrap, h, t)| Kind { inner, shape, wrap, h: F(h), t: F(t) })
}

#[derive(Clone, Copy, Debug, PartialEq)]
enum Dom {
    Geo,          // lon, lat radians, height, epoch
    Strip(usize), // the same within +-3 degrees of the central meridian of a UTM zone
    Small,        // small numbers (some of them integers)
    Deg,          // lon, lat degrees, height (feet), epoch
}

/// translations of very different magnitudes: far below an f32 ulp of the operands up to kilometres
const LADDER: [&str; 12] = ["0.000000001", "0.0000000477", "0.0000003", "0.00001", "0.001", "0.3", "1", "7", "1000.5", "-0.0000000477", "-0.004", "-87"];
const ORDERS_4D: [&str; 6] = ["1,2,4,3", "4,3,2,1", "2,-1,4,3", "4,1,2,3", "3,4,1,2", "-2,1,-4,3"];
const ORDERS_3D: [&str; 5] = ["3,1,2", "2,3,1", "3,2,1", "-3,1,-2", "1,3,2"];
const DESCS_4D: [&str; 6] = ["neuf_deg", "enuf_rad", "wsdp", "nwuf_gon", "uenf", "fune"];

type RStep = (String, Vec<Param>, bool);

fn rstep(name: &str, params: Vec<Param>, inv: bool) -> RStep {
    (name.to_string(), params, inv)
}

fn ladder(u: u16) -> &'static str {
    LADDER[pick(u, LADDER.len())]
}

/// Pipelines of the shapes people write, chosen so that an intermediate result needs more than the
/// narrow containers can hold (a geocentric Z between two 2-D steps, a height or an epoch moved through
/// another axis, metres or radians that are not f32 numbers, translations below an f32 ulp).
fn recipe(sel: u16, a: u16, b: u16, c: u16, d: u16) -> (&'static str, Vec<RStep>, Dom) {
    let ell = |u: u16| kv("ellps", ELLPS[pick(u, ELLPS.len())]);
    let shift = |a: u16, b: u16, c: u16| vec![kv("x", small(a) * 13), kv("y", small(b) * 11), kv("z", small(c) * 17)];
    let zone = 1 + pick(d, 60);
    match pick(sel, 12) {
        0 => ("datum-shift", vec![rstep("cart", vec![ell(a)], false), rstep("helmert", shift(a, b, c), false), rstep("cart", vec![ell(b)], true)], Dom::Geo),
        1 => {
            let p7 = vec![
                kv("x", small(a) * 13),
                kv("y", small(b) * 11),
                kv("z", small(c) * 17),
                kv("s", format!("{:.1}", pick(b, 200) as f64 / 10.0 - 10.0)),
                kv("rx", format!("{:.2}", pick(c, 200) as f64 / 100.0 - 1.0)),
                kv("rz", format!("{:.2}", pick(a, 200) as f64 / 100.0 - 1.0)),
                kv("convention", if a & 1 == 1 { "position_vector" } else { "coordinate_frame" }),
            ];
            ("datum-shift-7-parameter", vec![rstep("cart", vec![ell(c)], false), rstep("helmert", p7, d & 1 == 1), rstep("cart", if d & 2 == 2 { vec![ell(d)] } else { vec![] }, true)], Dom::Geo)
        }
        2 => (
            "datum-shift-then-utm",
            vec![
                rstep("cart", vec![ell(a)], false),
                rstep("helmert", vec![kv("translation", format!("{},{},{}", small(a) * 9, small(b) * 9, small(c) * 9))], false),
                rstep("cart", vec![], true),
                rstep("utm", vec![kv("zone", zone)], false),
            ],
            Dom::Strip(zone),
        ),
        3 => (
            "translation-ladder",
            vec![
                rstep("helmert", vec![kv("x", ladder(a))], false),
                rstep("helmert", vec![kv("y", ladder(b)), kv("x", ladder(c))], d & 1 == 1),
                rstep("helmert", vec![kv("x", ladder(a))], true),
            ],
            if d & 2 == 2 { Dom::Small } else { Dom::Geo },
        ),
        4 => (
            "projected-round-trip",
            vec![rstep("utm", vec![kv("zone", zone)], false), rstep("helmert", vec![kv("x", ladder(a)), kv("y", ladder(b))], false), rstep("utm", vec![kv("zone", zone)], true)],
            Dom::Strip(zone),
        ),
        5 => (
            "height-through-axisswap",
            vec![
                rstep("axisswap", vec![kv("order", ORDERS_3D[pick(a, ORDERS_3D.len())])], false),
                rstep("helmert", vec![kv("x", small(a)), kv("y", small(b)), kv("z", small(c))], false),
                rstep("axisswap", vec![kv("order", ORDERS_3D[pick(b, ORDERS_3D.len())])], d & 1 == 1),
            ],
            if d & 2 == 2 { Dom::Small } else { Dom::Geo },
        ),
        6 => (
            "epoch-through-axisswap",
            vec![
                rstep("axisswap", vec![kv("order", ORDERS_4D[pick(a, ORDERS_4D.len())])], false),
                rstep("helmert", vec![kv("z", small(c)), kv("x", ladder(b))], false),
                rstep("axisswap", vec![kv("order", ORDERS_4D[pick(b, ORDERS_4D.len())])], d & 1 == 1),
            ],
            if d & 2 == 2 { Dom::Small } else { Dom::Geo },
        ),
        7 => (
            "height-units-then-datum-shift",
            vec![
                rstep("unitconvert", vec![kv("xy_in", "deg"), kv("xy_out", "rad"), kv("z_in", UNITS[pick(a, 8)]), kv("z_out", "m")], false),
                rstep("cart", vec![ell(b)], false),
                rstep("helmert", vec![kv("z", small(c) * 17)], false),
                rstep("cart", vec![], true),
            ],
            Dom::Deg,
        ),
        8 => (
            "adapt-4-D",
            vec![
                rstep("adapt", vec![kv("from", DESCS_4D[pick(a, DESCS_4D.len())])], false),
                rstep("helmert", vec![kv("x", small(a)), kv("z", small(c))], false),
                rstep("adapt", vec![kv("to", DESCS_4D[pick(b, DESCS_4D.len())])], d & 1 == 1),
            ],
            Dom::Deg,
        ),
        9 => ("cart-addone-cart", vec![rstep("cart", vec![ell(a)], false), rstep("addone", vec![], b & 1 == 1), rstep("cart", vec![ell(a)], true)], Dom::Geo),
        10 => (
            "mercator-chain",
            vec![
                rstep("merc", if a & 1 == 1 { vec![kv("lat_ts", small(a) * 6)] } else { vec![] }, false),
                rstep("helmert", vec![kv("x", ladder(b)), kv("y", ladder(c))], false),
                rstep("webmerc", vec![], true),
                rstep("latitude", vec![fl(LATS[pick(d, LATS.len())])], false),
            ],
            Dom::Geo,
        ),
        _ => (
            "cartesian-and-back-twice",
            vec![rstep("cart", vec![], false), rstep("cart", vec![ell(a)], true), rstep("cart", vec![ell(b)], false), rstep("helmert", shift(c, a, b), d & 1 == 1), rstep("cart", vec![], true)],
            Dom::Geo,
        ),
    }
}

fn dom_point(dom: Dom, r: [f64; 4]) -> P4 {
    let lon = (r[0] - 0.5) * 358.0;
    let lat = (r[1] - 0.5) * 178.0;
    let h = -100.0 + 5000.0 * r[2];
    match dom {
        Dom::Geo => p4(lon.to_radians(), lat.to_radians(), h, 2020.0),
        Dom::Strip(zone) => p4((-183.0 + 6.0 * zone as f64 + (r[0] - 0.5) * 6.0).to_radians(), lat.to_radians(), h, 2020.0),
        Dom::Small => {
            if r[3] < 0.4 {
                p4(((r[0] - 0.5) * 20.0).round(), ((r[1] - 0.5) * 20.0).round(), ((r[2] - 0.5) * 20.0).round(), (r[3] * 10.0).round())
            } else {
                p4((r[0] - 0.5) * 100.0, (r[1] - 0.5) * 100.0, (r[2] - 0.5) * 100.0, r[3] * 5.0)
            }
        }
        Dom::Deg => p4(lon, lat, h * 3.0, 2000.0 + 30.0 * r[3]),
    }
}

#[derive(Clone, Debug)]
struct RawRecipe {
    sel: u16,
    a: u16,
    b: u16,
    c: u16,
    d: u16,
    wrapping: u8,
    mods: Vec<RawStep>,            // spelling / omit_* / layout of the recipe steps (and of the macro invocation)
    extras: Vec<(u16, RawStep)>,   // random catalogue steps put in between
    lays: (u32, u32, bool),
    pts: Vec<[f64; 4]>,
    np: u8,
    fault: (u8, u16, u8),
}

fn raw_recipe() -> impl Strategy<Value = RawRecipe> {
    (
        (any::<u16>(), any::<u16>(), any::<u16>(), any::<u16>(), any::<u16>(), any::<u8>()),
        prop::collection::vec(raw_step(0.0), 8),
        prop::collection::vec((any::<u16>(), raw_step(0.0)), 0..=2),
        (lay(), lay(), prop::bool::weighted(0.3)),
        prop::collection::vec([0.0f64..1.0, 0.0f64..1.0, 0.0f64..1.0, 0.0f64..1.0], 6),
        any::<u8>(),
        (any::<u8>(), any::<u16>(), any::<u8>()),
    )
        .prop_map(|((sel, a, b, c, d, wrapping), mods, extras, lays, pts, np, fault)| RawRecipe { sel, a, b, c, d, wrapping, mods, extras, lays, pts, np, fault })
}

fn build_recipe(rr: &RawRecipe, kind: &Kind) -> ContCase {
    let (name, rsteps, dom) = recipe(rr.sel, rr.a, rr.b, rr.c, rr.d);
    // the recipe steps: `inv` as the recipe says (spelled as drawn), omit_* as drawn (at the rates of the other sections)
    let mut steps: Vec<Step> = rsteps
        .iter()
        .enumerate()
        .map(|(i, (n, p, inv))| {
            let m = &rr.mods[i % rr.mods.len()];
            Step {
                target: Target::Elem { name: n.clone(), params: p.clone() },
                inv: if *inv { Some(INV_SP[m.sel as usize % 5]) } else { None },
                omit_fwd: m.of.map(|i| OMIT_SP[i as usize % 6]),
                omit_inv: m.oi.map(|i| OMIT_SP[i as usize % 6]),
                lay: m.lay,
            }
        })
        .collect();
    // random steps of the catalogue in between (invertible operators only)
    for (pos, raw) in &rr.extras {
        let mut raw = raw.clone();
        raw.ow = 255;
        let s = build_step(&raw, &[], &[], true, false);
        steps.insert(pick(*pos, steps.len() + 1), s);
    }
    let inv_of = |m: &RawStep| m.inv.map(|i| INV_SP[i as usize % 5]);
    let invoke = |i: usize, m: &RawStep, omits: bool| Step {
        target: Target::Macro(i),
        inv: inv_of(m),
        omit_fwd: if omits { m.of.map(|i| OMIT_SP[i as usize % 6]) } else { None },
        omit_inv: if omits { m.oi.map(|i| OMIT_SP[i as usize % 6]) } else { None },
        lay: m.lay,
    };
    let (l_main, l_body, spicy) = rr.lays;
    let body = |steps: Vec<Step>, piped: bool, lay: u32| Body { steps, piped, lay, spicy };
    let a1 = plain(el("addone", vec![]));
    let mut a1i = plain(el("addone", vec![]));
    a1i.inv = Some(Sp::Suffix);
    let (m6, m7) = (&rr.mods[6], &rr.mods[7]);
    let (how, macros, main): (&str, Vec<MacroDef>, Body) = match rr.wrapping % 8 {
        // the whole pipeline behind a macro, invoked alone (no step delimiter) ...
        3 => ("macro-alone", vec![MacroDef { name: NAMES[0].into(), body: body(steps, true, l_body) }], body(vec![invoke(0, m6, false)], false, l_main)),
        // ... or as a step between two others
        4 => ("macro-as-step", vec![MacroDef { name: NAMES[0].into(), body: body(steps, true, l_body) }], body(vec![a1, invoke(0, m6, true), a1i], true, l_main)),
        // one step of the pipeline behind a single-operator macro
        5 => {
            let k = pick(rr.d, steps.len());
            let mut single = steps[k].clone();
            single.omit_fwd = None;
            single.omit_inv = None;
            steps[k] = invoke(0, m6, true);
            ("one-step-is-a-macro", vec![MacroDef { name: NAMES[0].into(), body: body(vec![single], false, l_body) }], body(steps, true, l_main))
        }
        // the first two steps behind a macro, the rest in the definition; or nested one level deeper
        6 | 7 => {
            let rest = steps.split_off(2.min(steps.len()));
            let mut macros = vec![MacroDef { name: NAMES[0].into(), body: body(steps, true, l_body) }];
            let mut head = invoke(0, m6, true);
            if rr.wrapping % 8 == 7 {
                macros.push(MacroDef { name: NAMES[1].into(), body: body(vec![head, a1i], true, l_body ^ 0x55) });
                head = invoke(1, m7, true);
            }
            let mut ms = vec![head];
            ms.extend(rest);
            (if rr.wrapping % 8 == 7 { "head-behind-nested-macros" } else { "head-behind-macro" }, macros, body(ms, true, l_main))
        }
        _ => ("plain", vec![], body(steps, true, l_main)),
    };
    // operands: 1..6 tuples of the domain of the recipe (exactly ARR_N for an array), sometimes one tuple with a NaN
    let n = if kind.shape % 3 == 1 { ARR_N } else { 1 + pick((rr.np as u16) << 8, 6) };
    let mut probes: Vec<P4> = rr.pts.iter().take(n).map(|r| dom_point(dom, *r)).collect();
    if rr.fault.0 < 48 {
        let i = pick(rr.fault.1, n);
        probes[i][(rr.fault.2 % 2) as usize] = F(f64::NAN);
    }
    let case = Case { macros, main, probes, excluded: vec![], bulk: None };
    ContCase { kind: *kind, recipe: format!("{name}/{how}"), case }
}

fn container_case(kn: Known) -> impl Strategy<Value = ContCase> {
    let random = (kind_strategy(), random_case(kn, 5, 3, 0.35)).prop_map(|(kind, mut case)| {
        if kind.shape % 3 == 1 {
            // an array holds exactly ARR_N tuples
            let src = if case.probes.is_empty() { vec![p4(0.2, 0.9, 30.0, 2020.0)] } else { case.probes.clone() };
            case.probes = (0..ARR_N).map(|i| src[i % src.len()]).collect();
        }
        ContCase { kind, recipe: "random-catalogue".into(), case }
    });
    let shaped = (kind_strategy(), raw_recipe()).prop_map(|(kind, rr)| build_recipe(&rr, &kind));
    prop_oneof![2 => random, 3 => shaped]
}

// ---- long pipelines --------------------------------------------------------------------------------
//
// The property is stated for pipelines "of any length". The sections above stop at a dozen steps per
// pipeline, so whatever an implementation does per step in a way that depends on the NUMBER or the
// INDEX of the steps (flags packed into machine words, small-vector spill-over, u8 counters, fixed
// buffers, chunked loops) is out of their reach. The two sections below add the length dimension:
// pipelines (definitions and macro bodies) of 1..300 steps, with the lengths concentrated around the
// sizes at which implementations typically change behaviour (powers of two and their neighbours), built
// from cheap operators whose results stay finite and distinct over hundreds of steps (addone, helmert
// translations by small integers, axisswap, noop), so that one step too many or too few, or two steps
// exchanged, shows in the coordinates; steps that count fewer tuples than the others (cart on a NaN
// tuple; the inverse of a one-way operator, which leaves the data alone and reports 0, so that the
// count is the ONLY witness) make the count sensitive too. The oracle is the same reference
// interpreter (`check`): stand-alone steps one after another, bit for bit, counts included.

/// pipeline lengths, ascending (so that a smaller selector is a shorter pipeline: shrinking)
const LONG_SIZES: [usize; 46] = [
    1, 2, 3, 4, 5, 6, 7, 8, 9, 10, 12, 15, 16, 17, 20, 24, 31, 32, 33, 40, 48, 63, 64, 65, 66, 67, 70, 80, 96, 100, 120, 127, 128, 129, 130, 140, 160, 192, 200, 255, 256, 257, 258, 260, 280, 300,
];
/// the sizes around which the placed modifiers are put (index from the front = forward visiting order,
/// index from the back = inverse visiting order)
const EDGES: [usize; 6] = [8, 16, 32, 64, 128, 256];

fn len_label(len: usize) -> String {
    for e in EDGES {
        if len + 1 >= e && len <= e + 1 {
            return format!("{len}(={e}{})", if len < e { "-1" } else if len > e { "+1" } else { "" });
        }
    }
    let mut lo = 1;
    for e in EDGES {
        if len < e {
            return format!("{}..{}", lo, e - 2);
        }
        lo = e + 2;
    }
    format!("{lo}..")
}

/// visiting index (0-based) of a step -> class
fn visit_label(i: usize) -> &'static str {
    match i {
        0 => "0",
        1..=7 => "1..7",
        8..=15 => "8..15",
        16..=31 => "16..31",
        32..=63 => "32..63",
        64..=127 => "64..127",
        128..=255 => "128..255",
        _ => "256..",
    }
}

/// cheap operators whose results stay finite and exactly representable for integer operands; the plain
/// seed (0) gives `addone` throughout
fn cheap_target(l: &mut Lay) -> Target {
    // (a small catalogue, about 50 distinct steps: the stand-alone operators of the reference are instantiated
    // once per distinct step and case, and instantiation is what a long case costs)
    let sm = |l: &mut Lay| [1, -3, 7, -8][l.pick(4)];
    match l.pick(14) {
        0..=3 => el("addone", vec![]),
        4 | 5 => el("helmert", vec![kv("x", sm(l)), kv("y", sm(l))]),
        6 => el("helmert", vec![kv("z", sm(l))]),
        7 => el("helmert", vec![kv("x", sm(l))]),
        8 => el("helmert", vec![kv("translation", format!("{},{},5", sm(l), sm(l)))]),
        9 | 10 => el("axisswap", vec![kv("order", ORDERS[l.pick(6)])]),
        11 => el(NOOPS[l.pick(2)], vec![]),
        12 => el("helmert", vec![kv("x", sm(l)), kv("y", 2), kv("z", sm(l))]),
        _ => el("helmert", vec![kv("y", sm(l))]),
    }
}

/// One modifier placement: where (anywhere / around an edge counted from the front / from the back /
/// among the first three / among the last three), which modifiers in which spelling, and what the step
/// is (left as it is / a one-way operator marked omit_inv / cart / an invocation of a macro).
#[derive(Clone, Debug)]
struct RawPlace {
    anchor: u8,
    sel: u16,
    off: u8,
    inv: Option<u8>,
    of: Option<u8>,
    oi: Option<u8>,
    target: u8,
    a: u16,
    lay: u32,
}

fn raw_place() -> impl Strategy<Value = RawPlace> {
    (
        0u8..8,
        any::<u16>(),
        any::<u8>(),
        prop::option::weighted(0.35, 0u8..5),
        prop::option::weighted(0.45, 0u8..6),
        prop::option::weighted(0.45, 0u8..6),
        0u8..16,
        any::<u16>(),
        lay(),
    )
        .prop_map(|(anchor, sel, off, inv, of, oi, target, a, lay)| RawPlace { anchor, sel, off, inv, of, oi, target, a, lay })
}

fn place_index(p: &RawPlace, len: usize) -> usize {
    let fit: Vec<usize> = EDGES.iter().copied().filter(|e| *e <= len + 2).collect();
    let d = (p.off % 5) as isize - 2;
    let near = (p.off % 3) as isize;
    let cand: isize = match p.anchor % 8 {
        0 | 1 => return pick(p.sel, len),
        2 | 3 if !fit.is_empty() => fit[pick(p.sel, fit.len())] as isize + d,
        4 | 5 if !fit.is_empty() => len as isize - 1 - (fit[pick(p.sel, fit.len())] as isize + d),
        6 => near,
        7 => len as isize - 1 - near,
        _ => return pick(p.sel, len),
    };
    if cand < 0 || cand >= len as isize {
        pick(p.sel, len)
    } else {
        cand as usize
    }
}

/// macro invocations are only put where `cands` is non-empty; `force_macro` ignores the drawn target
fn apply_place(s: &mut Step, p: &RawPlace, cands: &[usize], force_macro: bool) {
    let mut inv = p.inv.map(|i| INV_SP[i as usize % 5]);
    let mut of = p.of.map(|i| OMIT_SP[i as usize % 6]);
    let mut oi = p.oi.map(|i| OMIT_SP[i as usize % 6]);
    let t = if force_macro { 15 } else { p.target % 16 };
    match t {
        8 | 9 => {
            // a step without an inverse, forward only: executed inverse it would leave the data alone and report 0
            let (name, params) = one_way_elem(p.a, p.a >> 1, p.a >> 4);
            s.target = Target::Elem { name, params };
            inv = None;
            oi = oi.or(Some(OMIT_SP[p.off as usize % 6]));
        }
        10 | 11 => s.target = el("cart", if p.a & 1 == 1 { vec![kv("ellps", ELLPS[pick(p.a, ELLPS.len())])] } else { vec![] }),
        12..=15 if !cands.is_empty() => s.target = Target::Macro(cands[pick(p.a, cands.len())]),
        _ => {}
    }
    if inv.is_none() && of.is_none() && oi.is_none() {
        // a placement always carries something
        match p.off % 3 {
            0 => of = Some(OMIT_SP[p.sel as usize % 6]),
            1 => oi = Some(OMIT_SP[p.sel as usize % 6]),
            _ => inv = Some(INV_SP[p.sel as usize % 5]),
        }
        if matches!(&s.target, Target::Elem { name, .. } if one_way(name)) {
            inv = None;
            oi = Some(OMIT_SP[p.sel as usize % 6]);
        }
    }
    s.inv = inv;
    s.omit_fwd = of;
    s.omit_inv = oi;
    s.lay = p.lay;
}

/// background of a long pipeline:
/// 0 = no modifiers, 1 = `inv` on 1 step in 7, 2 = dense (inv 30%, omit_fwd 10%, omit_inv 10%),
/// 3 = every step omit_fwd, 4 = every step omit_inv
fn long_body(len: usize, seed: u32, salt: u64, background: u8, lay: u32) -> Body {
    let mut l = Lay::new(seed, salt);
    let mut steps = Vec::with_capacity(len);
    for k in 0..len {
        let mut s = plain(cheap_target(&mut l));
        // token layout of the steps: one step in four (rendering 300 seeded steps per case is not the point here)
        if lay != 0 && l.pick(4) == 3 {
            s.lay = (lay ^ (k as u32).wrapping_mul(2654435761)) | 1;
        }
        match background {
            1 => {
                if l.pick(7) == 6 {
                    s.inv = Some(INV_SP[l.pick(5)]);
                }
            }
            2 => {
                if l.pick(10) >= 7 {
                    s.inv = Some(INV_SP[l.pick(5)]);
                }
                if l.pick(10) == 9 {
                    s.omit_fwd = Some(OMIT_SP[l.pick(6)]);
                }
                if l.pick(10) == 9 {
                    s.omit_inv = Some(OMIT_SP[l.pick(6)]);
                }
            }
            3 => s.omit_fwd = Some(OMIT_SP[(k + l.pick(6)) % 6]),
            4 => s.omit_inv = Some(OMIT_SP[(k + l.pick(6)) % 6]),
            _ => {}
        }
        steps.push(s);
    }
    Body { steps, piped: true, lay, spicy: false }
}

const LONG_PROBES: [[f64; 4]; 4] = [[1.0, 2.0, 3.0, 4.0], [-12.5, 55.25, 100.0, 2020.0], [f64::NAN, 1.0, 2.0, 3.0], [0.1, -0.3, 1e-3, 0.0]];

fn long_probes(sel: u8) -> Vec<P4> {
    let n = 1 + (sel % 3) as usize;
    (0..n).map(|i| LONG_PROBES[(i + (sel / 3) as usize) % 4]).map(|p| p4(p[0], p[1], p[2], p[3])).collect()
}

#[derive(Clone, Debug)]
struct RawLong {
    len: usize,
    seed: u32,
    background: u8,
    lay: u32,
    places: Vec<RawPlace>,
}

fn long_len() -> impl Strategy<Value = usize> {
    prop_oneof![
        7 => any::<u16>().prop_map(|u| LONG_SIZES[pick(u, LONG_SIZES.len())]),
        2 => 1usize..=300,
        1 => 60usize..=140,
    ]
}

fn raw_long() -> impl Strategy<Value = RawLong> {
    let background = prop_oneof![4 => Just(0u8), 3 => Just(1u8), 3 => Just(2u8), 1 => Just(3u8), 1 => Just(4u8)];
    (long_len(), any::<u32>(), background, lay(), prop::collection::vec(raw_place(), 0..=4)).prop_map(|(len, seed, background, lay, places)| RawLong { len, seed, background, lay, places })
}

fn build_long_body(rl: &RawLong, cap: usize, salt: u64, cands: &[usize], invocations: &[RawPlace]) -> Body {
    let len = rl.len.min(cap).max(1);
    let mut b = long_body(len, rl.seed, salt, rl.background, rl.lay);
    for p in &rl.places {
        // (macro invocations come from `invocations` only: their number bounds the cost of a case)
        let i = place_index(p, len);
        apply_place(&mut b.steps[i], p, &[], false);
    }
    if !cands.is_empty() {
        for p in invocations {
            let i = place_index(p, len);
            apply_place(&mut b.steps[i], p, cands, true);
        }
    }
    b
}

/// Random long pipelines: the definition itself, a macro body invoked alone or as a step of a short
/// pipeline, a long macro body used as a step of a long pipeline, and two long macro bodies nested.
fn long_case(kn: Known) -> impl Strategy<Value = Case> {
    (0u8..12, raw_long(), raw_long(), raw_long(), prop::collection::vec(raw_place(), 3), any::<u8>(), lay()).prop_map(move |(shape, main, m0, m1, inv, probes, l_main)| {
        let short = |steps: Vec<Step>, piped: bool| Body { steps, piped, lay: l_main, spicy: false };
        let (macros, main): (Vec<MacroDef>, Body) = match shape {
            // the long pipeline behind a macro invoked alone (no step delimiter in the definition) ...
            6 => {
                let m = MacroDef { name: NAMES[0].into(), body: build_long_body(&m0, 300, 11, &[], &[]) };
                let mut s = plain(Target::Macro(0));
                s.inv = inv[0].inv.map(|i| INV_SP[i as usize % 5]);
                s.lay = inv[0].lay;
                (vec![m], short(vec![s], false))
            }
            // ... or as a step of a short pipeline, with modifiers on the invocation
            7 => {
                let m = MacroDef { name: NAMES[0].into(), body: build_long_body(&m0, 300, 11, &[], &[]) };
                let mut s = plain(Target::Macro(0));
                apply_place(&mut s, &inv[0], &[0], true);
                let mut steps = vec![plain(el("addone", vec![])), s, plain(el("helmert", vec![kv("x", 2), kv("y", -3)]))];
                steps.rotate_left(pick(inv[0].a, 3));
                (vec![m], short(steps, true))
            }
            // a long macro body used (once or twice) as a step of a long pipeline
            8 | 9 | 10 => {
                let m = MacroDef { name: NAMES[0].into(), body: build_long_body(&m0, 140, 11, &[], &[]) };
                let n_inv = 1 + (shape == 10) as usize;
                let b = build_long_body(&main, 300, 13, &[0], &inv[..n_inv]);
                (vec![m], b)
            }
            // two long macro bodies nested, below a long pipeline
            11 => {
                let ma = MacroDef { name: NAMES[0].into(), body: build_long_body(&m0, 100, 11, &[], &[]) };
                let mb = MacroDef { name: NAMES[1].into(), body: build_long_body(&m1, 100, 12, &[0], &inv[..1]) };
                let b = build_long_body(&main, 150, 13, &[1], &inv[1..2]);
                (vec![ma, mb], b)
            }
            _ => (vec![], build_long_body(&main, 300, 13, &[], &[])),
        };
        let mut case = Case { macros, main, probes: long_probes(probes), excluded: vec![], bulk: None };
        strip_unsound_inv(&mut case);
        sanitize(&mut case, kn);
        strip_unsound_inv(&mut case);
        case
    })
}

// ---- long pipelines with ONE directional step, placed deterministically ----------------------------------

const PLACED_SIZES: [usize; 29] = [1, 2, 3, 5, 7, 8, 9, 15, 16, 17, 31, 32, 33, 63, 64, 65, 66, 70, 100, 127, 128, 129, 130, 200, 255, 256, 257, 258, 300];
const PLACED_CFG: usize = 11;
const PLACED_WHERE: usize = 4;

/// first, second, third, middle, third last, second last, last; k-1, k, k+1 for the edges k, counted from
/// the front and from the back
fn placed_positions(len: usize) -> Vec<usize> {
    let mut v: BTreeSet<usize> = BTreeSet::new();
    let mut put = |i: isize| {
        if i >= 0 && (i as usize) < len {
            v.insert(i as usize);
            v.insert(len - 1 - i as usize);
        }
    };
    for i in [0, 1, 2, len as isize / 2] {
        put(i);
    }
    for e in EDGES {
        for d in [-1, 0, 1] {
            put(e as isize + d);
        }
    }
    v.into_iter().collect()
}

fn placed_table() -> Vec<(usize, usize)> {
    PLACED_SIZES.iter().flat_map(|len| placed_positions(*len).into_iter().map(move |p| (*len, p))).collect()
}

/// `cross`: the place of the long pipeline is crossed with the rest (thorough); otherwise it rotates too
fn placed_case(table: &[(usize, usize)], i: usize, cross: bool) -> Case {
    let base = table.len() * PLACED_CFG * PLACED_WHERE;
    let rep = if cross { i / base } else { 0 }; // thorough: the rotations below start somewhere else
    let pair = i % table.len();
    let cfg = (i / table.len()) % PLACED_CFG;
    let wh = if cross { (i / table.len() / PLACED_CFG) % PLACED_WHERE } else { (pair + cfg) % PLACED_WHERE };
    let (len, pos) = table[pair];
    let osp = OMIT_SP[(pair * 7 + cfg * 3 + wh + rep) % 6];
    let osp2 = OMIT_SP[(pair * 5 + cfg + wh * 2 + rep + 1) % 6];
    let isp = INV_SP[(pair * 3 + cfg + wh + rep) % 5];
    let h = splitmix((i as u64) << 8 ^ 0xC03);
    let lay = if (pair + cfg + rep) % 3 == 0 { 0 } else { (h as u32) | 1 };
    // background: `inv` on one step in seven; configurations 9 and 10: every other step omitted in one direction
    let background = match cfg {
        9 => 3,
        10 => 4,
        _ => 1,
    };
    let mut long = long_body(len, (splitmix(len as u64 * 31 + rep as u64) as u32) | 1, 17, background, lay);
    // helper macros for the focus step
    let mut p2c = plain(el("addone", vec![]));
    p2c.omit_inv = Some(Sp::Sugar);
    let mut helpers = vec![
        MacroDef { name: "s:one".into(), body: Body { steps: vec![plain(el("helmert", vec![kv("x", 5), kv("z", -2)]))], piped: false, lay: 0, spicy: false } },
        MacroDef {
            name: "p:two".into(),
            body: Body { steps: vec![plain(el("helmert", vec![kv("x", 10)])), plain(el("axisswap", vec![kv("order", "2,1")])), p2c], piped: true, lay: 0, spicy: false },
        },
    ];
    let kind = (pair + cfg + wh + rep) % 3;
    let focus = &mut long.steps[pos];
    focus.lay = if lay == 0 { 0 } else { (h >> 32) as u32 | 1 };
    focus.inv = None;
    focus.omit_fwd = None;
    focus.omit_inv = None;
    if !matches!(cfg, 6 | 7 | 8) {
        match kind {
            1 => focus.target = Target::Macro(0),
            2 => focus.target = Target::Macro(1),
            _ => {}
        }
    }
    match cfg {
        0 => focus.inv = Some(isp),
        1 => focus.omit_fwd = Some(osp),
        2 => focus.omit_inv = Some(osp),
        3 => {
            focus.omit_fwd = Some(osp);
            focus.omit_inv = Some(osp2);
        }
        4 => {
            focus.inv = Some(isp);
            focus.omit_fwd = Some(osp);
        }
        5 => {
            focus.inv = Some(isp);
            focus.omit_inv = Some(osp);
        }
        6 => {
            // forward only: a wrongly executed inverse changes nothing but the count
            focus.target = if pair % 2 == 0 { el("gravity", vec![fl("grs80")]) } else { el("curvature", vec![fl("mean"), kv("ellps", "intl")]) };
            focus.omit_inv = Some(osp);
        }
        7 => {
            focus.target = el("cart", vec![]);
            focus.omit_fwd = Some(osp);
        }
        8 => {
            focus.target = el("cart", vec![kv("ellps", "intl")]);
            focus.omit_inv = Some(osp);
        }
        9 => focus.omit_inv = Some(osp), // the only step executed forward, the only one skipped inverse
        _ => focus.omit_fwd = Some(osp),
    }
    let inverted = (pair / 2 + cfg / 4 + rep) % 2 == 1;
    let invoke = |m: usize| {
        let mut s = plain(Target::Macro(m));
        if inverted {
            s.inv = Some(isp);
        }
        s.lay = if lay == 0 { 0 } else { (h >> 16) as u32 | 1 };
        s
    };
    let (macros, main) = match wh {
        0 => (helpers, long),
        1 => {
            helpers.push(MacroDef { name: "m:long".into(), body: long });
            (helpers, Body { steps: vec![invoke(2)], piped: false, lay, spicy: false })
        }
        2 => {
            helpers.push(MacroDef { name: "m:long".into(), body: long });
            (helpers, Body { steps: vec![plain(el("addone", vec![])), invoke(2), plain(el("helmert", vec![kv("x", 2), kv("y", -3)]))], piped: true, lay, spicy: false })
        }
        _ => {
            // a long macro body as a step (among the first or the last steps, or around the 64th from either end) of a long pipeline
            helpers.push(MacroDef { name: "m:long".into(), body: long });
            let outer_len = [70, 65, 129][pair % 3];
            let at = [outer_len - 1, 64, 0, outer_len - 65, 66 % outer_len, 3][(pair / 3 + cfg) % 6];
            let mut outer = long_body(outer_len, (splitmix(pair as u64 + 977) as u32) | 1, 19, 1, lay);
            outer.steps[at] = invoke(2);
            (helpers, outer)
        }
    };
    Case { macros, main, probes: long_probes(((pair + cfg) % 12) as u8), excluded: vec![], bulk: None }
}

/// the reference check, then the classes of the length dimension
fn check_long(case: &Case, known: &BTreeSet<String>, rec: &mut Rec) -> CaseResult {
    check(case, known, rec)?;
    let reach = reachable(case);
    let mut bodies: Vec<(&Body, &str)> = vec![(&case.main, "main")];
    for m in &reach {
        bodies.push((&case.macros[*m].body, "body"));
    }
    let mut longest_body = 0;
    for (b, place) in &bodies {
        if !b.piped {
            continue;
        }
        let len = b.steps.len();
        if *place == "body" {
            longest_body = longest_body.max(len);
        }
        rec.class(&format!("long:{place}:len={}", len_label(len)));
        let (mut of, mut oi, mut all_of, mut all_oi) = ([0u64; 3], [0u64; 3], true, true);
        for (i, s) in b.steps.iter().enumerate() {
            let back = len - 1 - i;
            let kind = if matches!(s.target, Target::Macro(_)) { "macro" } else { "elem" };
            if let Some(sp) = s.omit_fwd {
                rec.class(&format!("long:{place}:omit_fwd@forward-visit-index={}", visit_label(i)));
                if i >= 64 {
                    rec.class(&format!("long:omit_fwd-beyond-64th-visited:{kind}:{}", sp_name(sp)));
                }
                for (k, e) in [64, 128, 256].into_iter().enumerate() {
                    of[k] += (i >= e) as u64;
                }
            }
            if let Some(sp) = s.omit_inv {
                rec.class(&format!("long:{place}:omit_inv@inverse-visit-index={}", visit_label(back)));
                if back >= 64 {
                    rec.class(&format!("long:omit_inv-beyond-64th-visited:{kind}:{}", sp_name(sp)));
                }
                for (k, e) in [64, 128, 256].into_iter().enumerate() {
                    oi[k] += (back >= e) as u64;
                }
            }
            if s.inv.is_some() {
                rec.class(&format!("long:{place}:inv@index={}", visit_label(i)));
                rec.class(&format!("long:{place}:inv@index-from-end={}", visit_label(back)));
            }
            if let Target::Elem { name, .. } = &s.target {
                if one_way(name) && s.omit_inv.is_some() {
                    rec.class(&format!("long:count-only-witness(one-way step marked omit_inv)@inverse-visit-index={}", visit_label(back)));
                }
            }
            all_of &= s.omit_fwd.is_some();
            all_oi &= s.omit_inv.is_some();
        }
        for (k, e) in ["64", "128", "256"].into_iter().enumerate() {
            rec.count(&format!("omit_fwd_steps_at_forward_visit_index>={e}"), of[k]);
            rec.count(&format!("omit_inv_steps_at_inverse_visit_index>={e}"), oi[k]);
        }
        if len > 64 && (all_of || all_oi) {
            rec.class("long:every-step-omitted-in-one-direction(len>64)");
        }
    }
    if case.main.piped && case.main.steps.len() > 64 && longest_body > 64 {
        rec.class("long:macro-body(>64 steps)-as-a-step-of-a-pipeline(>64 steps)");
    }
    if !case.main.piped && longest_body > 64 {
        rec.class("long:macro-body(>64 steps)-invoked-alone");
    }
    if reach.len() >= 2 && bodies.iter().filter(|(b, p)| *p == "body" && b.piped && b.steps.len() > 64).count() >= 2 {
        rec.class("long:two-nested-macro-bodies(>64 steps)");
    }
    Ok(())
}

// ---- known findings (read only) -----------------------------------------------------------------------

fn load_known(root: &std::path::Path) -> BTreeSet<String> {
    let mut out = BTreeSet::new();
    for p in [root.join("known_findings.json"), root.join("known_findings.d").join("C03.json")] {
        let Ok(t) = std::fs::read_to_string(&p) else { continue };
        let Ok(v) = serde_json::from_str::<serde_json::Value>(&t) else { continue };
        if let Some(list) = v.get("findings").and_then(|l| l.as_array()) {
            for e in list {
                if e.get("property").and_then(|x| x.as_str()) == Some("C03") && e.get("status").and_then(|x| x.as_str()) == Some("known") {
                    if let Some(k) = e.get("key").and_then(|x| x.as_str()) {
                        out.insert(k.to_string());
                    }
                }
            }
        }
    }
    out
}

fn main() {
    let mut run = Run::init("C03");
    let known = load_known(&run.root);
    let kn = Known { d1: known.contains(K_D1), d3a: known.contains(K_D3A), d3b: known.contains(K_D3B), d4: known.contains(K_D4) };
    run.note("known_classes_excluded_by_construction", serde_json::json!(known.iter().collect::<Vec<_>>()));
    run.assume("the reference instantiates every elementary step on its own through the same ctx.op / ctx.apply (same operator code): only composition, order, direction, omission and counting are checked, not the numerics of the operators");
    run.assume("omit_fwd / omit_inv are generated only on steps of a pipeline (a definition or macro body containing a step delimiter), as documented; omit_*=false and repeated modifiers are not generated; key=true forms only after the operator name");
    run.assume("an operator without an inverse (gravity, curvature) applied in the inverse direction behaves like its stand-alone instance: data untouched, count 0 (the placeholder of the library); inv is never put on such an operator nor on a macro with an unshielded one below it (NonInvertible / not promised)");
    run.assume("a definition instantiated after register_resource means what its text means under the registrations in force at that moment (handles obtained earlier are not examined: C18)");
    run.assume("macros are invoked without ordinary arguments (argument passing is C04); stack/push/pop steps are excluded (C12)");
    run.assume("containers: a stand-alone operator applied to a narrow container stores its result there, so a step of the sequential reference sees what the container returns from get_coord after the previous step (Coor2D: z = 0, t = NaN; Coor3D: t = NaN; Coor32: f32 values; wrappers: their fixed height / epoch) - the library's documented behaviour for pipelines on such containers; the reference uses the library's own containers, so get_coord/set_coord themselves are not checked here (C14)");
    run.assume("a case in which a stand-alone step panics is skipped (robustness is C09); NaN results are compared as equal whatever their payload");

    // 1. exhaustive: every subset of the three modifiers x every spelling on one focus step
    {
        let known = known.clone();
        run.enumerate(
            "spelling-matrix",
            "one focus step (addone / cart ellps= / latitude flag ellps= / macro with single-operator body / macro with pipeline body with a directional step / macro nesting an inverted macro) carrying every subset of {inv, omit_fwd, omit_inv} in every spelling (inv: prefix, infix, suffix, infix=true, suffix=true; omit_*: the same plus < > sugar; 294 combinations) x 8 contexts (alone, first, middle, last in the definition; first, middle, last in a macro body; in an inverted macro body) x plain and seeded layout; 3 probe tuples incl. one NaN tuple (so that counts differ between steps)",
            N_COMBO * N_KIND * N_CTX * N_LAYOUT,
            matrix_case,
            move |c: &Case, rec: &mut Rec| check(c, &known, rec),
        );
    }

    // 1b. exhaustive: steps without an inverse (gravity, curvature), plain / omit_fwd / omit_inv, elementary and behind macros
    {
        let known = known.clone();
        run.enumerate(
            "one-way-matrix",
            "one focus step without an inverse (gravity grs80 / curvature mean ellps= / macro g:normal = 'gravity grs80' / macro with pipeline body 'addone | curvature mean | addone inv' / macro nesting g:normal two levels down / macro whose gravity step is marked '>' inside) carrying every subset of {omit_fwd, omit_inv} in every spelling (49 combinations, the modifier of a macro focus is on the invocation) x the 8 contexts of spelling-matrix (the enclosing macro is inverted only if the focus is shielded by omit_inv) x plain and seeded layout; both directions: an executed inverse of a one-way step leaves the data alone and reports 0 like the stand-alone operator, the other steps must still run in reverse order",
            OW_COMBO * OW_KIND * N_CTX * N_LAYOUT,
            one_way_matrix_case,
            move |c: &Case, rec: &mut Rec| check(c, &known, rec),
        );
    }

    // 2. random pipelines
    {
        let n = run.scale(100_000, 1_200_000);
        let (max_main, max_body) = if run.is_thorough() { (12, 6) } else { (8, 4) };
        let known = known.clone();
        run.section(
            "random-pipelines",
            "definitions of 1..8 steps (thorough: 1..12) over 13 invertible elementary operators (addone, helmert translation/7-parameter, axisswap, unitconvert, adapt, noop aliases, utm, tmerc, cart, merc, webmerc, latitude) plus, for 8% of the elementary steps, the operators without an inverse (gravity, curvature: never with inv, about half of them - and of the macro invocations above them - marked omit_inv, a macro is inverted only if all one-way steps below it are shielded by omit_inv) and up to 6 user macros (single operator, alias of another macro, or pipeline of 1..4 steps (thorough: 1..6) with directional steps; nested to depth 3); every step draws inv (40%) / omit_fwd (17%) / omit_inv (17%) with a random spelling and position, random layout (blanks, tabs, line breaks, continuation colons, comments, leading delimiter, blanks around '='); 0..8 probe tuples (geographic, projected, cartesian, small integers, NaN, inf, 1e300); non-trivial = some modifier present and >= 2 elementary steps executed in some direction; distinct by spelled AST",
            n,
            move || random_case(kn, max_main, max_body, 0.38),
            move |c: &Case, rec: &mut Rec| check(c, &known, rec),
        );
    }

    // 3. macro-heavy: short definitions, every step a macro if possible, to concentrate on nesting
    {
        let n = run.scale(50_000, 500_000);
        let known = known.clone();
        run.section(
            "nested-macros",
            "as random-pipelines but definitions of 1..3 steps and macro bodies of 1..3 steps, so that most executed steps sit 2-3 macro levels deep and the modifiers of invocations at several levels interact",
            n,
            move || random_case(kn, 3, 3, 0.8),
            move |c: &Case, rec: &mut Rec| check(c, &known, rec),
        );
    }

    // 4. registration histories: the same definition texts instantiated again after a macro was re-registered
    {
        let n = run.scale(6_000, 150_000);
        run.section(
            "registration-history",
            "one long-lived context (Minimal or Plain): register 2..6 no-argument macros (nested up to depth 3, invertible operators only), then 1..3 rounds of {instantiate each of 1..3 definitions (pipelines / single steps over the macros, byte-identical text every round) and compare with the reference; re-register ONE macro (leaf, middle or top of the nesting) with a different body, leaving all others alone}, then instantiate all definitions once more; after every instantiation the handle must equal, bit for bit and in the counts, both directions, the reference interpreter run on the CURRENT registrations with stand-alone elementary steps instantiated in a separate context that never sees a macro; non-trivial = some re-registration changes the meaning of a definition that reaches the macro only through other macros; distinct by spelled ASTs",
            n,
            move || history_case(kn),
            check_history,
        );
    }

    // 5. large operand sets: the count must be the minimum over the steps of the counts over the WHOLE set
    {
        let n = run.scale(600, 10_000);
        let known = known.clone();
        run.section(
            "large-sets",
            "pipelines of 1..4 steps (and up to 3 macros with bodies of 1..3 steps), 60% of the elementary steps drawn from the operators that refuse single tuples without counting them (cart, utm, tmerc; the others pass a NaN on and count it), all modifiers and spellings as in random-pipelines, applied in both directions to ONE set of 1023..5000 tuples (sizes around k*1024 +-1 and random): benign tuples computed from their index (geographic / projected / cartesian / small numbers) with 2..6 fault tuples (NaN, inf, 1e25, 1e9, far-off longitude) placed in different thirds of the set; half of the cases have the shape cart | <passers> | utm zone=32 inv on geographic input with one tuple refused by cart only and one by the inverse utm only; reference = stand-alone steps over the whole set, coordinates bit for bit, count = minimum over the executed steps; non-trivial = the count is sensitive to how the set is cut (sum over 1024-chunks of per-chunk minima != minimum of the per-step counts, measured with the reference)",
            n,
            move || bulk_case(kn),
            move |c: &Case, rec: &mut Rec| check(c, &known, rec),
        );
    }

    // 6. operand containers of every kind: the stand-alone steps are applied to a container of the same kind
    {
        let n = run.scale(40_000, 600_000);
        run.section(
            "containers",
            "container kind = {Coor4D (10%), Coor3D, Coor2D, Coor32 (30% each)} x {Vec, array of 4, &mut slice} x {plain (60%), (set, height, epoch), (set, epoch)} (36 kinds; fixed height 0 / random / 1234.5, fixed epoch incl. NaN) x definition: 40% as in random-pipelines (1..5 steps, macros with bodies of 1..3 steps), 60% one of 12 pipeline shapes whose intermediate results need more than a narrow container holds (cart | helmert | cart inv datum shifts with 3- and 7-parameter helmert, the same followed by utm, cart | addone | cart inv, geographic -> cartesian -> geographic twice, utm | helmert | utm inv, merc | helmert | webmerc inv | latitude, height moved through the axes by 3-D axisswaps, epoch moved through the axes by 4-D axisswaps, unitconvert of heights followed by a datum shift, 4-D adapt descriptors around a helmert, translations from 1e-9 to 1000.5 i.e. far below and above an f32 ulp of the operands) with inv as the shape says in a drawn spelling, omit_fwd / omit_inv drawn per step as elsewhere, 0..2 random catalogue steps in between, random layout, and the pipeline either in the definition itself, behind a macro invoked alone or as a step (with drawn inv / omit_*), with one step behind a single-operator macro, or with its first two steps behind one or two nested macros; 1..6 operand tuples in the domain of the shape (exactly 4 for arrays), 19% with a NaN; ORACLE: the library applies the definition to a container of that kind, the reference applies the stand-alone steps one after another to a second container of the SAME kind built from the same operands (so what a step hands to the next one is what the container can hold: z/t dropped, f32 rounding, fixed height/epoch of the wrappers): the stored elements must agree bit for bit and the counts must be equal, both directions; non-trivial = narrowing-sensitive: the same stand-alone steps on a dense 4-D copy of the operands, stored into the container once at the end, give different stored elements (measured with the reference); distinct by container label + spelled AST",
            n,
            move || container_case(kn),
            check_container,
        );
    }

    // 7. long pipelines, one directional step at the first / last / k-th / (len-k)-th positions
    {
        let table = placed_table();
        let base = table.len() * PLACED_CFG * PLACED_WHERE;
        let cross = run.is_thorough();
        let n = if cross { 3 * base } else { table.len() * PLACED_CFG };
        run.note("long_pipelines_placed_length_position_pairs", serde_json::json!(table.len()));
        let known = known.clone();
        run.sweep(
            "long-pipelines-placed",
            "pipelines of len = 1,2,3,5,7,8,9, 15..17, 31..33, 63..66, 70, 100, 127..130, 200, 255..258, 300 steps (cheap operators with finite, distinct results: addone, helmert translations by small integers, axisswap, noop; `inv` on one background step in seven) x ONE focus step at every position among: first three, middle, last three, and k-1, k, k+1 counted from the front and from the back for k = 8, 16, 32, 64, 128, 256 (all (len, position) pairs) x 11 configurations of the focus {inv; omit_fwd; omit_inv; both; inv+omit_fwd; inv+omit_inv; a one-way operator (gravity / curvature) marked omit_inv, whose wrongly executed inverse shows in the count only; cart marked omit_fwd resp. omit_inv with a NaN tuple among the operands (count n-1); every OTHER step omit_fwd and the focus omit_inv; every other step omit_inv and the focus omit_fwd} x 4 places of the long pipeline {the definition; a macro body invoked alone; a macro body as a step of a 3-step pipeline; a macro body as a step (first, last, 64th/65th from either end) of another pipeline of 65 / 70 / 129 steps} (quick: the place rotates with position and configuration, thorough: crossed), the invocation inverted in every other case; focus = elementary step / single-operator macro / macro with a pipeline body with a directional step, spellings (all six incl. < > sugar, five for inv) and plain / seeded layout rotate with the index (thorough: three rotations); 1..3 operand tuples; both directions, coordinates bit for bit and counts against the stand-alone steps applied one after another",
            n,
            move |i| placed_case(&table, i, cross),
            move |c: &Case, rec: &mut Rec| check_long(c, &known, rec),
        );
    }

    // 8. long pipelines, random
    {
        let n = run.scale(2_500, 100_000);
        let known = known.clone();
        run.section(
            "long-pipelines",
            "pipelines of 1..300 steps: 70% of the lengths from {1..10, 12, 15..17, 20, 24, 31..33, 40, 48, 63..67, 70, 80, 96, 100, 120, 127..130, 140, 160, 192, 200, 255..258, 260, 280, 300}, 20% uniform in 1..300, 10% uniform in 60..140; steps drawn from the cheap operators of long-pipelines-placed; background {no modifiers; inv on 1 step in 7; dense: inv 30% / omit_fwd 10% / omit_inv 10% per step in drawn spellings; every step omit_fwd; every step omit_inv} plus 0..4 placed steps {anywhere; k-2..k+2 from the front resp. from the back for an edge k in 8..256; among the first / the last three} carrying a drawn subset of inv / omit_fwd / omit_inv in drawn spellings, the placed step being left as it is (50%), replaced by a one-way operator marked omit_inv (count-only witness), or by cart (counts n-1 with a NaN tuple); shapes: the definition itself (50%), a long macro body invoked alone (with or without inv) or as a step of a 3-step pipeline with modifiers on the invocation, a long macro body (up to 140 steps) used once or twice as a step (placed like the other placed steps, with drawn modifiers) of a long pipeline, two long macro bodies (up to 100 steps each) nested below a pipeline of up to 150 steps; random delimiter layout, token layout on one step in four; 1..3 operand tuples (integers, decimals, one with NaN); both directions, coordinates bit for bit and counts against the stand-alone steps; non-trivial = some modifier present and >= 2 steps executed; distinct by spelled AST",
            n,
            move || long_case(kn),
            move |c: &Case, rec: &mut Rec| check_long(c, &known, rec),
        );
    }

    run.finish("generated definition ASTs (pipelines of 1..12 steps in general and of 1..300 steps, concentrated around powers of two, over cheap operators; macros nested to depth 3, all modifier spellings and positions, random layout) executed by the library and by a reference interpreter that applies the stand-alone elementary steps sequentially through the same public API; results compared bit for bit together with the counts, in both directions; one focus step enumerated exhaustively over all modifier subsets x spellings x 8 contexts; operands in all 36 container kinds (Coor4D/3D/2D/32 x Vec/array/slice x plain/(set,h,t)/(set,t)) with the reference applied to a container of the same kind, on pipelines whose intermediate results do not survive narrowing");
}
