//! C04 — a macro invocation means its expansion, and macro resolution always terminates.
//!
//! (a) Reference expander (written from Rumination 009 + the property statement): from a
//!     library of macros and an invocation it produces a macro-free *literal* definition
//!     (every caller argument rendered as an explicit `k=v` pair on every step, `$n`,
//!     `$n(d)`, `(d)` resolved in the *caller's* scope at the point of invocation, step
//!     local literals win, an inverted invocation = reversed body with every step
//!     inverted). `ctx.op(invocation)` and `ctx.op(literal)` must both fail or both succeed
//!     and, when they succeed, behave bit-identically in both directions; an inverted
//!     invocation must equal the literal applied in the opposite direction. Directional steps
//!     (`omit_fwd`, `omit_inv`, `<`, `>`) of a pipeline body belong to the body: when an inverted
//!     invocation runs the body backwards, the literal has omit_fwd and omit_inv exchanged.
//!     Parameter names are drawn from a pool spanning the whole lexical order relative to the
//!     keys the library keeps in the same maps (`_name`, `ellps`, `inv`, `omit_fwd`, `omit_inv`).
//! (b) Arbitrary resource graphs (cycles of length 1..8, branching pipeline bodies, missing
//!     names) and chains of depth 0..60: `ctx.op` returns Ok or Err, never panics, never
//!     overflows the stack, never hangs (watchdog = violation); a reachable cycle or a
//!     missing macro must give Err; acyclic complete graphs go through oracle (a).

use geodesy::prelude::*;
use proptest::prelude::*;
use serde::{Deserialize, Serialize};
use geodesy::authoring::{BaseGrid, Grid};
use std::collections::{BTreeMap, BTreeSet};
use std::sync::Arc;
use std::time::Duration;
use vcore::geo::*;
use vcore::gridctx::{gravsoft_text, GridCtx};
use vcore::*;

// ---- definition AST -----------------------------------------------------------------

#[derive(Clone, Debug, Serialize, Deserialize, PartialEq, Eq, Hash)]
enum Val {
    Lit(String),            // k=v
    Ref(String),            // k=$n
    RefDef(String, String), // k=$n(d)
    Def(String),            // k=(d)
    Flag,                   // k
}

#[derive(Clone, Debug, Serialize, Deserialize, PartialEq, Eq, Hash)]
struct Arg {
    key: String,
    val: Val,
}

#[derive(Clone, Copy, Debug, Serialize, Deserialize, PartialEq, Eq, Hash)]
enum InvPos {
    No,
    Prefix, // inv name k=v
    Infix,  // name inv k=v
    Suffix, // name k=v inv
}

/// Directional omission of a pipeline step (Rumination 009: `omit_fwd` / `omit_inv`, with the
/// one-way separators `<` / `>` as syntactic sugar) and how it is spelled
#[derive(Clone, Copy, Debug, Default, Serialize, Deserialize, PartialEq, Eq, Hash)]
struct Omit {
    fwd: bool, // the step is left out when its pipeline runs forward
    inv: bool, // the step is left out when its pipeline runs in the inverse direction
    /// 0: one-way separator in front of the step (`a > b` = omit_inv, `a < b` = omit_fwd; falls back
    /// to 1 on the first step of a pipeline and when both flags are set), 1: word(s) before the
    /// operator name, 2: right after the name, 3: after all arguments, 4: `omit_fwd=true` at the end
    form: u8,
}

impl Omit {
    const NONE: Omit = Omit { fwd: false, inv: false, form: 0 };
    fn any(self) -> bool {
        self.fwd || self.inv
    }
    fn by_separator(self, first: bool) -> bool {
        self.form == 0 && !first && (self.fwd != self.inv)
    }
    fn words(self) -> Vec<String> {
        let mut w = vec![];
        let v = if self.form == 4 { "=true" } else { "" };
        if self.fwd {
            w.push(format!("omit_fwd{v}"));
        }
        if self.inv {
            w.push(format!("omit_inv{v}"));
        }
        w
    }
}

#[derive(Clone, Debug, Serialize, Deserialize, PartialEq, Eq, Hash)]
struct Step {
    op: String, // built-in operator name, or macro name (contains ':')
    args: Vec<Arg>,
    inv: InvPos,
    #[serde(default)]
    omit: Omit,
}

#[derive(Clone, Debug, Serialize, Deserialize, PartialEq, Eq, Hash)]
struct Macro {
    name: String,
    body: Vec<Step>, // one step: single operator body; several: pipeline body
}

#[derive(Clone, Debug, Serialize, Deserialize)]
struct Case {
    ctx: u8, // 0 Minimal, 1 Plain, 2 user context (GridCtx)
    lib: Vec<Macro>,
    top: Vec<Step>,
    /// when the invocation is a single, non-inverted macro step: also instantiate it with `inv`
    /// in this position and compare with the literal applied in the opposite direction
    twin: InvPos,
    /// number of invocation arguments rewritten to literals by the generator in order to stay
    /// outside registered defect classes (evidence only)
    excluded_known: u32,
}

impl Arg {
    fn text(&self) -> String {
        match &self.val {
            Val::Lit(v) => format!("{}={}", self.key, v),
            Val::Ref(n) => format!("{}=${}", self.key, n),
            Val::RefDef(n, d) => format!("{}=${}({})", self.key, n, d),
            Val::Def(d) => format!("{}=({})", self.key, d),
            Val::Flag => self.key.clone(),
        }
    }
}

impl Step {
    fn is_macro(&self) -> bool {
        self.op.contains(':')
    }
    /// the step without its directional modifiers
    fn text_with(&self, inv: InvPos) -> String {
        self.text_full(inv, false)
    }
    /// `omit_words`: spell the directional modifiers as words (otherwise they are left to the
    /// one-way separator in front of the step, see `steps_text`)
    fn text_full(&self, inv: InvPos, omit_words: bool) -> String {
        let words = if omit_words { self.omit.words() } else { vec![] };
        let mut parts: Vec<String> = vec![];
        if matches!(self.omit.form, 0 | 1) {
            parts.extend(words.iter().cloned());
        }
        if inv == InvPos::Prefix {
            parts.push("inv".into());
        }
        parts.push(self.op.clone());
        if self.omit.form == 2 {
            parts.extend(words.iter().cloned());
        }
        if inv == InvPos::Infix {
            parts.push("inv".into());
        }
        for a in &self.args {
            parts.push(a.text());
        }
        if inv == InvPos::Suffix {
            parts.push("inv".into());
        }
        if self.omit.form >= 3 {
            parts.extend(words.iter().cloned());
        }
        parts.join(" ")
    }
    fn text(&self) -> String {
        self.text_full(self.inv, true)
    }
}

fn steps_text(steps: &[Step]) -> String {
    let mut out = String::new();
    for (i, s) in steps.iter().enumerate() {
        let sep = s.omit.by_separator(i == 0);
        if i > 0 {
            out.push_str(if !sep { " | " } else if s.omit.inv { " > " } else { " < " });
        }
        out.push_str(&s.text_full(s.inv, !sep));
    }
    out
}

// ---- built-in operators used as leaves: their complete gamuts -------------------------

struct Leaf {
    name: &'static str,
    /// numeric keys the generator binds
    num: &'static [&'static str],
    /// takes an `ellps`
    ellps: bool,
    /// flag-typed keys the generator binds (`inv` included: it is an ordinary flag of the operator)
    flags: &'static [&'static str],
    /// every key the operator's constructor looks up (so: every caller argument it can see)
    gamut: &'static [&'static str],
    /// key that must be present for the operator to instantiate
    required: Option<&'static str>,
}

const LEAVES: [Leaf; 15] = [
    Leaf {
        name: "helmert",
        num: &["x", "y", "z", "s", "x", "y", "z", "s", "x", "y", "dx", "t_epoch"],
        ellps: false,
        flags: &["exact", "inv"],
        gamut: &[
            "inv", "translation", "x", "y", "z", "velocity", "dx", "dy", "dz", "rotation", "rx", "ry", "rz", "angular_velocity", "drx", "dry",
            "drz", "convention", "exact", "scale", "s", "scale_trend", "ds", "t_epoch", "t_obs",
        ],
        required: None,
    },
    Leaf { name: "utm", num: &["zone"], ellps: true, flags: &["south", "inv", "south"], gamut: &["inv", "south", "ellps", "zone"], required: Some("zone") },
    Leaf {
        name: "tmerc",
        num: &["lat_0", "lon_0", "k_0", "x_0", "y_0"],
        ellps: true,
        flags: &["inv"],
        gamut: &["inv", "ellps", "lat_0", "lon_0", "x_0", "y_0", "k_0"],
        required: None,
    },
    Leaf { name: "cart", num: &[], ellps: true, flags: &["inv"], gamut: &["inv", "ellps"], required: None },
    Leaf { name: "addone", num: &[], ellps: false, flags: &["inv"], gamut: &["inv"], required: None },
    // (noop has no `inv` in its gamut)
    Leaf { name: "noop", num: &[], ellps: false, flags: &[], gamut: &[], required: None },
    // only reached through the built-in macros geo:in ... enu:out
    Leaf { name: "adapt", num: &[], ellps: false, flags: &[], gamut: &["inv", "from", "to"], required: None },
    // only in the enumeration of binding forms (flag-typed keys)
    Leaf { name: "geodesic", num: &[], ellps: true, flags: &["reversible", "inv"], gamut: &["inv", "reversible", "ellps"], required: None },
    Leaf {
        name: "latitude",
        num: &[],
        ellps: true,
        flags: &["geocentric", "inv"],
        gamut: &["inv", "geocentric", "reduced", "parametric", "conformal", "authalic", "rectifying", "ellps"],
        required: None,
    },
    // only in the sections on typed parameters ('typed-bindings', 'typed-mixed')
    Leaf { name: "axisswap", num: &[], ellps: false, flags: &[], gamut: &["inv", "order"], required: None },
    Leaf { name: "unitconvert", num: &[], ellps: false, flags: &[], gamut: &["inv", "xy_in", "xy_out", "z_in", "z_out"], required: None },
    // (stack has no `inv` in its gamut: the pipeline it is a step of decides what it does)
    Leaf { name: "stack", num: &[], ellps: false, flags: &[], gamut: &["push", "pop", "roll", "unroll", "flip", "swap", "drop"], required: None },
    Leaf { name: "gridshift", num: &[], ellps: false, flags: &[], gamut: &["inv", "grids", "padding"], required: Some("grids") },
    Leaf { name: "deformation", num: &[], ellps: true, flags: &[], gamut: &["inv", "raw", "grids", "padding", "dt", "t_epoch", "ellps"], required: Some("grids") },
    Leaf { name: "merc", num: &[], ellps: true, flags: &[], gamut: &["inv", "ellps", "lat_0", "lon_0", "x_0", "y_0", "k_0", "lat_ts"], required: None },
];

fn leaf_spec(name: &str) -> Option<&'static Leaf> {
    LEAVES.iter().find(|l| l.name == name)
}

/// Macros every context registers in `new()` (src/context/mod.rs: BUILTIN_ADAPTORS)
const BUILTIN_MACROS: [(&str, &str, &str); 8] = [
    ("geo:in", "from", "neuf_deg"),
    ("geo:out", "to", "neuf_deg"),
    ("gis:in", "from", "enuf_deg"),
    ("gis:out", "to", "enuf_deg"),
    ("neu:in", "from", "neuf"),
    ("neu:out", "to", "neuf"),
    ("enu:in", "from", "enuf"),
    ("enu:out", "to", "enuf"),
];

/// parameter names: deliberately in no particular lexical relation to the operator keys
const NUM_POOL: [&str; 26] = [
    "a", "x", "inv_x", "zone", "b", "omit", "k_0", "y", "invf", "c", "lon_0", "fwd", "z", "s", "xinv", "lat_0", "p", "omit_fwd_x", "n", "x_0",
    "x_inv", "q", "in", "m", "omit_inv2", "name",
];
/// ordinary parameter names that are near-misses of the modifiers inv / omit_fwd / omit_inv (and of
/// the internal `_name`): plain names for the reference expander, and so they must be for the library
const NEAR_MISS: [&str; 10] = ["inv_x", "invf", "xinv", "x_inv", "omit_fwd_x", "omit", "omit_inv2", "fwd", "in", "name"];
const ELL_POOL: [&str; 4] = ["ellps", "e", "ellps_in", "ell"];
const NUM_LITS: [&str; 16] = ["1", "2", "3", "5", "7", "10", "32", "33", "60", "12", "4", "21", "45", "0.25", "-3", "100"];
const ELL_LITS: [&str; 6] = ["GRS80", "intl", "bessel", "WGS84", "clrk66", "krass"];

/// names of flag-typed macro parameters (bound to a bare word or `true` only)
const FLAG_POOL: [&str; 5] = ["back", "f", "south", "exact", "g"];
const FLAG_LITS: [&str; 1] = ["true"];
const FLAG_KEYS: [&str; 5] = ["inv", "south", "exact", "reversible", "geocentric"];

fn is_ell_name(n: &str) -> bool {
    ELL_POOL.contains(&n)
}
fn is_flag_name(n: &str) -> bool {
    FLAG_POOL.contains(&n) || FLAG_KEYS.contains(&n)
}
/// parameter types: 0 numeric, 1 ellipsoid name, 2 flag
fn pool_of(ty: u8) -> &'static [&'static str] {
    match ty {
        0 => &NUM_POOL,
        1 => &ELL_POOL,
        _ => &FLAG_POOL,
    }
}
fn lits_of(ty: u8) -> &'static [&'static str] {
    match ty {
        0 => &NUM_LITS,
        1 => &ELL_LITS,
        _ => &FLAG_LITS,
    }
}

// ---- the reference expander -------------------------------------------------------------

/// (site, step, argument): site -1 = the invocation text, otherwise index into the library
type ArgId = (i16, u8, u8);

/// Structural features of an invocation argument in binding form. The library copies such
/// arguments verbatim into a flat map and resolves them lazily with a single forward pass over
/// the sorted map (DESIGN §5 #2); these are the situations in which that differs from
/// resolution in the caller's scope. Used only to *name* the defect class of a failure.
#[derive(Clone, Copy, Debug, PartialEq, Eq, PartialOrd, Ord, Hash)]
enum Feat {
    LateBound,   // k=$n, the caller has no (resolvable) n, but a deeper invocation binds n before k is used
    Same,        // k=$k   (forwarding under the same name)
    Asc,         // k=$n with n sorting after k
    ParenShadow, // k=(d) on an invocation while the caller has a k
    Default2,    // k=$n(d) on an invocation (the default form met at the second hop of a look-up)
    Shadow,      // k=$n where n is re-bound by a deeper invocation before the value is used
    Paren,       // k=(d) on an invocation, caller has no k
}

impl Feat {
    fn name(self) -> &'static str {
        match self {
            Feat::LateBound => "absent-name-bound-later",
            Feat::Same => "same-name",
            Feat::Asc => "ascending-name",
            Feat::ParenShadow => "paren-default-hides-caller-value",
            Feat::Default2 => "dollar-default-form",
            Feat::Shadow => "rebound-name",
            Feat::Paren => "paren-default",
        }
    }
}

#[derive(Clone, Debug)]
struct EnvVal {
    text: Option<String>, // None: `$n` whose n the caller does not have
    flag: bool,
    id: u32,
    feats: Vec<(Feat, ArgId)>,
    /// (name looked up in the caller's scope, binding found there, argument, that binding was unresolvable)
    deps: Vec<(String, Option<u32>, ArgId, bool)>,
    hops: u8,      // number of invocation arguments in binding form the value passed through
    origin: usize, // nesting depth of the invocation that supplied the text
    ctx_default: bool,
    /// a default form (`$n(d)`, `(d)`) on an invocation argument met an unresolvable value:
    /// whether that means "absent" (default) or "error" is not specified
    murky: bool,
}

type Env = BTreeMap<String, EnvVal>;

#[derive(Clone, Debug)]
struct LeafLit {
    op: String,
    params: BTreeMap<String, (String, bool)>,
    inv: bool,
    /// left out when the *literal* runs forward / inverse
    omit_fwd: bool,
    omit_inv: bool,
}

impl LeafLit {
    fn text(&self) -> String {
        let mut s = self.op.clone();
        for (k, (v, flag)) in &self.params {
            s.push(' ');
            s.push_str(k);
            if !flag {
                s.push('=');
                s.push_str(v);
            }
        }
        if self.inv {
            s.push_str(" inv");
        }
        if self.omit_fwd {
            s.push_str(" omit_fwd");
        }
        if self.omit_inv {
            s.push_str(" omit_inv");
        }
        s
    }
}

#[derive(Default, Debug)]
struct Expansion {
    leaves: Vec<LeafLit>,
    unsafe_feats: BTreeSet<(Feat, ArgId)>,
    unspecified: Vec<String>,
    expect_err: Vec<String>,
    missing: Vec<String>,
    max_level: usize,
    max_depth: usize,
    nontrivial: bool,
    prefix_macro: bool,
    overflow: bool,
    forms: BTreeMap<String, u64>,
    hops_max: u8,
    safe_hops: u64,
    /// one-way steps: (directional steps met, those met inside an invocation inverted an odd number
    /// of times, leaves that inherit a directional omission from an enclosing invocation)
    one_way: (u64, u64, u64),
    /// largest number of inverted invocations enclosing a directional step
    one_way_inversions: u8,
}

impl Expansion {
    fn literal(&self) -> String {
        self.leaves.iter().map(|l| l.text()).collect::<Vec<_>>().join(" | ")
    }
    /// the failure key: names the registered defect class the input belongs to, if any
    fn key(&self, base: &str) -> String {
        if self.prefix_macro {
            return "macro-inv-prefix-ignored".into();
        }
        if let Some((f, _)) = self.unsafe_feats.iter().next() {
            return format!("nested-arg-{}", f.name());
        }
        base.to_string()
    }
}

/// What a definition inherits from the invocations enclosing it
#[derive(Clone, Copy, Debug, Default)]
struct Frame {
    /// run backwards: an odd number of the enclosing invocations are inverted
    flip: bool,
    /// directional omissions of the enclosing invocation steps, in terms of the literal's direction
    omit_fwd: bool,
    omit_inv: bool,
    /// some enclosing invocation step carries a directional omission (evidence only)
    inherited: bool,
    /// number of inverted enclosing invocations (evidence only)
    inversions: u8,
}

struct Expander {
    lib: BTreeMap<String, (i16, Vec<Step>)>,
    next_id: u32,
    out: Expansion,
    budget: usize,
    /// the parameter being resolved is a flag-typed operator key (evidence only)
    cur_flag: bool,
}

fn lit_val(text: &str, origin: usize) -> EnvVal {
    EnvVal { text: Some(text.to_string()), flag: false, id: 0, feats: vec![], deps: vec![], hops: 0, origin, ctx_default: false, murky: false }
}

impl Expander {
    fn new(lib: &[Macro]) -> Expander {
        let mut map: BTreeMap<String, (i16, Vec<Step>)> = BTreeMap::new();
        for (name, key, v) in BUILTIN_MACROS {
            let body = vec![Step { omit: Omit::NONE, op: "adapt".into(), args: vec![Arg { key: key.into(), val: Val::Lit(v.into()) }], inv: InvPos::No }];
            map.insert(name.to_string(), (-2, body));
        }
        for (i, m) in lib.iter().enumerate() {
            // later registrations replace earlier ones, as in the contexts
            map.insert(m.name.clone(), (i as i16, m.body.clone()));
        }
        Expander { lib: map, next_id: 1, out: Expansion::default(), budget: 20_000, cur_flag: false }
    }

    fn initial_env() -> Env {
        // every context's globals(): ellps=GRS80
        let mut e = Env::new();
        let mut v = lit_val("GRS80", 0);
        v.ctx_default = true;
        e.insert("ellps".into(), v);
        e
    }

    /// The whole invocation text: the level bookkeeping mirrors RawParameters::new/next so that
    /// equivalence is only asserted far from the recursion breaker.
    fn run_top(mut self, top: &[Step]) -> Expansion {
        let env = Self::initial_env();
        let level = if top.len() == 1 && top[0].is_macro() { 2 } else { 0 };
        self.def(top, -1, &env, Frame::default(), level, 0);
        self.out
    }

    /// One definition text (the invocation, or the body of a macro). `fr.flip`: it is run backwards
    /// (an odd number of the enclosing invocations are inverted): the literal lists its steps in
    /// reverse order, each inverted. A directional omission (`omit_fwd`, `omit_inv`, `<`, `>`) is
    /// a property of a step *of a pipeline*, relative to the direction that pipeline is run in:
    /// when the pipeline is run backwards by an inverted invocation, a step it omits in its own
    /// inverse direction is one the literal omits in its forward direction and vice versa; a step
    /// that is a macro invocation hands its omissions on to everything it expands to.
    fn def(&mut self, steps: &[Step], site: i16, env: &Env, fr: Frame, level: usize, depth: usize) {
        self.out.max_level = self.out.max_level.max(level);
        if steps.len() == 1 {
            if steps[0].omit.any() {
                // only pipelines omit steps; what a directional modifier on a lone operator means
                // (nothing? something for the pipeline that invokes the macro?) is not specified
                self.out.unspecified.push(format!("'{}': directional modifier on a definition that is not a pipeline", steps[0].text()));
            }
            self.step(&steps[0], site, 0, env, fr, level, depth);
            return;
        }
        let order: Vec<usize> = if fr.flip { (0..steps.len()).rev().collect() } else { (0..steps.len()).collect() };
        for i in order {
            let l = level + 1 + steps[i].is_macro() as usize;
            let o = steps[i].omit;
            let mut f = fr;
            if o.any() {
                let (of, oi) = if fr.flip { (o.inv, o.fwd) } else { (o.fwd, o.inv) };
                f.omit_fwd |= of;
                f.omit_inv |= oi;
                self.out.one_way.0 += 1;
                self.out.one_way.1 += fr.flip as u64;
                self.out.one_way_inversions = self.out.one_way_inversions.max(fr.inversions);
            }
            self.step(&steps[i], site, i, env, f, l, depth);
        }
    }

    fn step(&mut self, st: &Step, site: i16, idx: usize, env: &Env, fr: Frame, level: usize, depth: usize) {
        if self.out.overflow {
            return;
        }
        self.out.max_level = self.out.max_level.max(level);
        self.out.max_depth = self.out.max_depth.max(depth);
        let flip = fr.flip;
        let eff = flip ^ (st.inv != InvPos::No);
        if st.is_macro() {
            if st.inv == InvPos::Prefix {
                self.out.prefix_macro = true;
            }
            let Some((msite, body)) = self.lib.get(&st.op).cloned() else {
                self.out.missing.push(st.op.clone());
                return;
            };
            if depth > 80 {
                self.out.overflow = true;
                return;
            }
            let env2 = self.bind(st, site, idx, env, depth);
            let inner = Frame { flip: eff, inherited: fr.omit_fwd || fr.omit_inv, inversions: fr.inversions.saturating_add((st.inv != InvPos::No) as u8), ..fr };
            self.def(&body, msite, &env2, inner, level + 2, depth + 1);
        } else {
            self.leaf(st, env, eff, depth, fr);
        }
    }

    /// Arguments of an invocation: resolved in the caller's scope, then added to the scope
    /// the body (and everything nested in it) sees.
    /// `k=$n` where n is another key of the same step: which scope is meant is not specified
    fn sibling_refs(&mut self, st: &Step) {
        for a in &st.args {
            if let Some(why) = outside_value_grammar(&a.val) {
                self.out.unspecified.push(format!("'{}': {why}", st.text()));
            }
            if let Val::Ref(n) | Val::RefDef(n, _) = &a.val {
                if *n != a.key && st.args.iter().any(|b| b.key == *n) {
                    self.out.unspecified.push(format!("'{}': ${n} names a sibling parameter", st.text()));
                }
            }
        }
    }

    fn bind(&mut self, st: &Step, site: i16, idx: usize, env: &Env, depth: usize) -> Env {
        self.sibling_refs(st);
        if st.args.iter().any(|a| a.key == "inv") {
            self.out.unspecified.push(format!("'{}': inv given as key=value on a macro invocation", st.text()));
        }
        let mut out = env.clone();
        for (ai, a) in st.args.iter().enumerate() {
            let aid: ArgId = (site, idx as u8, ai as u8);
            let mut v = match &a.val {
                Val::Lit(s) => lit_val(s, depth),
                Val::Flag => {
                    let mut v = lit_val("true", depth);
                    v.flag = true;
                    v
                }
                Val::Ref(n) | Val::RefDef(n, _) => {
                    let order = if *n == a.key {
                        Some(Feat::Same)
                    } else if *n > a.key {
                        Some(Feat::Asc)
                    } else {
                        None
                    };
                    match env.get(n) {
                        Some(e) => {
                            let mut v = e.clone();
                            v.flag = false;
                            v.ctx_default = false;
                            v.hops = v.hops.saturating_add(1);
                            if let Some(f) = order {
                                v.feats.push((f, aid));
                            }
                            if matches!(a.val, Val::RefDef(_, _)) {
                                v.feats.push((Feat::Default2, aid));
                                v.murky |= e.text.is_none();
                            }
                            v.deps.push((n.clone(), Some(e.id), aid, e.text.is_none()));
                            v
                        }
                        None => {
                            let mut v = match &a.val {
                                Val::RefDef(_, d) => {
                                    let mut v = lit_val(d, depth);
                                    v.feats.push((Feat::Default2, aid));
                                    v
                                }
                                _ => {
                                    let mut v = lit_val("", depth);
                                    v.text = None;
                                    if let Some(f) = order {
                                        v.feats.push((f, aid));
                                    }
                                    v
                                }
                            };
                            v.hops = 1;
                            v.deps.push((n.clone(), None, aid, true));
                            v
                        }
                    }
                }
                Val::Def(d) => match env.get(&a.key) {
                    Some(e) => {
                        let mut v = e.clone();
                        v.ctx_default = false;
                        v.hops = v.hops.saturating_add(1);
                        v.feats.push((Feat::ParenShadow, aid));
                        v.murky |= e.text.is_none();
                        v
                    }
                    None => {
                        let mut v = lit_val(d, depth);
                        v.hops = 1;
                        v.feats.push((Feat::Paren, aid));
                        v
                    }
                },
            };
            v.id = self.next_id;
            self.next_id += 1;
            out.insert(a.key.clone(), v);
        }
        out
    }

    fn consumed(&mut self, e: &EnvVal, env: &Env, depth: usize, via_binding: bool) {
        let mut unsafe_here = false;
        if e.murky {
            self.out.unspecified.push("a default form on an invocation argument met an unresolvable value".into());
        }
        for (f, aid) in &e.feats {
            self.out.unsafe_feats.insert((*f, *aid));
            unsafe_here = true;
        }
        for (n, id, aid, unresolvable) in &e.deps {
            if env.get(n).map(|x| x.id) != *id {
                self.out.unsafe_feats.insert((if *unresolvable { Feat::LateBound } else { Feat::Shadow }, *aid));
                unsafe_here = true;
            }
        }
        self.out.hops_max = self.out.hops_max.max(e.hops);
        if e.hops > 0 && !unsafe_here {
            self.out.safe_hops += 1;
        }
        // resolved through at least one nesting level: supplied above the immediate caller of
        // the enclosing macro, or forwarded by an invocation argument
        if !e.ctx_default && e.text.is_some() && via_binding && (e.hops > 0 || e.origin + 2 <= depth) {
            self.out.nontrivial = true;
        }
    }

    fn form(&mut self, f: &str) {
        let label = if self.cur_flag { format!("flag-key:{f}") } else { f.to_string() };
        *self.out.forms.entry(label).or_insert(0) += 1;
    }

    fn leaf(&mut self, st: &Step, env: &Env, inv: bool, depth: usize, fr: Frame) {
        if self.budget == 0 {
            self.out.overflow = true;
            return;
        }
        self.budget -= 1;
        self.sibling_refs(st);
        let gamut: &[&str] = leaf_spec(&st.op).map(|l| l.gamut).unwrap_or(&[]);
        let local_keys: BTreeSet<&str> = st.args.iter().map(|a| a.key.as_str()).collect();
        let mut params: BTreeMap<String, (String, bool)> = BTreeMap::new();
        // caller arguments (and context defaults) are visible to every step
        for (k, e) in env {
            if local_keys.contains(k.as_str()) {
                continue;
            }
            let seen = gamut.contains(&k.as_str());
            self.cur_flag = FLAG_KEYS.contains(&k.as_str());
            match &e.text {
                Some(t) => {
                    params.insert(k.clone(), (t.clone(), e.flag));
                }
                None => {
                    if seen {
                        self.out.unspecified.push(format!("{} sees the unresolvable caller argument {k}", st.op));
                    }
                }
            }
            if seen {
                self.consumed(e, env, depth, false);
                if !e.ctx_default {
                    self.form("visible-caller-arg");
                }
            }
        }
        // step-local parameters win
        for a in &st.args {
            let seen = gamut.contains(&a.key.as_str());
            self.cur_flag = FLAG_KEYS.contains(&a.key.as_str());
            match &a.val {
                Val::Lit(s) => {
                    params.insert(a.key.clone(), (s.clone(), false));
                    if seen {
                        self.form(if env.contains_key(&a.key) { "literal-over-caller-arg" } else { "literal" });
                    }
                }
                Val::Flag => {
                    params.insert(a.key.clone(), ("true".into(), true));
                    if seen {
                        self.form(if env.contains_key(&a.key) { "literal-over-caller-arg" } else { "literal" });
                    }
                }
                Val::Ref(n) => match env.get(n) {
                    Some(e) if e.text.is_some() => {
                        params.insert(a.key.clone(), (e.text.clone().unwrap(), false));
                        if seen {
                            self.consumed(e, env, depth, true);
                            self.form("$n-given");
                        }
                    }
                    Some(e) => {
                        if seen && e.murky {
                            self.consumed(e, env, depth, true);
                        } else if seen {
                            self.consumed(e, env, depth, true);
                            self.out.expect_err.push(format!("{} {}=${n}: {n} is bound to a $-reference the caller cannot resolve", st.op, a.key));
                            self.form("$n-unresolvable");
                        } else {
                            self.out.unspecified.push(format!("{} ignores {}=${n} (unresolvable)", st.op, a.key));
                        }
                    }
                    None => {
                        if seen {
                            self.out.expect_err.push(format!("{} {}=${n}: caller has no {n}", st.op, a.key));
                            self.form("$n-absent");
                        } else {
                            self.out.unspecified.push(format!("{} ignores {}=${n} (absent)", st.op, a.key));
                        }
                    }
                },
                Val::RefDef(n, d) => match env.get(n) {
                    Some(e) if e.text.is_some() => {
                        params.insert(a.key.clone(), (e.text.clone().unwrap(), false));
                        if seen {
                            self.consumed(e, env, depth, true);
                            self.form("$n(d)-given");
                        }
                    }
                    Some(e) => {
                        if seen {
                            self.consumed(e, env, depth, true);
                        }
                        self.out.unspecified.push(format!("{} {}=${n}({d}): {n} given but unresolvable", st.op, a.key));
                    }
                    None => {
                        params.insert(a.key.clone(), (d.clone(), false));
                        if seen {
                            self.form("$n(d)-default");
                        }
                    }
                },
                Val::Def(d) => match env.get(&a.key) {
                    Some(e) if e.text.is_some() => {
                        params.insert(a.key.clone(), (e.text.clone().unwrap(), e.flag));
                        if seen {
                            self.consumed(e, env, depth, true);
                            self.form("(d)-given");
                        }
                    }
                    Some(e) => {
                        if seen {
                            self.consumed(e, env, depth, true);
                        }
                        self.out.unspecified.push(format!("{} {}=({d}): {} given but unresolvable", st.op, a.key, a.key));
                    }
                    None => {
                        params.insert(a.key.clone(), (d.clone(), false));
                        if seen {
                            self.form("(d)-default");
                        }
                    }
                },
            }
        }
        self.cur_flag = false;
        if st.op == "stack" && (inv || fr.flip) {
            // a stack step has no inverse of its own (no `inv` in its gamut): what it does is decided by
            // the direction of the pipeline it is a step of, so "reversed, each step inverted" does
            // not describe a body with stack steps run backwards (C03, C12)
            self.out.unspecified.push("a stack step under an inverted invocation".into());
        }
        // `inv` is a flag of the operator like any other: when it is bound (`inv=$back`, `inv=(true)`)
        // and comes out true, the step is inverted
        let mut inv = inv;
        if let Some((v, _)) = params.get("inv").cloned() {
            if gamut.contains(&"inv") {
                if v == "true" {
                    params.remove("inv");
                    inv = !inv;
                } else {
                    self.out.unspecified.push(format!("{} inv={v}: not a flag value", st.op));
                }
            }
        }
        if fr.inherited && (fr.omit_fwd || fr.omit_inv) {
            self.out.one_way.2 += 1;
        }
        self.out.leaves.push(LeafLit { op: st.op.clone(), params, inv, omit_fwd: fr.omit_fwd, omit_inv: fr.omit_inv });
    }
}

/// Values and defaults the binding syntax has no way to express (established on the unchanged
/// library, which takes every other text literally): a default inside `$n(...)` cannot contain a
/// parenthesis (the text is split at every '(' and ')'), a default inside `(...)` cannot end in ')'
/// (all trailing ')' are stripped), no value or default can start with the sigils '$' / '(' (that
/// is a binding form), be empty, or contain '=' or white space other than after a comma (the
/// tokeniser splits there). Such inputs are not judged.
fn outside_value_grammar(v: &Val) -> Option<String> {
    let common = |t: &str| -> Option<String> {
        if t.is_empty() {
            return Some("empty value".into());
        }
        if t.starts_with(['$', '(']) {
            return Some(format!("the value '{t}' starts with a binding sigil"));
        }
        if t.contains(['=', '|', '<', '>', '#']) || t.replace(", ", ",").contains(char::is_whitespace) || t.ends_with([',', ':']) || t.starts_with([',', ':']) {
            return Some(format!("the value '{t}' does not survive tokenisation"));
        }
        None
    };
    match v {
        Val::Flag | Val::Ref(_) => None,
        Val::Lit(t) => common(t),
        Val::RefDef(_, d) => common(d).or_else(|| d.contains(['(', ')']).then(|| format!("a parenthesis in the default of $n({d})"))),
        Val::Def(d) => common(d).or_else(|| d.ends_with(')').then(|| format!("the default of ({d}) ends in a parenthesis"))),
    }
}

fn expand(lib: &[Macro], top: &[Step]) -> Expansion {
    Expander::new(lib).run_top(top)
}

/// The expander against the documented examples (Rumination 009, section Macros; and the
/// library's own doc-tests of the same examples in src/op/mod.rs).
fn selftest() {
    let arg = |k: &str, v: Val| Arg { key: k.into(), val: v };
    let st = |op: &str, args: Vec<Arg>, inv: InvPos| Step { omit: Omit::NONE, op: op.into(), args, inv };
    let lit = |s: &str| Val::Lit(s.into());
    // cart:utm = "inv cart | utm zone=(32)"
    let lib = vec![Macro {
        name: "cart:utm".into(),
        body: vec![st("cart", vec![], InvPos::Prefix), st("utm", vec![arg("zone", Val::Def("32".into()))], InvPos::No)],
    }];
    let x = expand(&lib, &[st("cart:utm", vec![arg("zone", lit("42"))], InvPos::No)]);
    assert_eq!(x.literal(), "cart ellps=GRS80 zone=42 inv | utm ellps=GRS80 zone=42");
    let x = expand(&lib, &[st("cart:utm", vec![], InvPos::No)]);
    assert_eq!(x.literal(), "cart ellps=GRS80 inv | utm ellps=GRS80 zone=32");
    // inverted: reversed, each step inverted
    let x = expand(&lib, &[st("cart:utm", vec![], InvPos::Suffix)]);
    assert_eq!(x.literal(), "utm ellps=GRS80 zone=32 inv | cart ellps=GRS80");
    // "utm zone=$foo": plain invocation is a syntax error, foo=42 gives zone 42
    let lib = vec![Macro { name: "cart:utm".into(), body: vec![st("utm", vec![arg("zone", Val::Ref("foo".into()))], InvPos::No)] }];
    let x = expand(&lib, &[st("cart:utm", vec![], InvPos::No)]);
    assert!(!x.expect_err.is_empty());
    let x = expand(&lib, &[st("cart:utm", vec![arg("foo", lit("42"))], InvPos::No)]);
    assert!(x.expect_err.is_empty() && x.literal() == "utm ellps=GRS80 foo=42 zone=42", "{}", x.literal());
    // "utm zone=$foo(32)"
    let lib = vec![Macro {
        name: "cart:utm".into(),
        body: vec![st("utm", vec![arg("zone", Val::RefDef("foo".into(), "32".into()))], InvPos::No)],
    }];
    assert_eq!(expand(&lib, &[st("cart:utm", vec![], InvPos::No)]).literal(), "utm ellps=GRS80 zone=32");
    assert_eq!(expand(&lib, &[st("cart:utm", vec![arg("foo", lit("42"))], InvPos::No)]).literal(), "utm ellps=GRS80 foo=42 zone=42");
    // "cart ellps=$ellps_in(GRS80) | inv cart ellps=$ellps_out(GRS80)"
    let lib = vec![Macro {
        name: "a:b".into(),
        body: vec![
            st("cart", vec![arg("ellps", Val::RefDef("ellps_in".into(), "GRS80".into()))], InvPos::No),
            st("cart", vec![arg("ellps", Val::RefDef("ellps_out".into(), "GRS80".into()))], InvPos::Prefix),
        ],
    }];
    let x = expand(&lib, &[st("a:b", vec![arg("ellps_in", lit("intl"))], InvPos::No)]);
    assert_eq!(x.literal(), "cart ellps=intl ellps_in=intl | cart ellps=GRS80 ellps_in=intl inv");
    // nested forwarding under a different name, in either lexical order (DESIGN §5 #2)
    for (outer, inner) in [("c", "b"), ("a", "b")] {
        let lib = vec![
            Macro { name: "outer:m".into(), body: vec![st("inner:m", vec![arg(inner, Val::Ref(outer.into()))], InvPos::No)] },
            Macro { name: "inner:m".into(), body: vec![st("helmert", vec![arg("x", Val::Ref(inner.into()))], InvPos::No)] },
        ];
        let x = expand(&lib, &[st("outer:m", vec![arg(outer, lit("5"))], InvPos::No)]);
        assert!(x.expect_err.is_empty() && x.unspecified.is_empty());
        assert_eq!(x.literal(), format!("helmert {}=5 {}=5 ellps=GRS80 x=5", outer.min(inner), outer.max(inner)));
        assert_eq!(x.unsafe_feats.is_empty(), outer < inner);
        assert_eq!(x.max_level, 6);
    }
    // list valued defaults: `key=$name(d1,d2,d3)` takes the caller's list, else the default list; also
    // on the argument of a nested invocation (`k=$k2(list)`)
    let lib = vec![
        Macro { name: "s:all".into(), body: vec![st("helmert", vec![arg("translation", Val::RefDef("t".into(), "1,2,3".into()))], InvPos::No)] },
        Macro { name: "s:outer".into(), body: vec![st("s:all", vec![arg("t", Val::RefDef("u".into(), "7,8,9".into()))], InvPos::No)] },
    ];
    assert_eq!(expand(&lib, &[st("s:all", vec![], InvPos::No)]).literal(), "helmert ellps=GRS80 translation=1,2,3");
    assert_eq!(expand(&lib, &[st("s:all", vec![arg("t", lit("4, 5, 6"))], InvPos::No)]).literal(), "helmert ellps=GRS80 t=4, 5, 6 translation=4, 5, 6");
    assert_eq!(expand(&lib, &[st("s:outer", vec![], InvPos::No)]).literal(), "helmert ellps=GRS80 t=7,8,9 translation=7,8,9");
    assert_eq!(expand(&lib, &[st("s:outer", vec![arg("u", lit("4,5,6"))], InvPos::No)]).literal(), "helmert ellps=GRS80 t=4,5,6 translation=4,5,6 u=4,5,6");
    assert!(expand(&lib, &[st("s:all", vec![arg("t", Val::RefDef("q".into(), "g(1).datum".into()))], InvPos::No)]).unspecified.len() == 1);
    assert!(outside_value_grammar(&Val::Def("g(1).datum,@null".into())).is_none() && outside_value_grammar(&Val::Lit("10, 20, 30".into())).is_none());
    assert!(outside_value_grammar(&Val::Lit("a=b".into())).is_some() && outside_value_grammar(&Val::Lit("1 2".into())).is_some() && outside_value_grammar(&Val::Def("(1)".into())).is_some());
    // the sites of the typed sections: keys are keys of their operator, fixed arguments do not bind the key,
    // the nesting index covers depth 0..3
    for s in SITES {
        let spec = leaf_spec(s.op).expect("site operator has a leaf spec");
        assert!(spec.gamut.contains(&s.key) && s.values.len() >= 4 && !lit_step(&format!("{} {}", s.op, s.fixed)).args.iter().any(|a| a.key == s.key), "{}.{}", s.op, s.key);
    }
    assert!(nesting(0).is_empty() && nesting(5) == vec![4] && nesting(6) == vec![0, 0] && nesting(NESTINGS - 1) == vec![4, 4, 4]);
    // the wide name pools: disjoint, no operator key, no reserved key, no trailing subscript digit
    let mut all = BTreeSet::new();
    for ty in 0..3u8 {
        for n in wide_names(ty) {
            assert!(!is_operator_key(n) && all.insert(n.clone()), "{n}");
            assert!(!n.ends_with(|c: char| ('\u{2080}'..='\u{2089}').contains(&c)) && !n.contains(|c: char| c.is_whitespace() || "=$()|<>#:,".contains(c)), "{n}");
        }
    }
    for r in RESERVED {
        assert!(wide_names(0).iter().any(|n| n.as_str() < r) && wide_names(0).iter().any(|n| n.as_str() > r));
    }
    // one-way steps (Rumination 000/009: '>' = '| omit_inv', '<' = '| omit_fwd'; a step so marked is
    // left out when *the pipeline* is executed in that direction)
    let ow = |fwd: bool, inv: bool, form: u8, mut s: Step| {
        s.omit = Omit { fwd, inv, form };
        s
    };
    let body = vec![st("addone", vec![], InvPos::No), ow(false, true, 0, st("helmert", vec![arg("x", lit("10"))], InvPos::No))];
    assert_eq!(steps_text(&body), "addone > helmert x=10");
    assert_eq!(steps_text(&[body[0].clone(), ow(true, false, 0, body[1].clone())]), "addone < helmert x=10");
    assert_eq!(steps_text(&[ow(true, false, 0, body[0].clone()), ow(true, true, 0, body[1].clone())]), "omit_fwd addone | omit_fwd omit_inv helmert x=10");
    assert_eq!(steps_text(&[body[0].clone(), ow(false, true, 4, st("o:w", vec![arg("x", lit("1"))], InvPos::Prefix))]), "addone | inv o:w x=1 omit_inv=true");
    let lib = vec![Macro { name: "o:w".into(), body: body.clone() }, Macro { name: "o:back".into(), body: vec![st("o:w", vec![], InvPos::Suffix)] }];
    assert_eq!(expand(&lib, &[st("o:w", vec![], InvPos::No)]).literal(), "addone ellps=GRS80 | helmert ellps=GRS80 x=10 omit_inv");
    // the inverse of that: the helmert step is left out when the *body* runs in its inverse direction,
    // which is the forward direction of the inverted invocation
    let inverted = "helmert ellps=GRS80 x=10 inv omit_fwd | addone ellps=GRS80 inv";
    assert_eq!(expand(&lib, &[st("o:w", vec![], InvPos::Infix)]).literal(), inverted);
    assert_eq!(expand(&lib, &[st("o:back", vec![], InvPos::No)]).literal(), inverted);
    assert_eq!(expand(&lib, &[st("o:back", vec![], InvPos::Prefix)]).literal(), "addone ellps=GRS80 | helmert ellps=GRS80 x=10 omit_inv");
    // an invocation that is itself a one-way step hands the omission on to all it expands to
    let x = expand(&lib, &[st("noop", vec![], InvPos::No), ow(true, false, 1, st("o:w", vec![], InvPos::Suffix))]);
    assert_eq!(x.literal(), "noop ellps=GRS80 | helmert ellps=GRS80 x=10 inv omit_fwd | addone ellps=GRS80 inv omit_fwd");
    assert!(x.unspecified.is_empty() && x.one_way == (2, 1, 2), "{:?}", x.one_way);
    assert!(!expand(&lib, &[ow(true, false, 1, st("o:w", vec![], InvPos::No))]).unspecified.is_empty());
}

// ---- running the library ------------------------------------------------------------------

const PROBES: [[f64; 4]; 4] = [
    [0.2, 0.9, 100.0, 2020.0],
    [-1.3, -0.4, 0.0, 2000.0],
    [500000.0, 6100000.0, 50.0, 2010.5],
    [3513638.19, 778956.45, 5248216.46, 2024.0],
];

enum Outcome {
    Ok(OpHandle),
    Err(String),
    Panic(vcore::guard::PanicInfo),
}

fn instantiate<C: Context>(ctx: &mut C, text: &str) -> Outcome {
    match try_op(ctx, text) {
        Err(p) => Outcome::Panic(p),
        Ok(Err(e)) => Outcome::Err(err_text(&e)),
        Ok(Ok(h)) => Outcome::Ok(h),
    }
}

fn behave<C: Context>(ctx: &C, h: OpHandle, fwd: bool) -> (String, Vec<Coor4D>) {
    let mut data: Vec<Coor4D> = PROBES.iter().map(|p| Coor4D(*p)).collect();
    let status = match try_apply(ctx, h, dir_of(fwd), &mut data) {
        Err(p) => format!("panic {}", p.sig()),
        Ok(Err(e)) => format!("error {e:?}"),
        Ok(Ok(n)) => format!("count {n}"),
    };
    (status, data)
}

fn lib_text(lib: &[Macro]) -> String {
    lib.iter().map(|m| format!("    {} = {}\n", m.name, steps_text(&m.body))).collect()
}

/// What a context needs before use: the user context gets the in-memory grids of the sections on
/// typed parameters (no other section has an operator that asks for a grid)
trait Prep: Context {
    fn prep(&mut self) {}
}
impl Prep for Minimal {}
impl Prep for Plain {}
impl Prep for GridCtx {
    fn prep(&mut self) {
        for (name, grid) in typed_grids() {
            self.add_grid(name, grid.clone());
        }
    }
}

fn new_ctx<C: Prep>(lib: &[Macro]) -> C {
    let mut ctx = C::new();
    ctx.prep();
    for m in lib {
        ctx.register_resource(&m.name, &steps_text(&m.body));
    }
    ctx
}

fn same_behaviour<C: Context, D: Context>(
    a: (&C, OpHandle, bool, &str),
    b: (&D, OpHandle, bool, &str),
    x: &Expansion,
    base_key: &str,
    lib: &[Macro],
    rec: &mut Rec,
) -> CaseResult {
    let (sa, da) = behave(a.0, a.1, a.2);
    let (sb, db) = behave(b.0, b.1, b.2);
    let diff = first_bits_diff(&da, &db);
    if sa != sb || diff.is_some() {
        let i = diff.unwrap_or(0);
        vfail!(
            x.key(base_key),
            "library:\n{}  '{}' applied {:?} differs from '{}' applied {:?}\n  {} vs {}\n  probe {:?}: {} vs {}",
            lib_text(lib), a.3, dir_of(a.2), b.3, dir_of(b.2), sa, sb, PROBES[i.min(3)], fmt_c4(&da[i.min(3)]), fmt_c4(&db[i.min(3)])
        );
    }
    if da.iter().all(|c| (0..4).all(|k| c[k].is_nan())) {
        rec.count("all_nan_outputs", 1);
    }
    Ok(())
}

fn check_with<C: Prep>(case: &Case, rec: &mut Rec) -> CaseResult {
    judge::<C>(case, rec).map(|_| ())
}

/// The oracle proper; Ok(how the case was decided)
fn judge<C: Prep>(case: &Case, rec: &mut Rec) -> Result<&'static str, Failure> {
    let invocation = steps_text(&case.top);
    let x = expand(&case.lib, &case.top);
    if case.excluded_known > 0 {
        rec.count("excluded_known", case.excluded_known as u64);
    }
    let mut ctx: C = new_ctx(&case.lib);
    let got = instantiate(&mut ctx, &invocation);
    if let Outcome::Panic(p) = &got {
        // identical panic of the literal (operator defects, other properties) is tolerated below;
        // a panic in macro resolution itself never is
        if p.file.contains("/op/") || p.file.contains("/context/") || p.file.contains("/token/") {
            vfail!(format!("panic-instantiate@{}", p.sig()), "library:\n{}  instantiating '{invocation}' panics: {} at {}:{}", lib_text(&case.lib), p.msg, p.file, p.line);
        }
    }
    if x.overflow || !x.missing.is_empty() {
        rec.class("outside-generator-contract");
        return Ok("outside-generator-contract");
    }
    rec.class(&format!("depth={}", x.max_depth));
    rec.class(&format!("ctx={}", case.ctx));
    for (f, n) in &x.forms {
        rec.count(&format!("form:{f}"), *n);
    }

    // 1. `$n` without default whose n the caller does not provide: an error
    if !x.expect_err.is_empty() {
        if let Outcome::Ok(_) = got {
            vfail!(
                x.key("unresolved-reference-accepted"),
                "library:\n{}  '{invocation}' instantiates although {}",
                lib_text(&case.lib), x.expect_err[0]
            );
        }
        rec.class("outcome=error-expected");
        if x.unsafe_feats.is_empty() {
            rec.nontrivial(&(lib_text(&case.lib), &invocation));
        }
        return Ok("error-expected");
    }
    if !x.unspecified.is_empty() {
        rec.count("excluded_unspecified", 1);
        rec.class("outcome=unspecified");
        return Ok("unspecified");
    }
    if x.max_level > 50 {
        // a legitimately deep chain may end in Error::Recursion: only Ok/Err/no panic (above)
        rec.count("excluded_near_breaker", 1);
        rec.class(match got {
            Outcome::Ok(_) => "deep:ok",
            Outcome::Err(_) => "deep:err",
            Outcome::Panic(_) => "deep:panic",
        });
        if let Outcome::Panic(p) = &got {
            vfail!(format!("panic-instantiate@{}", p.sig()), "instantiating '{invocation}' panics: {} at {}:{}", p.msg, p.file, p.line);
        }
        return Ok("near-breaker");
    }

    // 2. the literal expansion, in a context that has no macros of ours
    let literal = x.literal();
    let mut lctx = C::new();
    lctx.prep();
    let want = instantiate(&mut lctx, &literal);
    let (h, hl) = match (&got, &want) {
        (Outcome::Ok(h), Outcome::Ok(hl)) => (*h, *hl),
        (Outcome::Err(_), Outcome::Err(e)) => {
            rec.class("outcome=both-error");
            rec.class(&format!("both-error:{}", e.split(['(', ' ']).next().unwrap_or("?")));
            return Ok("both-error");
        }
        (Outcome::Panic(p), Outcome::Panic(q)) if p.sig() == q.sig() => {
            rec.class("outcome=both-panic");
            return Ok("both-panic");
        }
        _ => {
            let show = |o: &Outcome| match o {
                Outcome::Ok(_) => "Ok".to_string(),
                Outcome::Err(e) => format!("Err({e})"),
                Outcome::Panic(p) => format!("panic {} at {}:{}", p.msg, p.file, p.line),
            };
            vfail!(
                x.key("outcome-mismatch"),
                "library:\n{}  invocation '{invocation}' -> {}\n  literal    '{literal}' -> {}",
                lib_text(&case.lib), show(&got), show(&want)
            );
        }
    };
    rec.class("outcome=both-ok");
    for fwd in [true, false] {
        same_behaviour((&ctx, h, fwd, &invocation), (&lctx, hl, fwd, &literal), &x, "expansion-mismatch", &case.lib, rec)?;
    }

    // 3. an inverted invocation is the literal applied in the opposite direction
    if case.twin != InvPos::No && case.top.len() == 1 && case.top[0].is_macro() && case.top[0].inv == InvPos::No {
        let twin = case.top[0].text_with(case.twin);
        let mut xt = Expansion { prefix_macro: x.prefix_macro || case.twin == InvPos::Prefix, ..Default::default() };
        xt.unsafe_feats = x.unsafe_feats.clone();
        match instantiate(&mut ctx, &twin) {
            Outcome::Ok(ht) => {
                for fwd in [true, false] {
                    same_behaviour((&ctx, ht, fwd, &twin), (&lctx, hl, !fwd, &literal), &xt, "inverted-invocation-mismatch", &case.lib, rec)?;
                }
                rec.class(&format!("twin={:?}", case.twin));
            }
            Outcome::Err(e) => vfail!(xt.key("inverted-invocation-rejected"), "library:\n{}  '{invocation}' instantiates but '{twin}' does not: {e}", lib_text(&case.lib)),
            Outcome::Panic(p) => vfail!(format!("panic-instantiate@{}", p.sig()), "instantiating '{twin}' panics: {} at {}:{}", p.msg, p.file, p.line),
        }
    }

    rec.count("forwarded-through-invocation-args", x.safe_hops);
    rec.metric("max_level", x.max_level as f64);
    rec.metric("max_forwarding_hops", x.hops_max as f64);
    let invs = case.top.iter().chain(case.lib.iter().flat_map(|m| m.body.iter())).filter(|s| s.is_macro() && s.inv != InvPos::No).count();
    if invs > 0 {
        rec.class("has-inverted-macro-invocation");
    }
    // where the names of the invocation arguments sort relative to the keys the library keeps itself
    for a in case.top.iter().chain(case.lib.iter().flat_map(|m| m.body.iter())).filter(|s| s.is_macro()).flat_map(|s| s.args.iter()) {
        rec.count(&name_class(&a.key), 1);
    }
    if x.one_way.0 > 0 {
        rec.class("has-one-way-steps");
        rec.class(&format!("one-way-steps-under-{}-inverted-invocations", x.one_way_inversions.min(3)));
        rec.count("one-way-steps", x.one_way.0);
        rec.count("one-way-steps-run-backwards-by-an-inverted-invocation", x.one_way.1);
        rec.count("leaves-omitted-through-an-enclosing-invocation", x.one_way.2);
    }
    // (no other section has one-way steps) non-trivial there: a one-way step inside a body that an
    // odd number of inverted invocations run backwards
    if x.nontrivial || x.one_way.1 > 0 {
        rec.nontrivial(&(lib_text(&case.lib), &invocation));
    }
    Ok("both-ok")
}

/// Run `f` on a thread of its own (16 MB stack, like the shard workers): whatever the library
/// keeps per thread starts from scratch, so a history is a pure function of its data and earlier
/// cases on a (reused) worker thread can neither hide nor fake an effect. (Used by section
/// 'histories' only: a thread per case costs too much for the sections with 10^5 cases.)
fn isolated<T: Send>(f: impl FnOnce() -> T + Send) -> Result<T, Failure> {
    std::thread::scope(|s| {
        let h = std::thread::Builder::new().name("case".into()).stack_size(16 << 20).spawn_scoped(s, || vcore::guard::guard(f));
        match h {
            Err(e) => Err(Failure { key: "harness-cannot-spawn-thread".into(), msg: format!("{e}") }),
            Ok(h) => match h.join() {
                Ok(Ok(v)) => Ok(v),
                Ok(Err(p)) => Err(Failure { key: format!("harness-panic@{}", p.sig()), msg: format!("panic in the case thread: {} at {}:{}", p.msg, p.file, p.line) }),
                Err(_) => Err(Failure { key: "harness-panic@thread".into(), msg: "case thread died".into() }),
            },
        }
    })
}

fn check(case: &Case, rec: &mut Rec) -> CaseResult {
    match case.ctx {
        0 => check_with::<Minimal>(case, rec),
        1 => check_with::<Plain>(case, rec),
        _ => check_with::<GridCtx>(case, rec),
    }
}

// ---- generator for (a): acyclic libraries -------------------------------------------------

#[derive(Clone, Copy, Debug, PartialEq, Eq)]
enum Mode {
    /// invocation arguments in binding form only where the registered defect class
    /// "nested-arg-*" does not apply; no prefix `inv` on macro invocations
    Safe,
    /// every binding form on invocation arguments, names independent of lexical order
    Forwarding,
    /// literal invocation arguments, `inv` in every position on macro invocations
    InvPos,
}

#[derive(Clone, Debug)]
struct RawArg {
    key: u16,
    from_gamut: bool,
    ty: u8, // 0 numeric, 1 ellipsoid name, 2 flag
    form: u8,
    name: u16,
    biased: bool,
    lit: u16,
    def: u16,
}

#[derive(Clone, Debug)]
struct RawStep {
    kind: u8,
    leaf: u16,
    target: u16,
    args: Vec<RawArg>,
    inv: u8,
}

#[derive(Clone, Debug)]
struct RawCase {
    ctx: u8,
    depth: usize,
    extras: usize,
    macros: Vec<Vec<RawStep>>,
    top_args: Vec<RawArg>,
    top_inv: u8,
    top_kind: u8,
    pre: RawStep,
    post: RawStep,
    twin: u8,
    force: Vec<u16>,
}

fn raw_arg() -> impl Strategy<Value = RawArg> {
    // types: 65% numeric, 15% ellipsoid, 20% flag
    (any::<u16>(), prop::bool::weighted(0.9), 0u8..20, 0u8..20, any::<u16>(), prop::bool::weighted(0.8), any::<u16>(), any::<u16>())
        .prop_map(|(key, from_gamut, ty, form, name, biased, lit, def)| RawArg { key, from_gamut, ty: if ty < 13 { 0 } else if ty < 16 { 1 } else { 2 }, form, name, biased, lit, def })
}

fn raw_step() -> impl Strategy<Value = RawStep> {
    (0u8..20, any::<u16>(), any::<u16>(), prop::collection::vec(raw_arg(), 0..=3), 0u8..20)
        .prop_map(|(kind, leaf, target, args, inv)| RawStep { kind, leaf, target, args, inv })
}

fn raw_case(max_depth: usize) -> impl Strategy<Value = RawCase> {
    (
        (0u8..3, 0..=max_depth, 0usize..=2, 0u8..20, 0u8..8, 0u8..8),
        prop::collection::vec(prop::collection::vec(raw_step(), 1..=3), max_depth + 3),
        prop::collection::vec(raw_arg(), 0..=7),
        raw_step(),
        raw_step(),
        prop::collection::vec(any::<u16>(), max_depth + 3),
    )
        .prop_map(|((ctx, depth, extras, top_inv, top_kind, twin), macros, top_args, pre, post, force)| RawCase {
            ctx,
            depth,
            extras,
            macros,
            top_args,
            top_inv,
            top_kind,
            pre,
            post,
            twin,
            force,
        })
}

fn inv_of(raw: u8, is_macro: bool, mode: Mode) -> InvPos {
    // raw in 0..20
    if is_macro && mode == Mode::InvPos {
        return match raw % 4 {
            0 => InvPos::No,
            1 => InvPos::Prefix,
            2 => InvPos::Infix,
            _ => InvPos::Suffix,
        };
    }
    match raw {
        0..=12 => InvPos::No,
        13..=14 => {
            if is_macro {
                InvPos::Infix
            } else {
                InvPos::Prefix
            }
        }
        15..=16 => InvPos::Infix,
        _ => InvPos::Suffix,
    }
}

/// names that some invocation supplies, by type
struct Names([Vec<String>; 3]);

fn val_of(r: &RawArg, key: &str, ty: u8, names: &Names, macro_arg: bool, mode: Mode) -> Val {
    let names = &names.0[ty as usize];
    let lits: &[&str] = lits_of(ty);
    let pool: &[&str] = pool_of(ty);
    let lit = lits[pick(r.lit, lits.len())].to_string();
    let def = lits[pick(r.def, lits.len())].to_string();
    // names some invocation supplies (those of the outermost invocation come first and twice)
    let mut name = if r.biased && !names.is_empty() { names[pick(r.name, names.len())].clone() } else { pool[pick(r.name, pool.len())].to_string() };
    if macro_arg && mode == Mode::Safe {
        // outside the registered class nested-arg-*: forward from a name sorting before the key
        let below: Vec<&String> = names.iter().filter(|n| n.as_str() < key).collect();
        if !below.is_empty() {
            name = below[pick(r.name, below.len())].clone();
        }
    }
    // 0..20: leaf steps 25% literal, 20% $n, 25% $n(d), 30% (d); invocation arguments 40/25/20/15
    let cut = if macro_arg { [8, 13, 17] } else { [5, 9, 14] };
    if r.form < cut[0] {
        // a flag is given as a bare word or as `=true`
        if ty == 2 && r.lit % 2 == 0 {
            Val::Flag
        } else {
            Val::Lit(lit)
        }
    } else if r.form < cut[1] {
        Val::Ref(name)
    } else if r.form < cut[2] {
        Val::RefDef(name, def)
    } else {
        Val::Def(def)
    }
}

/// unique keys per step; a `$n` may not name a sibling key of the same step (which scope such
/// a reference means is not specified anywhere)
fn tidy_args(args: &mut Vec<Arg>) {
    let mut seen = BTreeSet::new();
    args.retain(|a| seen.insert(a.key.clone()));
    let keys: Vec<String> = args.iter().map(|a| a.key.clone()).collect();
    args.retain(|a| match &a.val {
        Val::Ref(n) | Val::RefDef(n, _) => *n == a.key || !keys.contains(n),
        _ => true,
    });
}

fn interpret_step(r: &RawStep, target: Option<String>, names: &Names, mode: Mode) -> Step {
    if let Some(t) = target {
        let mut args: Vec<Arg> = r
            .args
            .iter()
            .map(|a| {
                let key = pool_of(a.ty)[pick(a.key, pool_of(a.ty).len())];
                Arg { key: key.to_string(), val: val_of(a, key, a.ty, names, true, mode) }
            })
            .collect();
        tidy_args(&mut args);
        return Step { omit: Omit::NONE, op: t, args, inv: inv_of(r.inv, true, mode) };
    }
    if r.kind == 19 {
        // one of the macros every context pre-registers
        let b = BUILTIN_MACROS[pick(r.leaf, BUILTIN_MACROS.len())];
        return Step { omit: Omit::NONE, op: b.0.into(), args: vec![], inv: inv_of(r.inv, true, mode) };
    }
    let spec = &LEAVES[pick(r.leaf, 5)]; // helmert, utm, tmerc, cart, addone
    let mut args: Vec<Arg> = vec![];
    // a required key is always present (in some form)
    let required_only = [RawArg { key: r.target, from_gamut: true, ty: 0, form: r.inv, name: r.leaf, biased: true, lit: r.target, def: r.leaf }];
    let raws: &[RawArg] = if r.args.is_empty() && spec.required.is_some() { &required_only } else { &r.args };
    for (i, a) in raws.iter().enumerate() {
        let (key, ty) = if i == 0 && spec.required.is_some() {
            (spec.required.unwrap().to_string(), 0)
        } else if a.from_gamut && a.ty == 2 && !spec.flags.is_empty() {
            (spec.flags[pick(a.key, spec.flags.len())].to_string(), 2)
        } else if a.from_gamut && a.ty == 1 && spec.ellps {
            ("ellps".to_string(), 1)
        } else if a.from_gamut && !spec.num.is_empty() {
            (spec.num[pick(a.key, spec.num.len())].to_string(), 0)
        } else {
            (pool_of(a.ty)[pick(a.key, pool_of(a.ty).len())].to_string(), a.ty)
        };
        let val = val_of(a, &key, ty, names, false, mode);
        args.push(Arg { key, val });
    }
    tidy_args(&mut args);
    // a bound `inv` replaces the positional modifier
    let inv = if args.iter().any(|a| a.key == "inv") { InvPos::No } else { inv_of(r.inv, false, mode) };
    Step { omit: Omit::NONE, op: spec.name.into(), args, inv }
}

fn arg_mut<'a>(lib: &'a mut [Macro], top: &'a mut [Step], id: ArgId) -> Option<&'a mut Arg> {
    let steps: &mut [Step] = if id.0 < 0 { top } else { &mut lib.get_mut(id.0 as usize)?.body };
    steps.get_mut(id.1 as usize)?.args.get_mut(id.2 as usize)
}

fn literal_for(a: &Arg) -> Val {
    match &a.val {
        Val::RefDef(_, d) | Val::Def(d) => Val::Lit(d.clone()),
        _ => Val::Lit(if is_flag_name(&a.key) {
            "true".into()
        } else if is_ell_name(&a.key) {
            "intl".into()
        } else {
            "4".into()
        }),
    }
}

fn build_case(raw: &RawCase, mode: Mode) -> Case {
    let n = raw.depth + 1 + raw.extras;
    let name_of = |i: usize| format!("{}:m{}", ["lib", "p", "geo"][i % 3], i);
    // names that some invocation supplies: references are biased towards them so that
    // bindings resolve often
    let mut names = Names([vec![], vec!["ellps".into()], vec![]]);
    for a in raw.top_args.iter().chain(raw.top_args.iter()).chain(raw.top_args.iter()).chain(raw.macros.iter().take(n).flatten().filter(|s| s.kind < 7).flat_map(|s| s.args.iter())) {
        names.0[a.ty as usize].push(pool_of(a.ty)[pick(a.key, pool_of(a.ty).len())].to_string());
    }
    let mut lib: Vec<Macro> = vec![];
    for i in 0..n {
        let raws = &raw.macros[i];
        let mut body: Vec<Step> = vec![];
        let mut has_chain = false;
        for r in raws {
            // kind 0..6: reference to a macro further down (acyclic by construction)
            let target = if r.kind < 7 && i + 1 < n {
                let t = i + 1 + pick(r.target, (n - i - 1).min(2));
                has_chain |= t == i + 1;
                Some(name_of(t))
            } else {
                None
            };
            body.push(interpret_step(r, target, &names, mode));
        }
        if i < raw.depth && !has_chain {
            // the nesting chain 0 -> 1 -> ... -> depth
            let k = pick(raw.force[i], raws.len());
            body[k] = interpret_step(&raws[k], Some(name_of(i + 1)), &names, mode);
        }
        lib.push(Macro { name: name_of(i), body });
    }
    // bound the size of the expansion: keep the first reference to the next macro, turn
    // surplus references into plain steps
    loop {
        let mut cnt = vec![0usize; n];
        for i in (0..n).rev() {
            cnt[i] = lib[i].body.iter().map(|s| match s.op.rsplit_once(":m").and_then(|(_, k)| k.parse::<usize>().ok()) {
                Some(t) if s.is_macro() && t < n => cnt[t],
                _ => 1,
            }).sum();
        }
        if cnt[0] <= 40 {
            break;
        }
        let mut done = false;
        'outer: for i in 0..n {
            let mut seen_chain = false;
            for s in lib[i].body.iter_mut() {
                if s.is_macro() && s.op.contains(":m") {
                    if !seen_chain && s.op == name_of(i + 1) {
                        seen_chain = true;
                        continue;
                    }
                    *s = Step { omit: Omit::NONE, op: "addone".into(), args: vec![], inv: InvPos::No };
                    done = true;
                    break 'outer;
                }
            }
        }
        if !done {
            break;
        }
    }

    // the invocation
    let mut top_args: Vec<Arg> = raw
        .top_args
        .iter()
        .map(|a| {
            let key = pool_of(a.ty)[pick(a.key, pool_of(a.ty).len())];
            let mut v = val_of(a, key, a.ty, &names, true, Mode::Forwarding);
            // the outermost invocation has no caller: mostly literal values
            if a.form % 5 != 0 || mode != Mode::Forwarding {
                let lits: &[&str] = lits_of(a.ty);
                v = if a.ty == 2 && a.lit % 2 == 0 { Val::Flag } else { Val::Lit(lits[pick(a.lit, lits.len())].to_string()) };
            }
            Arg { key: key.to_string(), val: v }
        })
        .collect();
    tidy_args(&mut top_args);
    let main = Step { omit: Omit::NONE, op: name_of(0), args: top_args, inv: inv_of(raw.top_inv, true, mode) };
    let simple = |r: &RawStep| -> Step {
        let mut s = interpret_step(&RawStep { kind: 10, ..r.clone() }, None, &Names([vec![], vec![], vec![]]), mode);
        // outside any macro there is nothing to bind to
        for a in s.args.iter_mut() {
            if !matches!(a.val, Val::Lit(_) | Val::Flag) {
                a.val = literal_for(a);
            }
        }
        s
    };
    let mut top = match raw.top_kind {
        0..=3 => vec![main],
        4 => vec![simple(&raw.pre), main],
        5 => vec![main, simple(&raw.post)],
        _ => vec![simple(&raw.pre), main, simple(&raw.post)],
    };
    let twin = if top.len() == 1 && top[0].inv == InvPos::No {
        match (raw.twin, mode) {
            (0..=2, _) => InvPos::No,
            (3..=4, _) => InvPos::Infix,
            (5, Mode::InvPos) | (6, Mode::InvPos) => InvPos::Prefix,
            _ => InvPos::Suffix,
        }
    } else {
        InvPos::No
    };

    // stay outside registered defect classes where the section says so
    let mut excluded = 0u32;
    if mode == Mode::InvPos {
        for s in top.iter_mut().chain(lib.iter_mut().flat_map(|m| m.body.iter_mut())).filter(|s| s.is_macro()) {
            for a in s.args.iter_mut() {
                if !matches!(a.val, Val::Lit(_) | Val::Flag) {
                    a.val = literal_for(a);
                }
            }
        }
    }
    if mode == Mode::Safe {
        for _ in 0..64 {
            let x = expand(&lib, &top);
            let culprits: BTreeSet<ArgId> = x.unsafe_feats.iter().map(|(_, id)| *id).collect();
            if culprits.is_empty() {
                break;
            }
            for id in culprits {
                if let Some(a) = arg_mut(&mut lib, &mut top, id) {
                    a.val = literal_for(a);
                    excluded += 1;
                }
            }
        }
    }
    Case { ctx: raw.ctx, lib, top, twin, excluded_known: excluded }
}

// ---- enumeration of the binding forms over two nesting levels -----------------------------

/// index -> case. Three names from {s, x, y} (all of them helmert parameters, so every value
/// is visible in the output): K the operator key, P the inner macro's parameter, Q the outer
/// macro's parameter; every form of the leaf binding x every form of the nested invocation
/// argument x every subset of {s, x, y} given by the outermost caller. All literals distinct.
const VALUE_FORMS_N: usize = 27 * 5 * 5 * 8 + 9 * 5 * 8;
const FLAG_FORMS_N: usize = 5 * 3 * 6 * 8 + 5 * 3 * 6 * 3 * 5 * 8;
const NEAR_MISS_N: usize = 10 * 4 * 5 * 3 * 2;
const FORMS_N: usize = VALUE_FORMS_N + FLAG_FORMS_N + NEAR_MISS_N;

/// Parameter names that merely resemble a modifier, on invocations with and without a genuine
/// `inv` in every position, at the outermost and at a nested invocation, before or after another
/// argument: `i:m = helmert x=$<name> y=$<other>(0)`, optionally called through `o:m = i:m <other>=7`.
fn near_miss_case(i: usize) -> Case {
    let pos = |k: usize| [InvPos::No, InvPos::Prefix, InvPos::Infix, InvPos::Suffix][k];
    let (n, top_inv, nest, ctx, order) = (i % 10, (i / 10) % 4, (i / 40) % 5, (i / 200) % 3, (i / 600) % 2);
    let (name, other) = (NEAR_MISS[n], NEAR_MISS[(n + 3) % 10]);
    let lit = |k: &str, v: &str| Arg { key: k.into(), val: Val::Lit(v.into()) };
    let leaf = Step {
        omit: Omit::NONE,
        op: "helmert".into(),
        args: vec![Arg { key: "x".into(), val: Val::Ref(name.into()) }, Arg { key: "y".into(), val: Val::RefDef(other.into(), "0".into()) }],
        inv: InvPos::No,
    };
    let mut top_args = vec![lit(name, "5")];
    if order == 1 {
        top_args.insert(0, lit("z", "3"));
    } else {
        top_args.push(lit("z", "3"));
    }
    let inner = Macro { name: "i:m".into(), body: vec![leaf] };
    if nest == 0 {
        return Case { ctx: ctx as u8, lib: vec![inner], top: vec![Step { omit: Omit::NONE, op: "i:m".into(), args: top_args, inv: pos(top_inv) }], twin: InvPos::Suffix, excluded_known: 0 };
    }
    let outer = Macro { name: "o:m".into(), body: vec![Step { omit: Omit::NONE, op: "i:m".into(), args: vec![lit(other, "7")], inv: pos(nest - 1) }] };
    Case { ctx: ctx as u8, lib: vec![outer, inner], top: vec![Step { omit: Omit::NONE, op: "o:m".into(), args: top_args, inv: pos(top_inv) }], twin: InvPos::Prefix, excluded_known: 0 }
}

/// The same for flag-typed operator keys: utm south, addone inv, helmert exact, geodesic reversible,
/// latitude geocentric; forms of the operator parameter {absent, bare word, =true, $P, $P(true), (true)},
/// forms of the nested invocation argument P {absent, bare word, $Q, $Q(true), (true)}; P, Q over
/// {f, g, K} (K itself, h for inv); every subset of the three names given by the outermost caller
/// (as a bare word or as =true). `K=$P` without a P must be an error whatever the type of K.
fn flag_forms_case(i: usize) -> Case {
    let lit = |k: &str, v: &str| Arg { key: k.into(), val: Val::Lit(v.into()) };
    let (direct_n, nested) = (5 * 3 * 6 * 8, i >= 5 * 3 * 6 * 8);
    let j = if nested { i - direct_n } else { i };
    let (leaf_k, p, fi) = (j % 5, (j / 5) % 3, (j / 15) % 6);
    let (q, fo, subset) = if nested { ((j / 90) % 3, (j / 270) % 5, j / 1350) } else { (0, 0, j / 90) };
    let (op, key, fixed): (&str, &str, Vec<Arg>) = match leaf_k {
        0 => ("utm", "south", vec![lit("zone", "32")]),
        1 => ("addone", "inv", vec![]),
        2 => ("helmert", "exact", vec![lit("rx", "1"), lit("ry", "2"), lit("rz", "3"), lit("convention", "position_vector")]),
        3 => ("geodesic", "reversible", vec![]),
        _ => ("latitude", "geocentric", vec![]),
    };
    let names = ["f", "g", if key == "inv" { "h" } else { key }];
    let mut args = fixed;
    match fi {
        0 => {}
        1 => args.push(Arg { key: key.into(), val: Val::Flag }),
        2 => args.push(lit(key, "true")),
        3 => args.push(Arg { key: key.into(), val: Val::Ref(names[p].into()) }),
        4 => args.push(Arg { key: key.into(), val: Val::RefDef(names[p].into(), "true".into()) }),
        _ => args.push(Arg { key: key.into(), val: Val::Def("true".into()) }),
    }
    let top_args: Vec<Arg> = (0..3)
        .filter(|b| subset & (1 << b) != 0)
        .map(|b| if b % 2 == 0 { Arg { key: names[b].into(), val: Val::Flag } } else { lit(names[b], "true") })
        .collect();
    let inner = Macro { name: "i:m".into(), body: vec![Step { omit: Omit::NONE, op: op.into(), args, inv: InvPos::No }] };
    if !nested {
        return Case { ctx: (i % 3) as u8, lib: vec![inner], top: vec![Step { omit: Omit::NONE, op: "i:m".into(), args: top_args, inv: InvPos::No }], twin: InvPos::Suffix, excluded_known: 0 };
    }
    let call_args: Vec<Arg> = match fo {
        0 => vec![],
        1 => vec![Arg { key: names[p].into(), val: Val::Flag }],
        2 => vec![Arg { key: names[p].into(), val: Val::Ref(names[q].into()) }],
        3 => vec![Arg { key: names[p].into(), val: Val::RefDef(names[q].into(), "true".into()) }],
        _ => vec![Arg { key: names[p].into(), val: Val::Def("true".into()) }],
    };
    let outer = Macro { name: "o:m".into(), body: vec![Step { omit: Omit::NONE, op: "i:m".into(), args: call_args, inv: InvPos::No }] };
    Case { ctx: (i % 3) as u8, lib: vec![outer, inner], top: vec![Step { omit: Omit::NONE, op: "o:m".into(), args: top_args, inv: InvPos::No }], twin: InvPos::Infix, excluded_known: 0 }
}

fn forms_case(i: usize) -> Case {
    if i >= VALUE_FORMS_N + FLAG_FORMS_N {
        return near_miss_case(i - VALUE_FORMS_N - FLAG_FORMS_N);
    }
    if i >= VALUE_FORMS_N {
        return flag_forms_case(i - VALUE_FORMS_N);
    }
    let names = ["s", "x", "y"];
    let top_vals = ["11", "12", "13"];
    let form = |f: usize, key: &str, name: &str, lit: &str, def: &str| -> Option<Arg> {
        let val = match f {
            0 => return None,
            1 => Val::Lit(lit.into()),
            2 => Val::Ref(name.into()),
            3 => Val::RefDef(name.into(), def.into()),
            _ => Val::Def(def.into()),
        };
        Some(Arg { key: key.into(), val })
    };
    let three = 27 * 5 * 5 * 8;
    let (k, p, q, fi, fo, subset, nested) = if i < three {
        (i % 3, (i / 3) % 3, (i / 9) % 3, (i / 27) % 5, (i / 135) % 5, i / 675, true)
    } else {
        let j = i - three;
        (j % 3, (j / 3) % 3, 0, (j / 9) % 5, 0, j / 45, false)
    };
    let top_args: Vec<Arg> = (0..3).filter(|b| subset & (1 << b) != 0).map(|b| Arg { key: names[b].into(), val: Val::Lit(top_vals[b].into()) }).collect();
    let leaf = Step { omit: Omit::NONE, op: "helmert".into(), args: form(fi, names[k], names[p], "31", "32").into_iter().collect(), inv: InvPos::No };
    let inner = Macro { name: "i:m".into(), body: vec![leaf] };
    if nested {
        let call = Step { omit: Omit::NONE, op: "i:m".into(), args: form(fo, names[p], names[q], "21", "22").into_iter().collect(), inv: InvPos::No };
        let outer = Macro { name: "o:m".into(), body: vec![call] };
        Case { ctx: (i % 3) as u8, lib: vec![outer, inner], top: vec![Step { omit: Omit::NONE, op: "o:m".into(), args: top_args, inv: InvPos::No }], twin: InvPos::Suffix, excluded_known: 0 }
    } else {
        Case { ctx: (i % 3) as u8, lib: vec![inner], top: vec![Step { omit: Omit::NONE, op: "i:m".into(), args: top_args, inv: InvPos::No }], twin: InvPos::Infix, excluded_known: 0 }
    }
}

// ---- chains of depth 0..60 ----------------------------------------------------------------

const CHAIN_N: usize = 61 * 4 * 2 * 2 * 3;
fn chain_case(i: usize) -> Case {
    let depth = i % 61;
    let shape = (i / 61) % 4;
    let in_pipeline = (i / 244) % 2 == 1;
    let inv = (i / 488) % 2 == 1;
    let ctx = (i / 976) % 3;
    let mut lib = vec![];
    for d in 0..=depth {
        let body = if d == depth {
            let leaf = Step { omit: Omit::NONE, op: "helmert".into(), args: vec![Arg { key: "x".into(), val: Val::RefDef("a".into(), "1".into()) }, Arg { key: "y".into(), val: Val::Ref("c".into()) }], inv: InvPos::No };
            // in the pipeline shapes the consuming operator is not the first step of its body
            if shape == 0 {
                vec![leaf]
            } else {
                vec![Step { omit: Omit::NONE, op: "addone".into(), args: vec![], inv: InvPos::No }, leaf]
            }
        } else {
            let next = Step { omit: Omit::NONE, op: format!("c:m{}", d + 1), args: vec![], inv: if inv && d % 2 == 1 { InvPos::Suffix } else { InvPos::No } };
            let one = Step { omit: Omit::NONE, op: "addone".into(), args: vec![], inv: InvPos::No };
            match shape {
                0 => vec![next],
                1 => vec![next, one],
                2 => vec![one, next],
                _ => vec![one.clone(), next, one],
            }
        };
        lib.push(Macro { name: format!("c:m{d}"), body });
    }
    let main = Step {
        omit: Omit::NONE,
        op: "c:m0".into(),
        args: vec![Arg { key: "c".into(), val: Val::Lit("7".into()) }, Arg { key: "a".into(), val: Val::Lit("3".into()) }],
        inv: if inv { InvPos::Infix } else { InvPos::No },
    };
    let top = if in_pipeline { vec![Step { omit: Omit::NONE, op: "addone".into(), args: vec![], inv: InvPos::No }, main] } else { vec![main] };
    Case { ctx: ctx as u8, lib, top, twin: if inv { InvPos::No } else { InvPos::Suffix }, excluded_known: 0 }
}

// ---- (b) arbitrary resource graphs ------------------------------------------------------------

#[derive(Clone, Debug, Serialize, Deserialize)]
struct GCase {
    ctx: u8,
    forced_cycle: usize,
    lib: Vec<Macro>,
    top: Vec<Step>,
}

#[derive(Clone, Debug)]
struct RawG {
    ctx: u8,
    n: usize,
    cycle: usize,
    bodies: Vec<Vec<(u8, u16, u8, u8)>>,
    force: Vec<u16>,
    top: (u8, u8, u8),
}

fn raw_graph() -> impl Strategy<Value = RawG> {
    (
        0u8..3,
        1usize..=10,
        prop_oneof![2 => Just(0usize), 8 => 1usize..=8],
        prop::collection::vec(prop::collection::vec((0u8..20, any::<u16>(), 0u8..20, 0u8..10), 1..=3), 10),
        prop::collection::vec(any::<u16>(), 10),
        (0u8..6, 0u8..20, 0u8..10),
    )
        .prop_map(|(ctx, n, cycle, bodies, force, top)| RawG { ctx, n, cycle, bodies, force, top })
}

fn g_args(k: u8) -> Vec<Arg> {
    let a = |k: &str, v: Val| Arg { key: k.into(), val: v };
    match k {
        0..=3 => vec![],
        4 => vec![a("a", Val::Lit("3".into()))],
        5 => vec![a("b", Val::Ref("a".into()))],
        6 => vec![a("a", Val::Ref("a".into()))],
        7 => vec![a("a", Val::Def("2".into()))],
        8 => vec![a("a", Val::RefDef("b".into(), "5".into())), a("c", Val::Lit("1".into()))],
        _ => vec![a("a", Val::Ref("b".into())), a("b", Val::Ref("a".into()))],
    }
}

fn g_inv(k: u8) -> InvPos {
    match k {
        0..=13 => InvPos::No,
        14..=16 => InvPos::Infix,
        _ => InvPos::Suffix,
    }
}

fn g_step(r: &(u8, u16, u8, u8), n: usize) -> Step {
    let (kind, target, inv, arg) = *r;
    match kind {
        0..=10 => Step { omit: Omit::NONE, op: format!("g:n{}", pick(target, n)), args: g_args(arg), inv: g_inv(inv) },
        11 => Step { omit: Omit::NONE, op: "g:none".into(), args: g_args(arg), inv: g_inv(inv) },
        12..=14 => Step { omit: Omit::NONE, op: "addone".into(), args: vec![], inv: g_inv(inv) },
        15..=16 => Step { omit: Omit::NONE, op: "helmert".into(), args: vec![Arg { key: "x".into(), val: Val::RefDef("a".into(), "1".into()) }], inv: g_inv(inv) },
        17 => Step { omit: Omit::NONE, op: "helmert".into(), args: vec![Arg { key: "y".into(), val: Val::Def("2".into()) }], inv: g_inv(inv) },
        18 => Step { omit: Omit::NONE, op: "noop".into(), args: vec![], inv: InvPos::No },
        _ => Step { omit: Omit::NONE, op: "geo:in".into(), args: vec![], inv: g_inv(inv) },
    }
}

/// Model of the work the library's depth-first instantiation does (same order, stops at the first
/// error, recursion breaker at level 100): used only to keep generated graphs tractable - an
/// acyclic graph with branching bodies legitimately expands to exponentially many steps.
fn sim_cost(lib: &BTreeMap<String, Vec<Step>>, steps: &[Step], level: usize, cost: &mut usize, limit: usize) -> bool {
    if level > 100 || *cost > limit {
        return false;
    }
    let single = steps.len() == 1;
    for s in steps {
        let l = if single { level } else { level + 1 + s.is_macro() as usize };
        if l > 100 {
            return false;
        }
        *cost += 1;
        if s.is_macro() && !BUILTIN_MACROS.iter().any(|b| b.0 == s.op) {
            let Some(body) = lib.get(&s.op) else { return false };
            if !sim_cost(lib, body, l + 2, cost, limit) {
                return false;
            }
        }
    }
    true
}

fn build_graph(raw: &RawG) -> GCase {
    build_graph_with(raw, 20_000)
}

fn build_graph_with(raw: &RawG, limit: usize) -> GCase {
    let n = raw.n.max(raw.cycle);
    let mut lib: Vec<Macro> = (0..n).map(|i| Macro { name: format!("g:n{i}"), body: raw.bodies[i].iter().map(|r| g_step(r, n)).collect() }).collect();
    for i in 0..raw.cycle {
        let want = format!("g:n{}", (i + 1) % raw.cycle);
        if !lib[i].body.iter().any(|s| s.op == want) {
            let k = pick(raw.force[i], lib[i].body.len());
            lib[i].body[k] = Step { omit: Omit::NONE, op: want, args: g_args(raw.bodies[i][k].3), inv: g_inv(raw.bodies[i][k].2) };
        }
    }
    let main = Step { omit: Omit::NONE, op: "g:n0".into(), args: g_args(raw.top.2), inv: g_inv(raw.top.1) };
    let top = match raw.top.0 {
        0..=3 => vec![main],
        4 => vec![Step { omit: Omit::NONE, op: "addone".into(), args: vec![], inv: InvPos::No }, main],
        _ => vec![main, Step { omit: Omit::NONE, op: "g:n0".into(), args: vec![], inv: InvPos::Suffix }],
    };
    // keep the amount of legitimate work bounded
    for keep in [2usize, 1] {
        let map: BTreeMap<String, Vec<Step>> = lib.iter().map(|m| (m.name.clone(), m.body.clone())).collect();
        let mut cost = 0usize;
        let start = if top.len() == 1 { 2 } else { 0 };
        sim_cost(&map, &top, start, &mut cost, limit);
        if cost <= limit {
            break;
        }
        for m in lib.iter_mut() {
            // drop surplus branches, but keep the forced cycle edge
            let idx = m.name[3..].parse::<usize>().unwrap_or(0);
            let want = if idx < raw.cycle { Some(format!("g:n{}", (idx + 1) % raw.cycle)) } else { None };
            let mut kept: Vec<Step> = vec![];
            for s in m.body.iter() {
                if kept.len() < keep || Some(&s.op) == want.as_ref() && !kept.iter().any(|k| Some(&k.op) == want.as_ref()) {
                    kept.push(s.clone());
                }
            }
            if let Some(w) = &want {
                if !kept.iter().any(|k| &k.op == w) {
                    let last = kept.len() - 1;
                    kept[last] = m.body.iter().find(|s| &s.op == w).unwrap().clone();
                }
            }
            m.body = kept;
        }
    }
    GCase { ctx: raw.ctx, forced_cycle: raw.cycle, lib, top }
}

/// (reachable cycle length if any, missing macro reachable)
fn graph_shape(lib: &[Macro], top: &[Step]) -> (Option<usize>, bool) {
    let map: BTreeMap<&str, &Macro> = lib.iter().map(|m| (m.name.as_str(), m)).collect();
    let mut missing = false;
    let mut cycle: Option<usize> = None;
    let mut state: BTreeMap<&str, u8> = BTreeMap::new();
    fn dfs<'a>(name: &'a str, map: &BTreeMap<&'a str, &'a Macro>, state: &mut BTreeMap<&'a str, u8>, stack: &mut Vec<&'a str>, missing: &mut bool, cycle: &mut Option<usize>) {
        if BUILTIN_MACROS.iter().any(|b| b.0 == name) {
            return;
        }
        let Some(m) = map.get(name) else {
            *missing = true;
            return;
        };
        match state.get(name) {
            Some(1) => {
                let pos = stack.iter().position(|s| *s == name).unwrap_or(0);
                let len = stack.len() - pos;
                *cycle = Some(cycle.map_or(len, |c| c.min(len)));
                return;
            }
            Some(_) => return,
            None => {}
        }
        state.insert(name, 1);
        stack.push(name);
        for s in m.body.iter().filter(|s| s.is_macro()) {
            dfs(&s.op, map, state, stack, missing, cycle);
        }
        stack.pop();
        state.insert(name, 2);
    }
    let mut stack = vec![];
    for s in top.iter().filter(|s| s.is_macro()) {
        dfs(&s.op, &map, &mut state, &mut stack, &mut missing, &mut cycle);
    }
    (cycle, missing)
}

fn check_graph_with<C: Prep>(g: &GCase, rec: &mut Rec) -> CaseResult {
    let (cycle, missing) = graph_shape(&g.lib, &g.top);
    if cycle.is_none() && !missing {
        // finite expansion: the macro must mean it
        rec.class("acyclic-complete");
        let case = Case { ctx: g.ctx, lib: g.lib.clone(), top: g.top.clone(), twin: InvPos::Suffix, excluded_known: 0 };
        return check_with::<C>(&case, rec);
    }
    let invocation = steps_text(&g.top);
    let mut ctx: C = new_ctx(&g.lib);
    match instantiate(&mut ctx, &invocation) {
        Outcome::Panic(p) => vfail!(format!("panic-instantiate@{}", p.sig()), "library:\n{}  instantiating '{invocation}' panics: {} at {}:{}", lib_text(&g.lib), p.msg, p.file, p.line),
        Outcome::Ok(h) => {
            // must at least be usable without panic before we complain
            let _ = behave(&ctx, h, true);
            vfail!(
                if cycle.is_some() { "cyclic-definition-accepted" } else { "missing-macro-accepted" },
                "library:\n{}  '{invocation}' instantiates although the definition {}",
                lib_text(&g.lib),
                if cycle.is_some() { "is cyclic (its expansion is infinite)" } else { "refers to a macro that does not exist" }
            );
        }
        Outcome::Err(e) => {
            let kind = e.split('(').next().unwrap_or("?").to_string();
            rec.class(&format!("error={kind}"));
        }
    }
    if let Some(c) = cycle {
        rec.class(&format!("cycle-length={c}"));
        rec.nontrivial(&(lib_text(&g.lib), invocation));
    } else {
        rec.class("missing-macro");
    }
    if g.lib.iter().any(|m| m.body.iter().filter(|s| s.is_macro()).count() > 1) {
        rec.class("branching-bodies");
    }
    Ok(())
}

fn check_graph(g: &GCase, rec: &mut Rec) -> CaseResult {
    match g.ctx {
        0 => check_graph_with::<Minimal>(g, rec),
        1 => check_graph_with::<Plain>(g, rec),
        _ => check_graph_with::<GridCtx>(g, rec),
    }
}

// ---- histories: the meaning of an invocation does not depend on earlier instantiations ------

/// One step of a history: (optionally start a brand-new context,) register `lib`, instantiate
/// `top` `repeat` times.
#[derive(Clone, Debug, Serialize, Deserialize)]
struct HItem {
    /// the step re-registers a macro of an earlier step (evidence only)
    #[serde(default)]
    rereg: bool,
    new_ctx: bool,
    lib: Vec<Macro>,
    top: Vec<Step>,
    repeat: u8,
}

#[derive(Clone, Debug, Serialize, Deserialize)]
struct HCase {
    ctx: u8,
    items: Vec<HItem>,
}

/// What can be observed of one instantiation: Ok + behaviour in both directions, Err, or panic
#[derive(Clone, Debug)]
struct Obs {
    status: String,
    detail: String,
    data: Vec<Coor4D>,
}

fn observe<C: Context>(ctx: &mut C, text: &str) -> Obs {
    match instantiate(ctx, text) {
        Outcome::Panic(p) => Obs { status: "panic".into(), detail: format!("{} at {}:{}", p.msg, p.file, p.line), data: vec![] },
        Outcome::Err(e) => Obs { status: "Err".into(), detail: e, data: vec![] },
        Outcome::Ok(h) => {
            let (sf, mut df) = behave(&*ctx, h, true);
            let (si, di) = behave(&*ctx, h, false);
            df.extend(di);
            Obs { status: "Ok".into(), detail: format!("fwd {sf}, inv {si}"), data: df }
        }
    }
}

fn same_obs(a: &Obs, b: &Obs) -> bool {
    a.status == b.status && (a.status != "Ok" || (a.detail == b.detail && vec_bits_eq(&a.data, &b.data)))
}

fn history_with<C: Context>(case: &HCase, rec: &mut Rec) -> CaseResult {
    // the history, on one thread
    let seen: Vec<Vec<Obs>> = isolated(|| {
        let mut ctx = C::new();
        let mut out = vec![];
        for it in &case.items {
            if it.new_ctx {
                ctx = C::new();
            }
            for m in &it.lib {
                ctx.register_resource(&m.name, &steps_text(&m.body));
            }
            let text = steps_text(&it.top);
            out.push((0..it.repeat.max(1)).map(|_| observe(&mut ctx, &text)).collect());
        }
        out
    })?;
    // every step again, each on a thread and in a context that have seen nothing else
    let mut failures_before = 0usize;
    let mut first = 0usize;
    for (i, it) in case.items.iter().enumerate() {
        if it.new_ctx {
            first = i;
        }
        let text = steps_text(&it.top);
        let reference: Obs = isolated(|| {
            let mut ctx = C::new();
            for prev in &case.items[first..=i] {
                for m in &prev.lib {
                    ctx.register_resource(&m.name, &steps_text(&m.body));
                }
            }
            observe(&mut ctx, &text)
        })?;
        if reference.status == "panic" {
            vfail!("panic-instantiate-or-apply", "library:\n{}  '{text}' panics: {}", lib_text(&it.lib), reference.detail);
        }
        for (r, o) in seen[i].iter().enumerate() {
            if !same_obs(o, &reference) {
                let before: String = case.items[..i]
                    .iter()
                    .zip(&seen)
                    .map(|(p, os)| format!("    {}'{}' x{} -> {}\n", if p.new_ctx { "(new context) " } else { "" }, steps_text(&p.top), os.len(), os[0].status))
                    .collect();
                vfail!(
                    "instantiation-depends-on-history",
                    "after these instantiations on the same thread:\n{before}  (repetition {r}) library:\n{}  '{text}' -> {} ({})\n  but alone, in a new context on a new thread -> {} ({})",
                    lib_text(&it.lib), o.status, o.detail, reference.status, reference.detail
                        + &match first_bits_diff(&o.data, &reference.data) {
                            Some(k) if o.status == "Ok" && reference.status == "Ok" => format!(
                                "; probe {:?} {}: {} vs {}",
                                PROBES[k % 4], if k < 4 { "Fwd" } else { "Inv" }, fmt_c4(&o.data[k]), fmt_c4(&reference.data[k])
                            ),
                            _ => String::new(),
                        }
                );
            }
        }
        if it.rereg {
            let same_text = case.items[first..i].iter().any(|p| steps_text(&p.top) == text);
            rec.class(&format!("re-registration:{}:{}", if same_text { "same-text-again" } else { "other-text" }, reference.status));
        }
        if reference.status == "Ok" {
            rec.class("step=ok");
            if failures_before > 0 {
                rec.count("valid-after-failures", 1);
                rec.metric("failed-instantiations-before-a-valid-one", failures_before as f64);
            }
        } else {
            let kind = reference.detail.split('(').next().unwrap_or("?").to_string();
            rec.class(&format!("step=error:{kind}"));
            failures_before += seen[i].len();
        }
    }
    rec.class(&format!("ctx={}", case.ctx));
    rec.metric("history-length", case.items.len() as f64);
    let valid_after = case.items.iter().zip(&seen).scan(false, |failed, (_, os)| {
        let ok = os[0].status == "Ok";
        let r = ok && *failed;
        *failed |= !ok;
        Some(r)
    }).any(|b| b);
    if valid_after {
        rec.nontrivial(&case.items.iter().map(|it| steps_text(&it.top)).collect::<Vec<_>>());
    }
    Ok(())
}

fn check_history(case: &HCase, rec: &mut Rec) -> CaseResult {
    match case.ctx {
        0 => history_with::<Minimal>(case, rec),
        1 => history_with::<Plain>(case, rec),
        _ => history_with::<GridCtx>(case, rec),
    }
}

/// invocations that fail in or just below the top frame: missing argument, bad value, unknown
/// macro, unknown operator (alone or as a pipeline step), plus a valid one
fn faulty_item(k: u16, repeat: u8, new_ctx: bool) -> HItem {
    let st = |op: &str, args: Vec<Arg>| Step { omit: Omit::NONE, op: op.into(), args, inv: InvPos::No };
    let lit = |k: &str, v: &str| Arg { key: k.into(), val: Val::Lit(v.into()) };
    let lib = vec![
        Macro { name: "m:shift".into(), body: vec![st("helmert", vec![Arg { key: "x".into(), val: Val::Ref("amount".into()) }])] },
        Macro { name: "m:twice".into(), body: vec![st("m:shift", vec![Arg { key: "amount".into(), val: Val::Ref("by".into()) }]), st("addone", vec![]), st("m:shift", vec![Arg { key: "amount".into(), val: Val::Ref("by".into()) }])] },
    ];
    let top = match k % 8 {
        0 => vec![st("m:shift", vec![])],
        1 => vec![st("m:shift", vec![lit("amount", "abc")])],
        2 => vec![st("m:nope", vec![lit("amount", "1")])],
        3 => vec![st("nosuchop", vec![])],
        4 => vec![st("m:shift", vec![lit("amount", "1")]), st("nosuchop", vec![])],
        5 => vec![st("addone", vec![]), st("m:twice", vec![])],
        6 => vec![st("m:twice", vec![lit("by", "2")])],
        _ => vec![st("m:shift", vec![lit("amount", "3")])],
    };
    HItem { rereg: false, new_ctx, lib, top, repeat }
}

fn history_case() -> impl Strategy<Value = HCase> {
    let item = prop_oneof![
        4 => raw_graph().prop_map(|r| { let g = build_graph_with(&r, 600); (g.lib, g.top) }),
        1 => any::<u16>().prop_map(|k| { let g = cycle_case(pick(k, CYCLE_N)); (g.lib, g.top) }),
        3 => any::<u16>().prop_map(|k| { let f = faulty_item(k, 1, false); (f.lib, f.top) }),
        3 => raw_case(6).prop_map(|r| { let c = build_case(&r, Mode::Safe); (c.lib, c.top) }),
        3 => any::<u16>().prop_map(|k| { let c = chain_case(pick(k, CHAIN_N)); (c.lib, c.top) }),
    ];
    let rereg = (prop::bool::weighted(0.35), any::<u16>(), any::<u16>(), 0u8..6, prop::bool::weighted(0.75));
    (0u8..3, prop::collection::vec((item, 1u8..=3, prop::bool::weighted(0.15), rereg), 2..=9)).prop_map(|(ctx, v)| {
        let mut items: Vec<HItem> = vec![];
        let mut first = 0usize; // start of the current context's lineage
        for ((lib, top), repeat, new_ctx, (re, j, k, kind, same_text)) in v {
            if new_ctx {
                first = items.len();
            }
            let candidates: Vec<usize> = (first..items.len()).filter(|&j| !items[j].lib.is_empty()).collect();
            if re && !new_ctx && !candidates.is_empty() {
                // RE-REGISTRATION of one macro registered earlier in this context (top, middle or leaf of
                // its library) with a different body, then the byte-identical earlier invocation (or another)
                let j = candidates[pick(j, candidates.len())];
                let old = items[j].lib[pick(k, items[j].lib.len())].clone();
                let entry = items[j].top.iter().find(|s| s.is_macro()).map(|s| s.op.clone()).unwrap_or_else(|| old.name.clone());
                let new = redefine(&old, kind, &entry);
                let top = if same_text { items[j].top.clone() } else { top };
                items.push(HItem { rereg: true, new_ctx: false, lib: vec![new], top, repeat });
            } else {
                items.push(HItem { rereg: false, new_ctx, lib, top, repeat });
            }
        }
        HCase { ctx, items }
    })
}

/// A different body for an already registered macro: other constants, another binding form,
/// another direction, an extra step, a body that closes a cycle through `entry`, or a plain
/// operator (which opens a cycle the macro was part of).
fn redefine(old: &Macro, kind: u8, entry: &str) -> Macro {
    let mut body = old.body.clone();
    let one = Step { omit: Omit::NONE, op: "addone".into(), args: vec![], inv: InvPos::No };
    match kind {
        0 => {
            // other constants
            let mut changed = false;
            for a in body.iter_mut().flat_map(|s| s.args.iter_mut()) {
                match &mut a.val {
                    Val::Lit(v) if !is_ell_name(&a.key) && !is_flag_name(&a.key) && v.parse::<f64>().is_ok() => {
                        *v = if v == "9" { "8".into() } else { "9".into() };
                        changed = true;
                    }
                    Val::RefDef(_, d) | Val::Def(d) if d.parse::<f64>().is_ok() => {
                        *d = if d == "9" { "8".into() } else { "9".into() };
                        changed = true;
                    }
                    _ => {}
                }
            }
            if !changed {
                body.push(one);
            }
        }
        1 => {
            // another binding form
            let mut changed = false;
            for a in body.iter_mut().flat_map(|s| s.args.iter_mut()) {
                let numeric = !is_ell_name(&a.key) && !is_flag_name(&a.key);
                let new = match &a.val {
                    Val::Ref(n) if numeric => Some(Val::RefDef(n.clone(), "6".into())),
                    Val::RefDef(_, d) => Some(Val::Def(d.clone())),
                    Val::Def(d) => Some(Val::Lit(d.clone())),
                    Val::Lit(v) if numeric && v.parse::<f64>().is_ok() => Some(Val::Def("6".into())),
                    _ => None,
                };
                if let Some(v) = new {
                    a.val = v;
                    changed = true;
                    break;
                }
            }
            if !changed {
                body.insert(0, one);
            }
        }
        2 => {
            // the other direction
            let s = &mut body[0];
            if !s.args.iter().any(|a| a.key == "inv") {
                s.inv = if s.inv == InvPos::No { InvPos::Suffix } else { InvPos::No };
            }
            body.push(one);
        }
        3 => body.push(one),
        4 => {
            // closes a cycle when the macro is reachable from the earlier invocation
            body = vec![one, Step { omit: Omit::NONE, op: entry.to_string(), args: vec![], inv: InvPos::No }];
        }
        _ => {
            // a plain operator: opens any cycle the macro was part of
            body = vec![Step { omit: Omit::NONE, op: "helmert".into(), args: vec![Arg { key: "z".into(), val: Val::Lit("5".into()) }], inv: InvPos::No }];
        }
    }
    Macro { name: old.name.clone(), body }
}

/// Pure cycles of every length 1..8 x body kind x position of the back edge x context
const CYCLE_N: usize = 8 * 4 * 3 * 3;
fn cycle_case(i: usize) -> GCase {
    let len = 1 + i % 8;
    let shape = (i / 8) % 4;
    let argk = [0u8, 6, 9][(i / 32) % 3];
    let ctx = (i / 96) % 3;
    let one = Step { omit: Omit::NONE, op: "addone".into(), args: vec![], inv: InvPos::No };
    let lib: Vec<Macro> = (0..len)
        .map(|d| {
            let next = Step { omit: Omit::NONE, op: format!("g:n{}", (d + 1) % len), args: g_args(argk), inv: if d % 3 == 2 { InvPos::Suffix } else { InvPos::No } };
            let body = match shape {
                0 => vec![next],
                1 => vec![next, one.clone()],
                2 => vec![one.clone(), next],
                _ => vec![one.clone(), next.clone(), next],
            };
            Macro { name: format!("g:n{d}"), body }
        })
        .collect();
    GCase { ctx: ctx as u8, forced_cycle: len, lib, top: vec![Step { omit: Omit::NONE, op: "g:n0".into(), args: g_args(4), inv: InvPos::No }] }
}

// ---- parameter names over the whole lexical order ------------------------------------------

/// Keys the library itself keeps in the maps the caller's arguments travel in (the tokenised
/// step: `_name`, the modifiers; the globals: `ellps`): a parameter name may sort anywhere
/// relative to each of them.
const RESERVED: [&str; 5] = ["_name", "ellps", "inv", "omit_fwd", "omit_inv"];

/// Parameter names spanning the lexical (byte) order: digits first, upper case, leading
/// underscore on either side of `_name`, names just before / just after / between the reserved
/// keys, prefixes and suffixes of them and of each other, one character, very long, non-ASCII
/// letters. None of them is a key of any operator used here, none is a reserved key, none ends in
/// a subscript digit (`x₀` is documented sugar for `x_0`). ty: 0 numeric, 1 ellipsoid, 2 flag.
fn wide_names(ty: u8) -> &'static [String] {
    static POOLS: std::sync::OnceLock<[Vec<String>; 3]> = std::sync::OnceLock::new();
    let pools = POOLS.get_or_init(|| {
        let num: Vec<&str> = vec![
            // digits first
            "0", "007", "1st", "2nd", "9z",
            // upper case (also of operator keys: a different name)
            "A", "B2", "EAST", "N", "Q", "X", "Y", "Z", "ZONE", "Xx", "Zz",
            // leading underscore: before `_name`, its prefixes, its neighbours, its extensions, after it
            "_", "__", "_0", "_A", "_a", "_m", "_n", "_nam", "_namd", "_name2", "_name_", "_namf", "_o", "_x", "_z",
            // lower case: before / between / after ellps, inv, omit_fwd, omit_inv; prefixes and suffixes of them
            "a", "e", "el", "ellp", "ellpr", "ellpsoid", "ellpt", "h", "i", "im", "inu", "inv2", "inw", "j", "o", "omit_fwc",
            "omit_fwd2", "omit_fwe", "omit_i", "omit_inu", "omit_inv_", "omit_inw", "p", "zz", "zzzz", "nv", "lps", "mit_inv", "_inv", "_fwd", "ame",
            // non-ASCII letters (sort after every ASCII key)
            "ø", "Å", "λ", "φ1", "é", "ñame", "żółć", "東経", "_ø", "Ωmega",
        ];
        let mut num: Vec<String> = num.into_iter().map(String::from).collect();
        // very long names, one a prefix of the other
        num.push("parameter_with_a_rather_long_name_that_goes_on_and_on_and_on_0123456789".into());
        num.push("n".repeat(200));
        num.push("n".repeat(200) + "x");
        num.push("_".repeat(3) + &"N".repeat(300));
        num.sort();
        num.dedup();
        let ell: Vec<String> = ["0e", "E", "Ellps", "ELLPS_IN", "_e", "_named", "ellq", "ellipsoid", "elm", "invell", "omit_e", "zell", "øll"].iter().map(|s| s.to_string()).collect();
        let flag: Vec<String> = ["0f", "F", "South", "_f", "_name_f", "fl", "invflag", "k", "omit_f", "zf", "ßflag"].iter().map(|s| s.to_string()).collect();
        [num, ell, flag]
    });
    &pools[ty as usize]
}

/// Every key any leaf operator looks up: such a name is never handed out as a replacement
fn is_operator_key(n: &str) -> bool {
    LEAVES.iter().any(|l| l.gamut.contains(&n)) || RESERVED.contains(&n)
}

/// Where a name sorts relative to the reserved keys (evidence)
fn name_class(n: &str) -> String {
    let pos = RESERVED.iter().filter(|r| **r < n).count();
    let first = n.chars().next().unwrap_or(' ');
    let kind = if !n.is_ascii() {
        "non-ascii"
    } else if first.is_ascii_digit() {
        "digit-first"
    } else if first.is_ascii_uppercase() {
        "upper-case"
    } else if first == '_' {
        "underscore"
    } else {
        "lower-case"
    };
    let rel = match pos {
        0 => "before-_name".to_string(),
        5 => "after-omit_inv".to_string(),
        k => format!("after-{}", RESERVED[k - 1]),
    };
    format!("name:{kind}:{rel}{}", if n.len() > 60 { ":long" } else if n.chars().count() == 1 { ":one-char" } else { "" })
}

/// Exhaustive over the wide names: P the inner macro's parameter, Q the outer one's (Q = P, its
/// lexical successor, its predecessor, a far one); `helmert x=$P | x=$P(32)` (and `y=$Q(33)`, which
/// sees Q without its being handed on) as a single-operator or a pipeline body of i:m; invoked
/// directly or from o:m as `i:m` / `i:m P=21` / `i:m P=$Q` / `i:m P=$Q(22)` / `i:m P=(22)`; every
/// subset of {P, Q} given by the outermost caller (absent + `$P` => error), in either textual
/// order, with and without a lower-case companion; inverted twin in every position.
const PN_PER_NAME: usize = 4 * 2 * 6 * 4 * 2;
fn names_n() -> usize {
    wide_names(0).len() * PN_PER_NAME
}
fn names_case(i: usize) -> Case {
    let pool = wide_names(0);
    let n = pool.len();
    let j = i % n;
    let r = i / n;
    let (partner, lf, fo, subset, shape) = (r % 4, (r / 4) % 2, (r / 8) % 6, (r / 48) % 4, (r / 192) % 2);
    let p = pool[j].as_str();
    let q = match partner {
        0 => p,
        1 => pool[(j + 1) % n].as_str(),
        2 => pool[(j + n - 1) % n].as_str(),
        _ => pool[(j + n / 2) % n].as_str(),
    };
    let a = |k: &str, v: Val| Arg { key: k.into(), val: v };
    let lit = |v: &str| Val::Lit(v.into());
    let st = |op: &str, args: Vec<Arg>| Step { omit: Omit::NONE, op: op.into(), args, inv: InvPos::No };
    let x = a("x", if lf == 0 { Val::Ref(p.into()) } else { Val::RefDef(p.into(), "32".into()) });
    let y = a("y", Val::RefDef(q.into(), "33".into()));
    let body = if shape == 0 { vec![st("helmert", vec![x, y])] } else { vec![st("addone", vec![]), st("helmert", vec![x]), st("helmert", vec![y])] };
    let inner = Macro { name: "i:m".into(), body };
    let mut top_args = vec![];
    if subset & 1 != 0 {
        top_args.push(a(p, lit("11")));
    }
    if subset & 2 != 0 && q != p {
        top_args.push(a(q, lit("12")));
    }
    if (j + r) % 2 == 1 {
        top_args.reverse();
    }
    if (j + r / 2) % 2 == 0 {
        top_args.insert(top_args.len() / 2, a("c", lit("7")));
    }
    let twin = [InvPos::Suffix, InvPos::Infix, InvPos::Prefix][(r / 3) % 3];
    let ctx = (i % 3) as u8;
    if fo == 0 {
        return Case { ctx, lib: vec![inner], top: vec![Step { omit: Omit::NONE, op: "i:m".into(), args: top_args, inv: InvPos::No }], twin, excluded_known: 0 };
    }
    let call_args = match fo {
        1 => vec![],
        2 => vec![a(p, lit("21"))],
        3 => vec![a(p, Val::Ref(q.into()))],
        4 => vec![a(p, Val::RefDef(q.into(), "22".into()))],
        _ => vec![a(p, Val::Def("22".into()))],
    };
    let outer = Macro { name: "o:m".into(), body: vec![st("i:m", call_args)] };
    Case { ctx, lib: vec![outer, inner], top: vec![Step { omit: Omit::NONE, op: "o:m".into(), args: top_args, inv: InvPos::No }], twin, excluded_known: 0 }
}

/// Replace parameter names of a generated case by wide names, consistently (an injective map):
/// keys of invocation arguments, every `$name`, and step keys no operator looks up. Keys an
/// operator looks up stay. Three in four names are replaced.
fn rename_case(case: &mut Case, picks: &[u16]) {
    let mut names: BTreeSet<String> = BTreeSet::new();
    for s in case.top.iter().chain(case.lib.iter().flat_map(|m| m.body.iter())) {
        let gamut: &[&str] = leaf_spec(&s.op).map(|l| l.gamut).unwrap_or(&[]);
        for a in &s.args {
            if s.is_macro() || !gamut.contains(&a.key.as_str()) {
                names.insert(a.key.clone());
            }
            if let Val::Ref(n) | Val::RefDef(n, _) = &a.val {
                names.insert(n.clone());
            }
        }
    }
    for r in RESERVED.iter().filter(|r| **r != "ellps") {
        names.remove(*r);
    }
    let mut used: BTreeSet<String> = names.clone();
    let mut map: BTreeMap<String, String> = BTreeMap::new();
    for (k, name) in names.iter().enumerate() {
        let pk = picks[k % picks.len()];
        if pk % 4 == 0 {
            continue;
        }
        let ty = if is_ell_name(name) {
            1
        } else if is_flag_name(name) {
            2
        } else {
            0
        };
        let pool = wide_names(ty);
        let start = pick(pk, pool.len());
        if let Some(new) = (0..pool.len()).map(|d| &pool[(start + d) % pool.len()]).find(|c| !used.contains(*c) && !is_operator_key(c)) {
            used.insert(new.clone());
            map.insert(name.clone(), new.clone());
        }
    }
    for s in case.top.iter_mut().chain(case.lib.iter_mut().flat_map(|m| m.body.iter_mut())) {
        let gamut: &[&str] = leaf_spec(&s.op).map(|l| l.gamut).unwrap_or(&[]);
        let is_macro = s.is_macro();
        for a in s.args.iter_mut() {
            if is_macro || !gamut.contains(&a.key.as_str()) {
                if let Some(n) = map.get(&a.key) {
                    a.key = n.clone();
                }
            }
            if let Val::Ref(n) | Val::RefDef(n, _) = &mut a.val {
                if let Some(new) = map.get(n) {
                    *n = new.clone();
                }
            }
        }
        tidy_args(&mut s.args);
    }
}

fn mode_of(k: u8) -> Mode {
    match k % 3 {
        0 => Mode::Safe,
        1 => Mode::Forwarding,
        _ => Mode::InvPos,
    }
}

fn renamed_case() -> impl Strategy<Value = Case> {
    (raw_case(6), prop::collection::vec(any::<u16>(), 24), 0u8..3).prop_map(|(r, picks, mode)| {
        let mut c = build_case(&r, mode_of(mode));
        rename_case(&mut c, &picks);
        c
    })
}

// ---- one-way steps -------------------------------------------------------------------------

fn omit_of(kind: usize, form: u8) -> Omit {
    Omit { fwd: kind & 1 != 0, inv: kind & 2 != 0, form }
}

/// Exhaustive: body `ow:m` = s0 | s1 | s2 with s0 = addone, s1 = helmert x=$a(10) [inv], s2 = an
/// elementary step / a nested single-operator macro / a nested pipeline macro with a one-way step
/// of its own [inv]; each of the three steps {plain, omit_fwd, omit_inv, both} (64 patterns);
/// invoked plain, inverted (inv prefix / infix / suffix), through a wrapper macro that inverts it
/// (single-step and pipeline wrapper), doubly (wrapper inverted; wrapper of a wrapper) and triply
/// inverted; alone (then also the inverted twin, inv in every position) or as a step of a pipeline;
/// the spelling of the modifiers (`<` / `>`, word before / after the name / after the arguments,
/// `=true`) cycles.
const OW_N: usize = 64 * 3 * 2 * 2 * 10 * 2;
fn one_way_case(i: usize) -> Case {
    let (pat, k2, inv1, inv2, call, piped) = (i % 64, (i / 64) % 3, (i / 192) % 2, (i / 384) % 2, (i / 768) % 10, (i / 7680) % 2);
    let form = |d: usize| ((pat + k2 + call + piped + d) % 5) as u8;
    let a = |k: &str, v: Val| Arg { key: k.into(), val: v };
    let st = |op: &str, args: Vec<Arg>, inv: InvPos, omit: Omit| Step { omit, op: op.into(), args, inv };
    let ip = |on: usize, pos: usize| if on == 0 { InvPos::No } else { [InvPos::Suffix, InvPos::Prefix, InvPos::Infix][pos % 3] };
    let s0 = st("addone", vec![], InvPos::No, omit_of(pat % 4, form(0)));
    let s1 = st("helmert", vec![a("x", Val::RefDef("a".into(), "10".into()))], ip(inv1, pat), omit_of((pat / 4) % 4, form(1)));
    let s2 = match k2 {
        0 => st("helmert", vec![a("z", Val::Lit("5".into()))], ip(inv2, call), omit_of(pat / 16, form(2))),
        _ => st("n:m", vec![a("b", Val::Lit("4".into()))], ip(inv2, call), omit_of(pat / 16, form(2))),
    };
    let mut lib = vec![Macro { name: "ow:m".into(), body: vec![s0, s1, s2] }];
    if k2 == 1 {
        lib.push(Macro { name: "n:m".into(), body: vec![st("helmert", vec![a("y", Val::RefDef("b".into(), "20".into()))], InvPos::No, Omit::NONE)] });
    } else if k2 == 2 {
        lib.push(Macro {
            name: "n:m".into(),
            body: vec![
                st("helmert", vec![a("y", Val::RefDef("b".into(), "20".into()))], InvPos::No, Omit::NONE),
                st("addone", vec![], InvPos::No, omit_of(1 + (pat + call) % 2, form(3))),
            ],
        });
    }
    let none = Omit::NONE;
    let noop = st("noop", vec![], InvPos::No, none);
    lib.push(Macro { name: "w:m".into(), body: vec![st("ow:m", vec![], InvPos::Suffix, none)] });
    lib.push(Macro { name: "ww:m".into(), body: vec![st("w:m", vec![], InvPos::Prefix, none)] });
    lib.push(Macro { name: "pw:m".into(), body: vec![noop.clone(), st("ow:m", vec![], InvPos::Infix, none), noop.clone()] });
    let (name, inv) = match call {
        0 => ("ow:m", InvPos::No),
        1 => ("ow:m", InvPos::Prefix),
        2 => ("ow:m", InvPos::Infix),
        3 => ("ow:m", InvPos::Suffix),
        4 => ("w:m", InvPos::No),
        5 => ("w:m", InvPos::Infix),
        6 => ("ww:m", InvPos::No),
        7 => ("ww:m", InvPos::Suffix),
        8 => ("pw:m", InvPos::No),
        _ => ("pw:m", InvPos::Prefix),
    };
    let args = if (pat + call) % 2 == 0 { vec![a("a", Val::Lit("3".into()))] } else { vec![] };
    let main = st(name, args, inv, none);
    let top = if piped == 1 { vec![noop, main, st("addone", vec![], InvPos::No, none)] } else { vec![main] };
    Case { ctx: (i % 3) as u8, lib, top, twin: [InvPos::Suffix, InvPos::Infix, InvPos::Prefix][(i / 3) % 3], excluded_known: 0 }
}

/// A generated library with one-way steps sprinkled over every pipeline (bodies and invocation
/// text): 40% of the eligible steps, elementary or macro invocations alike
fn one_way_random() -> impl Strategy<Value = Case> {
    (raw_case(6), prop::collection::vec((0u8..20, 0u8..5), 32), 0u8..3, 0u8..3).prop_map(|(r, marks, mode, twin)| {
        let mut c = build_case(&r, mode_of(if mode == 1 { 2 } else { mode }));
        let mut k = 0usize;
        for steps in std::iter::once(&mut c.top).chain(c.lib.iter_mut().map(|m| &mut m.body)) {
            if steps.len() < 2 {
                continue;
            }
            for s in steps.iter_mut() {
                let (m, form) = marks[k % marks.len()];
                k += 1;
                s.omit = match m {
                    0..=3 => Omit { fwd: true, inv: false, form },
                    4..=6 => Omit { fwd: false, inv: true, form },
                    7 => Omit { fwd: true, inv: true, form },
                    _ => Omit::NONE,
                };
            }
        }
        // an invocation on its own: always with its inverted twin
        if c.top.len() == 1 && c.top[0].inv == InvPos::No && c.twin == InvPos::No {
            c.twin = [InvPos::Suffix, InvPos::Infix, InvPos::Prefix][twin as usize];
        }
        c
    })
}

// ---- parameter types x binding forms ---------------------------------------------------------

/// One operator parameter of a given type, with what the operator needs around it to show the
/// value in its output, and a pool of legal (and a few illegal) values of that type.
#[derive(Clone, Copy)]
struct Site {
    op: &'static str,
    key: &'static str,
    /// parameter type (OpParameter variant / what the value looks like), evidence label
    ty: &'static str,
    /// literal arguments of the same step
    fixed: &'static str,
    /// literal steps before / after the step in the same macro body (stack programs)
    pre: &'static [&'static str],
    post: &'static [&'static str],
    values: &'static [&'static str],
    /// needs the grids of the user context
    grid: bool,
    /// stack steps: no inverted invocation anywhere (see Expander::leaf)
    no_inv: bool,
}

const S0: Site = Site { op: "", key: "", ty: "", fixed: "", pre: &[], post: &[], values: &[], grid: false, no_inv: false };
const ELLIPSOIDS: &[&str] = &["intl", "6378137,298.257", "bessel", "6377563.396, 299.3249646", "WGS84", "6378388,297", "no_such_ellipsoid"];
const TRIPLES: &[&str] = &["1,2,3", "3,2,1", "2,3,1", "1, 3, 2", "1,1,2", "2,1,3"];
const FLAGS: &[&str] = &["true", "TRUE", "false", "True"];
const HELMERT_XYZ: &str = "helmert x=5 y=7 z=9";

const SITES: &[Site] = &[
    // Series
    Site { op: "helmert", key: "translation", ty: "series", values: &["1,2,3", "4,5,6", "-7,8.5,0.25", "0:30,1:0:36,2", "10, 20, 30", "1e3,-2e-1,3", "7,8"], ..S0 },
    Site { op: "helmert", key: "rotation", ty: "series", fixed: "convention=position_vector", values: &["1,2,3", "0:0:1,0:0:2,3", "-0.5,0.25,2", "3, 2, 1", "100,200,300"], ..S0 },
    Site { op: "helmert", key: "velocity", ty: "series", fixed: "t_epoch=2000", values: &["0.1,0.2,0.3", "1,-1,0.5", "0:30,0,0", "0.01, 0.02, 0.03", "3,2,1"], ..S0 },
    Site { op: "helmert", key: "angular_velocity", ty: "series", fixed: "convention=coordinate_frame t_epoch=2010 rotation=1,2,3", values: &["0.1,0.2,0.3", "1,-1,0.5", "0:0:30,0,0", "0.01, 0.02, 0.03"], ..S0 },
    Site { op: "axisswap", key: "order", ty: "series", values: &["2,1", "2,1,3,4", "3,-2,1", "-1,2", "4, 3, 2, 1", "1,1", "2,-1,3"], ..S0 },
    Site { op: "stack", key: "push", ty: "series", post: &[HELMERT_XYZ, "stack pop=3,2,1"], values: TRIPLES, no_inv: true, ..S0 },
    Site { op: "stack", key: "pop", ty: "series", pre: &["stack push=1,2,3", HELMERT_XYZ], values: TRIPLES, no_inv: true, ..S0 },
    Site { op: "stack", key: "roll", ty: "series", pre: &["stack push=1,2,3", HELMERT_XYZ], post: &["stack pop=1,2,3"], values: &["3,2", "3,1", "2,1", "3,-1", "3, -2"], no_inv: true, ..S0 },
    Site { op: "stack", key: "unroll", ty: "series", pre: &["stack push=1,2,3", HELMERT_XYZ], post: &["stack pop=1,2,3"], values: &["3,2", "3,1", "2,1", "3,-1", "3, -2"], no_inv: true, ..S0 },
    Site { op: "stack", key: "flip", ty: "series", pre: &["stack push=1,2", HELMERT_XYZ], post: &["stack pop=1,2"], values: &["3", "3,4", "4,3", "4", "2, 3"], no_inv: true, ..S0 },
    // Texts (lists of grid names, with optional and null entries, and names containing the
    // characters of the binding syntax)
    Site {
        op: "gridshift",
        key: "grids",
        ty: "texts",
        values: &["w.datum", "n.datum,w.datum", "w.datum,n.datum", "@nope.datum,n.datum,@null", "n.datum, @null", "g(1).datum,w.datum", "g$1.datum", "g:1.datum, w.datum", "@g(2.datum,n.datum", "nope.datum"],
        grid: true,
        ..S0
    },
    Site {
        op: "deformation",
        key: "grids",
        ty: "texts",
        fixed: "dt=10",
        values: &["w.deformation", "@nope.deformation,w.deformation", "n.deformation,w.deformation", "w.deformation, n.deformation", "n.deformation,@null", "d$1).deformation,n.deformation"],
        grid: true,
        ..S0
    },
    // Text: plain, and the a,rf form of an ellipsoid (a text that contains a comma)
    Site { op: "cart", key: "ellps", ty: "text-ellps", values: ELLIPSOIDS, ..S0 },
    Site { op: "tmerc", key: "ellps", ty: "text-ellps", fixed: "lon_0=9 lat_0=12:30", values: ELLIPSOIDS, ..S0 },
    Site { op: "utm", key: "ellps", ty: "text-ellps", fixed: "zone=32", values: ELLIPSOIDS, ..S0 },
    Site { op: "deformation", key: "ellps", ty: "text-ellps", fixed: "dt=10 grids=w.deformation", values: ELLIPSOIDS, grid: true, ..S0 },
    Site { op: "helmert", key: "convention", ty: "text", fixed: "rotation=100,200,300", values: &["position_vector", "coordinate_frame", "bursa_wolf", "position_vector"], ..S0 },
    Site { op: "adapt", key: "from", ty: "text", fixed: "to=enuf", values: &["neuf_deg", "enuf_gon", "wndf_gon", "sedf_rad", "neuf", "nsuf"], ..S0 },
    Site { op: "adapt", key: "to", ty: "text", fixed: "from=neuf_deg", values: &["enuf_gon", "wndf_gon", "sedf_rad", "neuf", "enuf_deg"], ..S0 },
    Site { op: "unitconvert", key: "xy_in", ty: "text", fixed: "xy_out=m", values: &["km", "ft", "us-ft", "mi", "furlong", "cm"], ..S0 },
    Site { op: "unitconvert", key: "z_out", ty: "text", fixed: "xy_in=km", values: &["km", "ft", "in", "cm", "us-yd"], ..S0 },
    // Natural
    Site { op: "utm", key: "zone", ty: "natural", values: &["32", "1", "60", "33", "07", "-1", "3.5"], ..S0 },
    // Real, sexagesimal and with hemisphere postfix
    Site { op: "tmerc", key: "lat_0", ty: "real-sexagesimal", fixed: "lon_0=9", values: &["55:30N", "12:30:36", "9:0:0S", "-0:30", "45.5", "33:15:00.5n", "1:2:3:4"], ..S0 },
    Site { op: "tmerc", key: "lon_0", ty: "real-sexagesimal", values: &["12:30:36E", "9:0:0W", "-0:30", "15", "8:45e"], ..S0 },
    Site { op: "merc", key: "lat_ts", ty: "real-sexagesimal", values: &["56:00N", "30:30S", "12", "0:45:30"], ..S0 },
    Site { op: "helmert", key: "x", ty: "real-sexagesimal", values: &["1:30", "2", "-0:0:36", "3e2", "4.25"], ..S0 },
    Site { op: "gridshift", key: "padding", ty: "real", fixed: "grids=n.datum,w.datum", values: &["0.5", "0", "1:30", "2"], grid: true, ..S0 },
    // Flags
    Site { op: "utm", key: "south", ty: "flag", fixed: "zone=32", values: FLAGS, ..S0 },
    Site { op: "helmert", key: "exact", ty: "flag", fixed: "rotation=100,200,300 convention=position_vector", values: FLAGS, ..S0 },
    Site { op: "deformation", key: "raw", ty: "flag", fixed: "dt=10 grids=w.deformation", values: FLAGS, grid: true, ..S0 },
];

/// In-memory grids of the user context: two overlapping datum grids (so the order of a list
/// matters), the same for deformation, and grids under names containing '(', ')', '$', ':'
fn typed_grids() -> &'static [(String, Arc<dyn Grid>)] {
    static GRIDS: std::sync::OnceLock<Vec<(String, Arc<dyn Grid>)>> = std::sync::OnceLock::new();
    GRIDS.get_or_init(|| {
        let mk = |bands: usize, rows: usize, cols: usize, base: f64| -> Vec<Vec<Vec<f64>>> {
            (0..bands).map(|b| (0..rows).map(|r| (0..cols).map(|c| base * (b as f64 + 1.0) + r as f64 * 0.25 - c as f64 * 0.125).collect()).collect()).collect()
        };
        let world = |bands: usize, base: f64| gravsoft_text(-90.0, 90.0, -180.0, 180.0, 45.0, 45.0, &mk(bands, 5, 9, base));
        let north = |bands: usize, base: f64| gravsoft_text(30.0, 80.0, -20.0, 40.0, 10.0, 10.0, &mk(bands, 6, 7, base));
        let mut out: Vec<(String, Arc<dyn Grid>)> = vec![];
        for (name, text) in [
            ("w.datum", world(2, 3.0)),
            ("n.datum", north(2, 7.0)),
            ("g(1).datum", north(2, 11.0)),
            ("g$1.datum", north(2, 13.0)),
            ("g:1.datum", north(2, 17.0)),
            ("g(2.datum", north(2, 19.0)),
            ("w.deformation", world(3, 2.0)),
            ("n.deformation", north(3, 5.0)),
            ("d$1).deformation", north(3, 9.0)),
        ] {
            let grid = BaseGrid::gravsoft(text.as_bytes()).expect("harness: the in-memory gravsoft grids are well-formed");
            out.push((name.to_string(), Arc::new(grid)));
        }
        out
    })
}

/// One typed parameter travelling down a chain of macros t:m0 -> ... -> t:m<depth>
#[derive(Clone, Debug)]
struct Strand {
    site: usize,
    /// rotation of the site's value pool: which value plays which role
    rot: usize,
    /// binding of the operator key in the innermost body: 0 absent (the caller's value is seen under
    /// the key itself), 1 literal, 2 $n, 3 $n(d), 4 (d)
    leaf: u8,
    /// argument of the invocation of t:m<i+1> in the body of t:m<i>: 0 none, 1 literal, 2 $n, 3 $n(d), 4 (d)
    fwd: Vec<u8>,
    /// argument of the outermost invocation: 0 none, 1 literal, 2 (d), 3 $n(d) (n given by nobody)
    caller: u8,
    /// parameter names per level: 0 the operator key itself at every level, 1 ascending, 2 descending
    scheme: u8,
}

const FORM_NAMES: [&str; 5] = ["absent", "literal", "$n", "$n(d)", "(d)"];
const CALLER_NAMES: [&str; 4] = ["absent", "literal", "(d)", "$n(d)"];

fn lit_step(text: &str) -> Step {
    let mut it = text.split_whitespace();
    let op = it.next().unwrap_or("noop").to_string();
    let args = it
        .map(|e| match e.split_once('=') {
            Some((k, v)) => Arg { key: k.into(), val: Val::Lit(v.into()) },
            None => Arg { key: e.into(), val: Val::Flag },
        })
        .collect();
    Step { omit: Omit::NONE, op, args, inv: InvPos::No }
}

fn bound(key: &str, form: u8, name: &str, value: &str) -> Option<Arg> {
    let val = match form {
        0 => return None,
        1 => Val::Lit(value.into()),
        2 => Val::Ref(name.into()),
        3 => Val::RefDef(name.into(), value.into()),
        _ => Val::Def(value.into()),
    };
    Some(Arg { key: key.into(), val })
}

#[derive(Clone, Debug, Serialize, Deserialize)]
struct TCase {
    case: Case,
    /// what the case crosses (evidence)
    labels: Vec<String>,
    /// some operator key is bound by a form other than a literal
    bound: bool,
}

/// `shape`: bit 0 the innermost body is a pipeline even when it has one step, bit 1 the other
/// bodies are pipelines, bits 2.. the invocation text (alone, or a step of a pipeline);
/// `invs`: bit i = the invocation of t:m<i> is inverted (ignored when a strand has stack steps)
fn typed_build(strands: &[Strand], depth: usize, shape: u8, invs: u8, ctx: u8, twin: u8) -> TCase {
    let none = Omit::NONE;
    let mut labels: Vec<String> = vec![format!("typed:depth={depth}"), format!("typed:strands={}", strands.len())];
    let no_inv = strands.iter().any(|s| SITES[s.site].no_inv);
    let grid = strands.iter().any(|s| SITES[s.site].grid);
    let pos = |k: usize| [InvPos::Suffix, InvPos::Infix, InvPos::Prefix][k % 3];
    let inv_at = |level: usize| if !no_inv && invs & (1 << level) != 0 { pos(level + shape as usize) } else { InvPos::No };
    let mut calls: Vec<Vec<Arg>> = vec![vec![]; depth + 1]; // calls[i]: arguments of the invocation of t:m<i>
    let mut body: Vec<Step> = vec![];
    let mut any_bound = false;
    for (si, s) in strands.iter().enumerate() {
        let site = &SITES[s.site];
        let value = |j: usize| site.values[(s.rot + j) % site.values.len()];
        let prefix = ["v", "w", "u", "r"][si % 4];
        // the name under which the value is known inside t:m<i>
        let name = |i: usize| -> String {
            if s.scheme == 0 || (i == depth && matches!(s.leaf, 0 | 4)) {
                site.key.to_string()
            } else {
                let k = if s.scheme == 1 { i } else { 3 - i.min(3) };
                format!("{prefix}{}", ["a", "b", "c", "d"][k])
            }
        };
        let mut roles: Vec<(&str, &str)> = vec![];
        match s.caller {
            0 => {}
            1 => calls[0].push(Arg { key: name(0), val: Val::Lit(value(1).into()) }),
            2 => calls[0].push(Arg { key: name(0), val: Val::Def(value(1).into()) }),
            _ => calls[0].push(Arg { key: name(0), val: Val::RefDef(format!("zz{prefix}"), value(1).into()) }),
        }
        if s.caller > 0 {
            roles.push((["", "caller-literal", "caller-(d)", "caller-$n(d)"][s.caller as usize], value(1)));
        }
        for i in 0..depth {
            if let Some(a) = bound(&name(i + 1), s.fwd[i], &name(i), value(2 + i)) {
                if !matches!(a.val, Val::Ref(_)) {
                    roles.push((["", "forwarded-literal", "", "forwarded-$n(d)", "forwarded-(d)"][s.fwd[i] as usize], value(2 + i)));
                }
                calls[i + 1].push(a);
            }
            labels.push(format!("typed:{}:forwarding={}", site.ty, FORM_NAMES[s.fwd[i] as usize]));
        }
        let mut leaf = lit_step(&format!("{} {}", site.op, site.fixed));
        if let Some(a) = bound(site.key, s.leaf, &name(depth), value(0)) {
            if s.leaf != 2 {
                roles.push((["", "leaf-literal", "", "leaf-$n(d)", "leaf-(d)"][s.leaf as usize], value(0)));
            }
            // before or after the literal arguments of the step
            if (s.rot + depth) % 2 == 0 {
                leaf.args.insert(0, a);
            } else {
                leaf.args.push(a);
            }
        }
        any_bound |= s.leaf != 1;
        body.extend(site.pre.iter().map(|t| lit_step(t)));
        body.push(leaf);
        body.extend(site.post.iter().map(|t| lit_step(t)));
        labels.push(format!("site:{}.{}", site.op, site.key));
        labels.push(format!("typed:{}:leaf={}", site.ty, FORM_NAMES[s.leaf as usize]));
        labels.push(format!("typed:{}:caller={}", site.ty, CALLER_NAMES[s.caller as usize]));
        labels.push(format!("typed:names={}", ["operator-key", "ascending", "descending"][s.scheme as usize % 3]));
        for (role, v) in roles {
            for (what, yes) in [
                ("comma", v.contains(',')),
                ("space-after-comma", v.contains(", ")),
                ("colon", v.contains(':')),
                ("parenthesis", v.contains(['(', ')'])),
                ("dollar", v.contains('$')),
                ("at", v.contains('@')),
            ] {
                if yes {
                    labels.push(format!("value:{role}:{what}"));
                }
            }
        }
    }
    if body.len() == 1 && shape & 1 != 0 {
        body.insert(0, lit_step("addone"));
    }
    let mut lib: Vec<Macro> = vec![];
    for i in 0..depth {
        let mut args = calls[i + 1].clone();
        tidy_args(&mut args);
        let call = Step { omit: none, op: format!("t:m{}", i + 1), args, inv: inv_at(i + 1) };
        let steps = if shape & 2 != 0 {
            if i % 2 == 0 {
                vec![call, lit_step("noop")]
            } else {
                vec![lit_step("addone"), call]
            }
        } else {
            vec![call]
        };
        lib.push(Macro { name: format!("t:m{i}"), body: steps });
    }
    lib.push(Macro { name: format!("t:m{depth}"), body });
    let mut args = calls[0].clone();
    tidy_args(&mut args);
    let main = Step { omit: none, op: "t:m0".into(), args, inv: inv_at(0) };
    let top = match (shape >> 2) % 4 {
        0 | 1 => vec![main],
        2 => vec![lit_step("addone"), main],
        _ => vec![lit_step("noop"), main, lit_step("addone inv")],
    };
    let twin = if no_inv || top.len() != 1 || top[0].inv != InvPos::No { InvPos::No } else { [InvPos::No, InvPos::Suffix, InvPos::Infix, InvPos::Prefix][twin as usize % 4] };
    let ctx = if grid { 2 } else { ctx % 3 };
    TCase { case: Case { ctx, lib, top, twin, excluded_known: 0 }, labels, bound: any_bound }
}

/// nesting: index in 0..156 -> the forms of the invocation arguments on the way down, depth 0..3
const NESTINGS: usize = 1 + 5 + 25 + 125;
fn nesting(mut c: usize) -> Vec<u8> {
    let mut depth = 0;
    let mut block = 1;
    while c >= block {
        c -= block;
        block *= 5;
        depth += 1;
    }
    (0..depth).map(|k| ((c / 5usize.pow(k as u32)) % 5) as u8).collect()
}

/// quick: site x leaf form x nesting (depth 0..3, every combination of forwarding forms) x form of
/// the outermost argument; the rotation of the value pool (which value plays which role), the
/// naming scheme, the body shapes, the context, the inverted levels and the twin are a fixed
/// scramble of the index. thorough: x every rotation of the site's value pool x the three naming
/// schemes.
const TYPED_BASE: usize = 4 * 5 * NESTINGS;

/// (site, rotation, naming scheme) - None: taken from the scramble
fn typed_units(full: bool) -> &'static [(usize, Option<(usize, u8)>)] {
    static UNITS: std::sync::OnceLock<[Vec<(usize, Option<(usize, u8)>)>; 2]> = std::sync::OnceLock::new();
    let units = UNITS.get_or_init(|| {
        let quick = (0..SITES.len()).map(|s| (s, None)).collect();
        let mut thorough = vec![];
        for (s, site) in SITES.iter().enumerate() {
            for rot in 0..site.values.len() {
                for scheme in 0..3u8 {
                    thorough.push((s, Some((rot, scheme))));
                }
            }
        }
        [quick, thorough]
    });
    &units[full as usize]
}

fn typed_n(full: bool) -> usize {
    typed_units(full).len() * TYPED_BASE
}

/// a fixed bijective scramble of the case index (splitmix64 finaliser): decorrelates the cycling
/// dimensions from the enumerated ones
fn scramble(i: usize) -> u64 {
    let mut z = (i as u64).wrapping_add(0x9E37_79B9_7F4A_7C15);
    z = (z ^ (z >> 30)).wrapping_mul(0xBF58_476D_1CE4_E5B9);
    z = (z ^ (z >> 27)).wrapping_mul(0x94D0_49BB_1331_11EB);
    z ^ (z >> 31)
}

fn typed_case(i: usize, full: bool) -> TCase {
    let (caller, leaf, nest, unit) = (i % 4, (i / 4) % 5, (i / 20) % NESTINGS, i / TYPED_BASE);
    let (site, fixed) = typed_units(full)[unit];
    let fwd = nesting(nest);
    let depth = fwd.len();
    let h = scramble(i);
    let bits = |shift: u32, n: u64| ((h >> shift) % n) as usize;
    let (rot, scheme) = fixed.unwrap_or((bits(0, SITES[site].values.len() as u64), bits(8, 3) as u8));
    let strand = Strand { site, rot, leaf: leaf as u8, fwd, caller: caller as u8, scheme };
    // one case in four has inverted invocations on the way
    let invs = if bits(12, 4) == 3 { bits(16, 16) as u8 } else { 0 };
    typed_build(&[strand], depth, bits(24, 16) as u8, invs, bits(32, 3) as u8, bits(40, 4) as u8)
}

fn typed_mixed() -> impl Strategy<Value = TCase> {
    let strand = (any::<u16>(), 0usize..7, 0u8..5, prop::collection::vec(0u8..5, 3), 0u8..4, 0u8..3);
    (prop::collection::vec(strand, 1..=3), 0usize..=3, 0u8..16, prop_oneof![3 => Just(0u8), 1 => 0u8..16], 0u8..3, 0u8..4).prop_map(|(raw, depth, shape, invs, ctx, twin)| {
        let strands: Vec<Strand> = raw
            .into_iter()
            .map(|(site, rot, leaf, fwd, caller, scheme)| {
                let site = pick(site, SITES.len());
                Strand { site, rot: rot % SITES[site].values.len(), leaf, fwd: fwd[..depth].to_vec(), caller, scheme }
            })
            .collect();
        typed_build(&strands, depth, shape, invs, ctx, twin)
    })
}

fn check_typed(t: &TCase, rec: &mut Rec) -> CaseResult {
    let outcome = match t.case.ctx {
        0 => judge::<Minimal>(&t.case, rec),
        1 => judge::<Plain>(&t.case, rec),
        _ => judge::<GridCtx>(&t.case, rec),
    }?;
    for l in &t.labels {
        if l.starts_with("typed:") && l.contains(":leaf=") || l.starts_with("site:") {
            rec.class(&format!("{l}:{outcome}"));
        } else if outcome == "both-ok" || !l.starts_with("value:") {
            rec.count(l, 1);
        }
    }
    // non-trivial here: the invocation and its literal both instantiate, behave alike, and an
    // operator key of a typed parameter got its value through a binding form
    if outcome == "both-ok" && t.bound {
        rec.nontrivial(&(lib_text(&t.case.lib), steps_text(&t.case.top)));
    }
    Ok(())
}

// ---- operators that ask WHICH parameters were given: the literal by substitution -----------
//
// The reference expander spells caller arguments out on every leaf, which changes the set of keys
// "given" on the step. Here the caller passes only names the body binds, so the meaning of the
// invocation is the body step with each `key=$n`, `key=$n(d)`, `key=(d)` replaced by
// `key=<resolved value>` and nothing else: the same keys are given on both sides.

struct GSlot {
    key: &'static str,
    /// the default written in the body (and the literal of form 1)
    d: &'static str,
    /// another legal value
    o: &'static str,
}

struct GSite {
    op: &'static str,
    fixed: &'static str,
    slots: [GSlot; 2],
    grid: bool,
}

const fn gs(key: &'static str, d: &'static str, o: &'static str) -> GSlot {
    GSlot { key, d, o }
}

const MOLO: &str = "dx=-87 dy=-96 dz=-120";
const GSITES: &[GSite] = &[
    // ellps_0 + ellps_1 (da, df derived from the pair) vs ellps + da/df vs defaults; ellps overrides ellps_0
    GSite { op: "molodensky", fixed: MOLO, slots: [gs("ellps_0", "intl", "bessel"), gs("ellps_1", "GRS80", "WGS84")], grid: false },
    GSite { op: "molodensky", fixed: "dx=-87 dy=-96 dz=-120 abridged", slots: [gs("ellps_1", "bessel", "GRS80"), gs("ellps_0", "GRS80", "intl")], grid: false },
    GSite { op: "molodensky", fixed: "dx=-87 dy=-96 dz=-120 ellps_1=WGS84", slots: [gs("ellps", "bessel", "intl"), gs("ellps_0", "intl", "bessel")], grid: false },
    GSite { op: "molodensky", fixed: "dx=-87 dy=-96 dz=-120 ellps_0=intl", slots: [gs("ellps", "GRS80", "bessel"), gs("ellps_1", "WGS84", "GRS80")], grid: false },
    GSite { op: "molodensky", fixed: "dx=10 dy=20 dz=30 df=1.4e-5", slots: [gs("ellps", "intl", "GRS80"), gs("da", "251", "0")], grid: false },
    // `ellps` given or the default
    GSite { op: "utm", fixed: "", slots: [gs("ellps", "intl", "GRS80"), gs("zone", "32", "33")], grid: false },
    GSite { op: "tmerc", fixed: "lon_0=9", slots: [gs("ellps", "GRS80", "bessel"), gs("k_0", "1", "0.9996")], grid: false },
    // second standard parallel / latitude of origin present or absent
    GSite { op: "lcc", fixed: "lat_1=33 lon_0=10", slots: [gs("lat_2", "45", "33"), gs("lat_0", "35", "0")], grid: false },
    GSite { op: "lcc", fixed: "lon_0=10 lat_0=40", slots: [gs("lat_1", "0", "40"), gs("lat_2", "0", "50")], grid: false },
    // latitude of true scale vs scale factor
    GSite { op: "merc", fixed: "lon_0=9", slots: [gs("lat_ts", "0", "56"), gs("k_0", "1", "0.9996")], grid: false },
    // scalar vs list spellings of the same quantity
    GSite { op: "helmert", fixed: "y=7", slots: [gs("x", "0", "5"), gs("translation", "0,0,0", "1,2,3")], grid: false },
    GSite { op: "helmert", fixed: "convention=position_vector x=3", slots: [gs("rotation", "0,0,0", "1,2,3"), gs("rx", "0", "4")], grid: false },
    GSite { op: "helmert", fixed: "z=1", slots: [gs("scale", "0", "2.5"), gs("s", "0", "1.5")], grid: false },
    GSite { op: "helmert", fixed: "x=1 t_epoch=2000", slots: [gs("velocity", "0,0,0", "0.1,0.2,0.3"), gs("dx", "0", "0.5")], grid: false },
    // either dt or t_epoch
    GSite { op: "deformation", fixed: "grids=w.deformation", slots: [gs("dt", "10", "1"), gs("t_epoch", "2000", "2010")], grid: true },
];

const G_FORMS: usize = 5; // absent, literal, $n, $n(d), (d)
const G_CALLERS: usize = 3; // none, another value, a value equal to the default
const G_NESTS: usize = 6; // depth 0, depth 1, depth 2 x {inherited, n=$m, n=$m(v), n=v}
const G_PER_SITE: usize = (G_FORMS * G_CALLERS) * (G_FORMS * G_CALLERS) * G_NESTS * 2;
const G_NEST_NAMES: [&str; G_NESTS] = ["depth=0", "depth=1", "depth=2:inherited", "depth=2:n=$m", "depth=2:n=$m(v)", "depth=2:n=v"];

#[derive(Clone, Debug, Serialize, Deserialize)]
struct GivenCase {
    ctx: u8,
    lib: Vec<(String, String)>,
    invocation: String,
    /// None: some `$n` without default is given by nobody => an error is expected
    literal: Option<String>,
    labels: Vec<String>,
    /// a default form took its fallback, or the caller's value equals the default
    fallback: bool,
}

fn given_n() -> usize {
    GSITES.len() * G_PER_SITE
}

fn given_case(i: usize) -> GivenCase {
    let site = &GSITES[i / G_PER_SITE];
    let mut r = i % G_PER_SITE;
    let mut take = |n: usize| {
        let v = r % n;
        r /= n;
        v
    };
    let pipeline = take(2) == 1;
    let nest = take(G_NESTS);
    let picks = [(take(G_FORMS), take(G_CALLERS)), (take(G_FORMS), take(G_CALLERS))];
    let mut labels = vec![format!("given:{}", G_NEST_NAMES[nest])];
    let mut body: Vec<String> = vec![]; // the step as written in the (innermost) body
    let mut subst: Vec<String> = vec![]; // the step with the bindings substituted
    let mut outer: Vec<String> = vec![]; // arguments of the outermost invocation
    let mut inner: Vec<String> = vec![]; // arguments of g:m1 in the body of g:m0 (depth 2)
    let (mut unresolved, mut fallback) = (false, false);
    if i % 2 == 1 && !site.fixed.is_empty() {
        body.push(site.fixed.to_string());
        subst.push(site.fixed.to_string());
    }
    for (si, slot) in site.slots.iter().enumerate() {
        let (form, caller) = picks[si];
        // a caller exists below depth 0 only, and passes only names the body binds
        let caller = if nest == 0 || form < 2 { 0 } else { caller };
        let name = if form == 4 { slot.key.to_string() } else { format!("n{}", ["a", "b"][si]) };
        let source = format!("m{}", ["a", "b"][si]); // sorts before `name` when that is not the key
        let cv = [None, Some(slot.o), Some(slot.d)][caller];
        if let Some(v) = cv {
            match nest {
                1 | 2 => outer.push(format!("{name}={v}")),
                3 => {
                    outer.push(format!("{source}={v}"));
                    inner.push(format!("{name}=${source}"));
                }
                4 => inner.push(format!("{name}=${source}({v})")),
                _ => inner.push(format!("{name}={v}")),
            }
        }
        // the context default ellps=GRS80 is a caller-provided value (see the assumptions)
        let seen = cv.or(if name == "ellps" { Some("GRS80") } else { None });
        let k = slot.key;
        let (written, resolved) = match form {
            0 => (None, None),
            1 => (Some(format!("{k}={}", slot.d)), Some(slot.d)),
            2 => (Some(format!("{k}=${name}")), seen),
            3 => (Some(format!("{k}=${name}({})", slot.d)), Some(seen.unwrap_or(slot.d))),
            _ => (Some(format!("{k}=({})", slot.d)), Some(seen.unwrap_or(slot.d))),
        };
        if let Some(w) = written {
            body.push(w);
            match resolved {
                Some(v) => subst.push(format!("{k}={v}")),
                None => unresolved = true,
            }
        }
        fallback |= form >= 3 && resolved == Some(slot.d);
        labels.push(format!("given:{}.{}:{}", site.op, k, FORM_NAMES[form]));
        labels.push(format!("given:caller={}", ["none", "other-value", "equal-to-default"][caller]));
        if form >= 3 {
            labels.push(format!("given:default-form:{}", if cv.is_none() { "fallback-taken" } else if caller == 2 { "caller-equals-default" } else { "caller-overrides" }));
        }
    }
    if i % 2 == 0 && !site.fixed.is_empty() {
        body.push(site.fixed.to_string());
        subst.push(site.fixed.to_string());
    }
    let wrap = |args: &[String]| -> String {
        let step = format!("{} {}", site.op, args.join(" ")).trim_end().to_string();
        if pipeline { format!("noop | {step}") } else { step }
    };
    let with = |name: &str, args: &[String]| format!("{name} {}", args.join(" ")).trim_end().to_string();
    let (lib, invocation) = match nest {
        0 => (vec![], wrap(&body)),
        1 => (vec![("g:m0".to_string(), wrap(&body))], with("g:m0", &outer)),
        _ => (vec![("g:m0".to_string(), with("g:m1", &inner)), ("g:m1".to_string(), wrap(&body))], with("g:m0", &outer)),
    };
    let ctx = if site.grid { 2 } else { (scramble(i) % 3) as u8 };
    GivenCase { ctx, lib, invocation, literal: if unresolved { None } else { Some(wrap(&subst)) }, labels, fallback }
}

fn given_with<C: Prep>(g: &GivenCase, _rec: &mut Rec) -> Result<&'static str, Failure> {
    let lib: String = g.lib.iter().map(|(n, b)| format!("    {n} = {b}\n")).collect();
    let mut ctx = C::new();
    ctx.prep();
    for (n, b) in &g.lib {
        ctx.register_resource(n, b);
    }
    let got = instantiate(&mut ctx, &g.invocation);
    let show = |o: &Outcome| match o {
        Outcome::Ok(_) => "Ok".to_string(),
        Outcome::Err(e) => format!("Err({e})"),
        Outcome::Panic(p) => format!("panic {} at {}:{}", p.msg, p.file, p.line),
    };
    let Some(literal) = &g.literal else {
        return match got {
            Outcome::Err(_) => Ok("error-expected"),
            other => vfail!("unresolved-reference-accepted", "library:\n{lib}  '{}' gives {} although a `$name` without default is given by nobody", g.invocation, show(&other)),
        };
    };
    let mut lctx = C::new();
    lctx.prep();
    let want = instantiate(&mut lctx, literal);
    let (h, hl) = match (&got, &want) {
        (Outcome::Ok(h), Outcome::Ok(hl)) => (*h, *hl),
        (Outcome::Err(_), Outcome::Err(_)) => return Ok("both-error"),
        _ => vfail!("given-substitution-outcome-mismatch", "library:\n{lib}  invocation '{}' -> {}\n  substituted '{literal}' -> {}", g.invocation, show(&got), show(&want)),
    };
    for fwd in [true, false] {
        let (sa, da) = behave(&ctx, h, fwd);
        let (sb, db) = behave(&lctx, hl, fwd);
        let diff = first_bits_diff(&da, &db);
        if sa != sb || diff.is_some() {
            let k = diff.unwrap_or(0).min(3);
            vfail!(
                "given-substitution-mismatch",
                "library:\n{lib}  '{}' applied {:?} differs from its body with the arguments substituted, '{literal}'\n  {sa} vs {sb}\n  probe {:?}: {} vs {}",
                g.invocation, dir_of(fwd), PROBES[k], fmt_c4(&da[k]), fmt_c4(&db[k])
            );
        }
    }
    Ok("both-ok")
}

fn check_given(g: &GivenCase, rec: &mut Rec) -> CaseResult {
    let outcome = match g.ctx {
        0 => given_with::<Minimal>(g, rec),
        1 => given_with::<Plain>(g, rec),
        _ => given_with::<GridCtx>(g, rec),
    }?;
    rec.class(&format!("given:outcome={outcome}"));
    for l in &g.labels {
        if l.contains('.') {
            rec.class(&format!("{l}:{outcome}"));
        } else {
            rec.count(l, 1);
        }
    }
    if outcome == "both-ok" && g.fallback {
        rec.nontrivial(&(&g.lib, &g.invocation));
    }
    Ok(())
}

fn main() {
    let mut run = Run::init("C04");
    selftest();
    // this property claims termination: a case that does not return is a violation
    run.watchdog(Duration::from_secs(30), true);
    run.assume("the scope of `$n` / `(d)` on an argument of a nested invocation is the enclosing macro's scope at the point of invocation (Rumination 009: 'take the value from a differently named macro parameter'); a `$n` naming a sibling argument of the same step is not generated");
    run.assume("the context default ellps=GRS80 counts as a caller-provided value (RawParameters.globals: 'caller-provided arguments and context defaults visible to the body')");
    run.assume("an unresolvable `$n` is required to be an error only when an operator actually looks the key up; unresolvable values that are ignored, or that meet a default form, are generated but not judged (excluded_unspecified)");
    run.assume("equivalence is asserted only while the nesting level stays <= 50 (half the recursion breaker); deeper chains: Ok or Err, no panic, no abort, no hang");
    run.assume("sections other than 'histories' compare two instantiations made on the same (reused) worker thread, so state the library keeps per thread affects both sides alike there; dependence on earlier instantiations is examined by 'histories', where every history and every reference runs on a freshly spawned thread");
    run.assume("stack steps appear in sections 'typed-bindings' / 'typed-mixed' only, as balanced programs inside one macro body and never under an inverted invocation (a stack step has no inverse of its own: what it does is decided by the pipeline it is a step of, C03 / C12; such cases are excluded_unspecified); `inv=true` spelling is not generated; the directional modifiers omit_fwd / omit_inv (and their sugar `<` / `>`) are used in sections 'one-way-bodies' and 'one-way-steps' only, and only on steps of a pipeline (a body or invocation text of >= 2 steps): there they are a property of the step relative to the direction its pipeline is run in (Rumination 000/009), so a body run backwards by an inverted invocation omits in the literal's forward direction what it omits in its own inverse direction; a directional modifier on a definition that is a lone operator is not judged (excluded_unspecified); that a flat pipeline honours omit_fwd / omit_inv is taken from the library (C03)");
    run.assume("parameter names are case-sensitive strings of letters (ASCII or not), digits and '_' in any order, other than the keys the library reserves (_name, inv, omit_fwd, omit_inv) and names ending in a subscript digit (documented sugar for _<digit>)");

    run.assume("a value or default is any text the binding syntax can express (established on the unchanged library, which takes all such text literally): no '=', no white space except after a comma, not empty, not starting with '$' or '(', no parenthesis inside the default of $n(...), no ')' at the end of the default of (...); everything else - commas, colons, '@', '$' and parentheses elsewhere - is part of the value; the other cases are generated but not judged (excluded_unspecified). molodensky is used in section 'given-sensitive-bindings' only (it asks which keys were given on the step itself, which the literal of the reference expander changes by spelling out caller arguments; that section builds its literal by substitution instead and lets the caller pass only names the body binds)");

    run.enumerate(
        "binding-forms",
        "exhaustive: helmert K=<form> inside i:m, invoked directly or as i:m P=<form> from o:m; forms {absent, literal, $n, $n(d), (d)} for both, K,P,Q over {s,x,y}^3 (every lexical order and coincidence), every subset of {s,x,y} supplied by the outermost caller, 3 contexts, plus the inverted twin; the same for flag-typed keys (utm south, addone inv, helmert exact, geodesic reversible, latitude geocentric: forms {absent, bare word, =true, $n, $n(true), (true)}, names over {f,g,K}); and parameter names that are near-misses of the modifiers (inv_x, invf, xinv, x_inv, omit_fwd_x, omit, omit_inv2, fwd, in, name) on outermost and nested invocations with inv absent / prefix / infix / suffix; non-trivial = a binding resolved through >= 1 nesting level",
        FORMS_N,
        forms_case,
        check,
    );

    let n = run.scale(40_000, 800_000);
    run.section(
        "equivalence",
        "random acyclic libraries (parameter names include near-misses of the modifiers: inv_x, invf, xinv, x_inv, omit_fwd_x, omit, omit_inv2, fwd, in, name; nesting depth 0..10, single-operator and pipeline bodies over helmert/utm/tmerc/cart/addone/built-in macros, every binding form on operator parameters, names drawn from a pool unrelated to key order, inv infix/suffix on invocations at every level, invocation alone or inside a pipeline, 3 contexts); invocation arguments in binding form are kept only outside the registered class nested-arg-* (rewritten to literals otherwise, counted as excluded_known); non-trivial = instantiates and a $/default binding or visible caller argument is resolved through >= 1 nesting level; distinct by library + invocation text",
        n,
        || raw_case(10).prop_map(|r| build_case(&r, Mode::Safe)),
        check,
    );

    let n = run.scale(20_000, 400_000);
    run.section(
        "arg-forwarding",
        "as 'equivalence' (depth 0..6) but invocation arguments at every level use all binding forms with names independent of lexical order (forwarding under the same, an earlier or a later name; defaults at the second hop; re-bound names)",
        n,
        || raw_case(6).prop_map(|r| build_case(&r, Mode::Forwarding)),
        check,
    );

    run.enumerate(
        "param-names",
        "exhaustive over a pool of parameter names spanning the lexical order relative to every key the library keeps in the same maps (_name, ellps, inv, omit_fwd, omit_inv): digit first, upper case, leading underscore before/after `_name` and its prefixes/extensions, lower case before/between/after the reserved keys and prefixes/suffixes of them, one character, 70..300 characters (one a prefix of another), non-ASCII letters: P the inner macro's parameter, Q the outer one's (Q = P, P's lexical successor, predecessor, a far name) x helmert x=$P or x=$P(d) (and y=$Q(d), seen without being handed on) in a single-operator or pipeline body x invoked directly or through o:m as `i:m` / `i:m P=lit` / `i:m P=$Q` / `i:m P=$Q(d)` / `i:m P=(d)` x every subset of {P,Q} given by the outermost caller (absent => error or default) in either textual order, with or without a lower-case companion x 3 contexts, plus the inverted twin (inv in every position); values and count bit-identical to the literal expansion, both directions",
        names_n(),
        names_case,
        check,
    );

    let n = run.scale(8_000, 160_000);
    run.section(
        "wide-names",
        "as 'equivalence' / 'arg-forwarding' / 'inv-position' (one third each, depth 0..6), then three in four of the parameter names (keys of invocation arguments, every $name, step keys no operator looks up; numeric, ellipsoid and flag typed) replaced consistently by names of the wide pool of 'param-names', at every nesting level and in every binding form",
        n,
        renamed_case,
        check,
    );

    run.enumerate(
        "one-way-bodies",
        "exhaustive: body addone | helmert x=$a(10) [inv] | <helmert z=5, or a nested single-operator macro, or a nested pipeline macro with a one-way step of its own> [inv], each of the three steps plain / omit_fwd / omit_inv / both (64 patterns), spelled as `<` `>` separators, as a word before the name / after the name / after the arguments, or `=true`; invoked plain, inverted once (inv prefix / infix / suffix; through a single-step or a pipeline wrapper macro), twice (inverted wrapper, wrapper of a wrapper) or three times; alone (plus the inverted twin, inv in every position) or as a step of a pipeline; compared with the literal expansion (for a body run backwards: steps reversed, each inverted, omit_fwd and omit_inv exchanged) in BOTH directions, values bit for bit and count; non-trivial = a one-way step inside a body run backwards by an odd number of inverted invocations",
        OW_N,
        one_way_case,
        check,
    );

    let n = run.scale(8_000, 160_000);
    run.section(
        "one-way-steps",
        "as 'equivalence' / 'inv-position' (depth 0..6; inv in every position on invocations at every level) with 40% of the steps of every pipeline (macro bodies and the invocation text; elementary steps and macro invocations alike) made one-way: omit_fwd 20%, omit_inv 15%, both 5%, in all five spellings; an invocation on its own always with its inverted twin; non-trivial as in 'one-way-bodies'",
        n,
        one_way_random,
        check,
    );

    let full = run.is_thorough();
    run.enumerate(
        "typed-bindings",
        "exhaustive: every parameter TYPE the operators declare x every binding form: 30 operator parameters (Series: helmert translation / rotation / velocity / angular_velocity, axisswap order, stack push / pop / roll / unroll / flip inside balanced stack programs; Texts: gridshift and deformation grids with @optional and @null entries and grid names containing ( ) $ : served by the user context; Text: ellps as a name and as a,rf on cart / tmerc / utm / deformation, helmert convention, adapt from / to, unitconvert units; Natural: utm zone; Real in sexagesimal / hemisphere notation: tmerc lat_0 / lon_0, merc lat_ts, helmert x, gridshift padding; Flag: utm south, helmert exact, deformation raw), each with a pool of 4..10 legal values (lists with and without a space after the comma, elements in D:M:S) and a few illegal ones, x binding of the operator key {absent, literal, $n, $n(d), (d)} x nesting depth 0..3 with EVERY combination of forms {none, literal, $n, $n(d), (d)} on the invocation arguments on the way down (156) x outermost argument {none, literal, (d), $n(d)}; which value of the pool is the literal / the default at each level / the caller's value rotates, as do the naming scheme (operator key at every level, ascending, descending names), single-operator / pipeline bodies, invocation alone or in a pipeline, inverted levels (one case in four), the inverted twin and the context; in quick by a fixed scramble of the case index; thorough: x every rotation of the value pool x the 3 naming schemes; oracle: the literal expansion of the reference expander (same Ok / Err, values bit for bit, both directions); non-trivial = both instantiate and the operator key got its value through a binding form",
        typed_n(full),
        move |i| typed_case(i, full),
        check_typed,
    );

    let n = run.scale(12_000, 240_000);
    run.section(
        "typed-mixed",
        "random: 1..3 typed parameters of 'typed-bindings' (any sites, also the same one twice) travelling together down one chain of depth 0..3: all their arguments on the same invocations (sorted into one map by the library), their operator steps (and stack programs) in one innermost pipeline body where each sees the others' caller arguments; forms, value rotation and naming scheme independent per parameter; 25% with inverted levels; shapes, twin and context random",
        n,
        typed_mixed,
        check_typed,
    );

    run.enumerate(
        "given-sensitive-bindings",
        "exhaustive: operators whose behaviour depends on WHICH parameters are given, 15 operator x parameter-pair sites (molodensky ellps_0 / ellps_1 / ellps / da in five combinations incl. abridged, utm and tmerc ellps vs the default, lcc lat_2 / lat_0 / lat_1 present or absent, merc lat_ts vs k_0, helmert x vs translation, rotation vs rx, scale vs s, velocity vs dx, deformation dt vs t_epoch) x binding of EACH of the two keys {absent, literal, $n, $n(d), (d)} x the caller's value for each {none => fallback or error, another value, a value EQUAL to the default} x depth 0, 1, 2 (at depth 2 the value inherited, forwarded as n=$m, as n=$m(v) or as a literal) x single-operator / pipeline body; the caller passes only names the body binds, so the oracle is the body step with every binding SUBSTITUTED by its resolved value (key dropped when absent; `$n` given by nobody => Err) and nothing prepended: same Ok / Err, values bit for bit in both directions; non-trivial = both instantiate and a default form took its fallback or met a caller's value equal to it",
        given_n(),
        given_case,
        check_given,
    );

    let n = run.scale(12_000, 240_000);
    run.section(
        "inv-position",
        "as 'equivalence' (depth 0..6) with literal invocation arguments and inv as prefix / infix / suffix / absent (25% each) on every macro invocation, including the inverted twin of the outermost one",
        n,
        || raw_case(6).prop_map(|r| build_case(&r, Mode::InvPos)),
        check,
    );

    // NB: random sections record the in-flight case (enumerations do not), so this one runs before
    // the enumerated chains and cycles: a stack overflow is then attributed to its case
    let n = run.scale(15_000, 300_000);
    run.section(
        "graphs",
        "random resource graphs of 1..10 macros: bodies of 1..3 steps referring to arbitrary macros (self, backwards, forwards), a forced cycle of length 1..8 in 80% of the cases, missing macros, self-forwarding arguments, inv; reachable cycle or missing macro => Err; otherwise (finite expansion) the equivalence oracle; never a panic, abort or hang; 1 in 16 cases is a pure cycle of section 'cycles' (this section records its in-flight case, so a stack overflow is attributed); non-trivial = a cycle is reachable from the invocation",
        n,
        || prop_oneof![
            15 => raw_graph().prop_map(|r| build_graph(&r)),
            1 => any::<u16>().prop_map(|k| cycle_case(pick(k, CYCLE_N))),
        ],
        check_graph,
    );

    let n = run.scale(1_200, 60_000);
    run.section(
        "histories",
        "sequences of 2..9 instantiations (each 1..3 times) on ONE freshly spawned thread, in one context or switching to brand-new ones; 35% of the steps RE-REGISTER one macro registered earlier in the same context (top, middle or leaf of its library) with a different body (other constants, another binding form, other direction, extra step, a body closing a cycle, a plain operator opening one) and then instantiate the byte-identical earlier invocation text (75%) or another one - the latest registration of a name is in force; other steps: refused cyclic / broken graphs, invocations failing by a missing argument, bad value, unknown macro or unknown operator, valid libraries of section 'equivalence' (depth 0..6) and chains of depth 0..60; every step must give exactly what it gives alone in a new context on a new thread (Ok/Err, counts, bit-identical results both directions); non-trivial = a step that instantiates follows at least one that was refused",
        n,
        history_case,
        check_history,
    );

    run.enumerate(
        "chains",
        "exhaustive: linear chains of depth 0..60 x body shape (single operator; pipeline with the reference first / last / in the middle) x invocation alone or in a pipeline x alternating inv x 3 contexts; caller arguments must reach the innermost helmert; equivalence asserted while level <= 50, beyond that Ok/Err without panic, abort or hang",
        CHAIN_N,
        chain_case,
        check,
    );

    run.enumerate(
        "cycles",
        "exhaustive: pure cycles of length 1..8 x body shape (single / pipeline, branching twice into the cycle) x forwarding arguments (none, a=$a, a=$b b=$a) x 3 contexts: Err, no panic/abort/hang",
        CYCLE_N,
        cycle_case,
        check_graph,
    );

    run.finish("macro libraries (generated and enumerated) instantiated through Minimal, Plain and a user context, compared with the macro-free literal produced by a reference expander (bit-identical behaviour in both directions, same success/failure; parameter names spanning the lexical order around the keys the library reserves; one-way steps in bodies run forwards and backwards by 0..3 inverted invocations; every binding form crossed with every parameter type - series, lists of texts, texts containing commas, naturals, sexagesimal reals, flags - as literal, default and caller's value through 0..3 nesting levels; operators that ask which parameters were given - molodensky's ellipsoid pair, ellps vs default, lcc lat_2, merc lat_ts / k_0, helmert scalar vs list spellings, deformation dt / t_epoch - bound through every form at depth 0..2 and compared with the body with its arguments substituted), plus cyclic / deep / broken resource graphs under a panic guard, a 16 MB stack and a 30 s watchdog");
}
