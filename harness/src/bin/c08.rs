//! C08 — grid lookup is bilinear, first-hit among grids, finest sub-grid within a file.
//!
//! Oracle: a reference model written in this file (bilinear interpolation on the
//! f32-rounded node values, containment with margin, two-pass first-hit selection
//! over a grid list, deepest-sub-grid selection inside an NTv2 file, and the
//! documented operator conventions), fed with grids produced by this file's own
//! encoders (Gravsoft text in several layouts, NTv2 binary in both byte orders with
//! parent/child trees in arbitrary file order).
//!
//! Knife edges (a query closer than EPS/TAU to a containment boundary) are never
//! asserted one way or the other: there the model returns the *set* of acceptable
//! owners and the library must agree with one of them (continuity only).
//! Exception (section ntv2-abutting-siblings): inside NTv2 files whose siblings abut, a coordinate
//! that IS a header bound (or is clear of every bound by > 3e-6 cell) has exactly one documented
//! owner (lower edges inclusive, upper edges exclusive, 1e-6 cell tolerance), asserted for every
//! order of the records; one ulp / 1e-9 cell beside a bound the owner under exact half-open
//! containment is acceptable as well, no other level is.

use geodesy::authoring::{grids_at, BaseGrid, Grid, Ntv2Grid};
use geodesy::prelude::*;
use proptest::prelude::*;
use serde::{Deserialize, Serialize};
use std::path::PathBuf;
use std::sync::{Arc, OnceLock};
use vcore::geo::*;
use vcore::gridctx::GridCtx;
use vcore::guard::guard;
use vcore::refmath::El;
use vcore::*;

// ---- tolerances --------------------------------------------------------------------

/// relative tolerance on interpolated values (f32 node storage + f32 unit conversion)
const REL: f64 = 2.0e-6;
/// knife-edge band of a plain grid, in cell units (rounding only)
const EPS_DIRECT: f64 = 1.0e-9;
/// knife-edge band when the library recomputes the position itself (deformation: cartesian
/// to geographic, deflection: degrees to radians and finite-difference steps)
const EPS_DERIVED: f64 = 1.0e-6;
/// NTv2: owner not asserted closer than this to any sub-grid border (cell units of that sub-grid)
const TAU_CELL: f64 = 1.0e-4;
/// NTv2: a point at least this far (cells) inside a root grid must be served by the file (rounding of the
/// limits is < 1e-12 cell)
const INSIDE_MIN: f64 = 1.0e-9;
/// NTv2: additional absolute band (radians) around sub-grid borders in which the owner is not
/// asserted in the list/operator sections. It was 1.05e-6 while finding `ntv2-upper-edge-band-absolute`
/// (upper-edge tolerance of 1e-6 rad instead of 1e-6 cell) was open; the finding is repaired, so 0.
const TAU_RAD: f64 = 0.0;

/// failure keys of registered findings: reported only when nothing else fails in the same case
const REGISTERED: [&str; 6] = [
    "ntv2-none-inside-root-at-subgrid-seam",
    "ntv2-upper-edge-band-absolute",
    "deformation-t_epoch-sign-reversed",
    "gridshift-empty-grid-list-not-failed",
    "deflection-empty-grid-list-not-failed",
    "deflection-null-grid-ignored",
];

/// Collects the failures of one case; registered ones yield to new ones.
#[derive(Default)]
struct Fails(Vec<Failure>);
impl Fails {
    fn push(&mut self, key: &str, msg: String) {
        if self.0.len() < 64 {
            self.0.push(Failure { key: key.to_string(), msg });
        }
    }
    fn finish(self) -> CaseResult {
        let mut first_reg = None;
        for f in self.0 {
            if REGISTERED.contains(&f.key.as_str()) {
                if first_reg.is_none() {
                    first_reg = Some(f);
                }
            } else {
                return Err(f);
            }
        }
        match first_reg {
            Some(f) => Err(f),
            None => Ok(()),
        }
    }
}

// ---- deterministic node values ------------------------------------------------------

fn mix(x: u64) -> u64 {
    let mut z = x.wrapping_add(0x9E3779B97F4A7C15);
    z = (z ^ (z >> 30)).wrapping_mul(0xBF58476D1CE4E5B9);
    z = (z ^ (z >> 27)).wrapping_mul(0x94D049BB133111EB);
    z ^ (z >> 31)
}
/// pure function of (seed, k) in [-1, 1)
fn hunit(seed: u64, k: u64) -> f64 {
    let h = mix(mix(seed) ^ mix(k.wrapping_mul(0xD1342543DE82EF95)));
    (h >> 11) as f64 / (1u64 << 53) as f64 * 2.0 - 1.0
}
fn hash_bytes(b: &[u8]) -> u64 {
    let mut h: u64 = 0xcbf29ce484222325;
    for x in b {
        h ^= *x as u64;
        h = h.wrapping_mul(0x100000001b3);
    }
    h
}

/// Node values: mode 0 = random per node, otherwise affine in (row, column) with distinct,
/// non-zero row and column coefficients (never value = coordinate).
#[derive(Clone, Debug, Serialize, Deserialize)]
struct ValSpec {
    mode: u8,
    seed: u32,
    amp: F,
    base: F,
}
impl ValSpec {
    fn at(&self, band: usize, r: usize, c: usize) -> f64 {
        let s = self.seed as u64;
        let b = band as u64;
        let off = self.base.0 * hunit(s, 1000 + b);
        let v = if self.mode == 0 {
            off + self.amp.0 * hunit(s, (b << 40) | ((r as u64) << 20) | c as u64)
        } else {
            let sg = |k: u64| if hunit(s, k) < 0.0 { -1.0 } else { 1.0 };
            let p = sg(2000 + b) * self.amp.0 * (0.11 + 0.2 * hunit(s, 3000 + b).abs());
            let q = sg(4000 + b) * self.amp.0 * (0.37 + 0.2 * hunit(s, 5000 + b).abs());
            off + p * r as f64 + q * c as f64
        };
        (v * 1.0e4).round() / 1.0e4
    }
    fn derive(&self, k: u64) -> ValSpec {
        let h = mix(self.seed as u64 ^ mix(k + 77));
        ValSpec { mode: (h >> 7) as u8 & 1, seed: (h >> 16) as u32, amp: self.amp, base: F(self.base.0 + 3.0 * self.amp.0) }
    }
}
fn valspec() -> impl Strategy<Value = ValSpec> {
    (0u8..2, any::<u32>(), prop_oneof![0.5f64..3.0, 3.0f64..40.0], 0.0f64..60.0)
        .prop_map(|(mode, seed, amp, base)| ValSpec { mode, seed, amp: F(amp), base: F(base) })
}

// ---- reference model of one rectangular grid -------------------------------------------

/// Internal units (radians, or the file's linear unit), rows from the north, columns from the west,
/// internal band order, node values as f64 images of the stored f32.
#[derive(Clone, Debug)]
struct MGrid {
    lat_n: f64,
    lat_s: f64,
    lon_w: f64,
    lon_e: f64,
    dlat: f64,
    dlon: f64,
    rows: usize,
    cols: usize,
    bands: usize,
    v: Vec<f64>,
    /// the north / east limit computed with the other plausible rounding order of the unit conversion
    /// (NTv2: arcsec.to_radians() / 3600 versus (arcsec / 3600).to_radians()); equal to lat_n / lon_e otherwise
    lat_n_alt: f64,
    lon_e_alt: f64,
}

#[derive(Clone, Debug)]
struct Cand {
    val: [f64; 4],
    scale: [f64; 4],
    who: String,
}

impl MGrid {
    fn node(&self, r: usize, c: usize, b: usize) -> f64 {
        self.v[(r * self.cols + c) * self.bands + b]
    }
    /// smallest signed distance (cell units, positive inside) to the border expanded by `m` cells
    fn dist_in(&self, x: f64, y: f64, m: f64) -> f64 {
        let a = (self.lat_n - y) / self.dlat + m;
        let b = (y - self.lat_s) / self.dlat + m;
        let c = (x - self.lon_w) / self.dlon + m;
        let d = (self.lon_e - x) / self.dlon + m;
        a.min(b).min(c).min(d)
    }
    /// exactly on the border (bit-equal to a header bound) and not outside: documented as contained
    fn on_border_exact(&self, x: f64, y: f64) -> bool {
        let inside = y >= self.lat_s && y <= self.lat_n && x >= self.lon_w && x <= self.lon_e;
        inside && (y == self.lat_s || y == self.lat_n || x == self.lon_w || x == self.lon_e)
    }
    /// bilinear value (linear continuation of the border cell outside) and per-band scale = max |corner|
    fn interp(&self, x: f64, y: f64) -> ([f64; 4], [f64; 4]) {
        let fy = (self.lat_n - y) / self.dlat;
        let r0 = (fy.floor().max(0.0) as usize).min(self.rows - 2);
        let ty = fy - r0 as f64;
        let fx = (x - self.lon_w) / self.dlon;
        let c0 = (fx.floor().max(0.0) as usize).min(self.cols - 2);
        let tx = fx - c0 as f64;
        let mut val = [0.0; 4];
        let mut scale = [0.0; 4];
        for b in 0..self.bands.min(4) {
            let (ul, ur, ll, lr) = (self.node(r0, c0, b), self.node(r0, c0 + 1, b), self.node(r0 + 1, c0, b), self.node(r0 + 1, c0 + 1, b));
            let upper = ul + (ur - ul) * tx;
            let lower = ll + (lr - ll) * tx;
            val[b] = upper + (lower - upper) * ty;
            scale[b] = ul.abs().max(ur.abs()).max(ll.abs()).max(lr.abs());
        }
        (val, scale)
    }
    fn corners(&self, x: f64, y: f64, b: usize) -> [f64; 4] {
        let fy = (self.lat_n - y) / self.dlat;
        let r0 = (fy.floor().max(0.0) as usize).min(self.rows - 2);
        let fx = (x - self.lon_w) / self.dlon;
        let c0 = (fx.floor().max(0.0) as usize).min(self.cols - 2);
        [self.node(r0, c0, b), self.node(r0, c0 + 1, b), self.node(r0 + 1, c0, b), self.node(r0 + 1, c0 + 1, b)]
    }
    fn cand(&self, x: f64, y: f64, who: &str) -> Cand {
        let (val, scale) = self.interp(x, y);
        Cand { val, scale, who: who.to_string() }
    }
    /// largest difference between neighbouring nodes of band b (Lipschitz bound per cell)
    fn maxdiff(&self, b: usize) -> f64 {
        let mut m = 0.0f64;
        for r in 0..self.rows {
            for c in 0..self.cols {
                if r + 1 < self.rows {
                    m = m.max((self.node(r, c, b) - self.node(r + 1, c, b)).abs());
                }
                if c + 1 < self.cols {
                    m = m.max((self.node(r, c, b) - self.node(r, c + 1, b)).abs());
                }
            }
        }
        m
    }
    fn maxabs(&self) -> f64 {
        self.v.iter().fold(0.0f64, |m, v| m.max(v.abs()))
    }
    fn xc(&self, c: usize) -> f64 {
        if c + 1 == self.cols {
            self.lon_e
        } else {
            self.lon_w + c as f64 * self.dlon
        }
    }
    fn yr(&self, r: usize) -> f64 {
        if r + 1 == self.rows {
            self.lat_s
        } else {
            self.lat_n - r as f64 * self.dlat
        }
    }
    /// a point relative to one side (0 N, 1 S, 2 E, 3 W): `along` in [0,1] along the side,
    /// `out` cells outside (negative = inside, 0 = exactly on the header bound)
    fn place(&self, side: u8, along: f64, out: f64) -> (f64, f64) {
        let xa = self.lon_w + along * (self.lon_e - self.lon_w);
        let ya = self.lat_s + along * (self.lat_n - self.lat_s);
        match side % 4 {
            0 => (xa, if out == 0.0 { self.lat_n } else { self.lat_n + out * self.dlat }),
            1 => (xa, if out == 0.0 { self.lat_s } else { self.lat_s - out * self.dlat }),
            2 => (if out == 0.0 { self.lon_e } else { self.lon_e + out * self.dlon }, ya),
            _ => (if out == 0.0 { self.lon_w } else { self.lon_w - out * self.dlon }, ya),
        }
    }
    /// a point relative to a corner (0 NW, 1 NE, 2 SW, 3 SE), `oy`/`ox` cells outside
    fn place_corner(&self, corner: u8, oy: f64, ox: f64) -> (f64, f64) {
        let y = if corner % 4 < 2 {
            if oy == 0.0 { self.lat_n } else { self.lat_n + oy * self.dlat }
        } else if oy == 0.0 {
            self.lat_s
        } else {
            self.lat_s - oy * self.dlat
        };
        let x = if corner % 2 == 1 {
            if ox == 0.0 { self.lon_e } else { self.lon_e + ox * self.dlon }
        } else if ox == 0.0 {
            self.lon_w
        } else {
            self.lon_w - ox * self.dlon
        };
        (x, y)
    }
}

#[derive(Clone, Copy, Debug, PartialEq)]
enum Loc {
    In,
    Edge,
    Out,
}

// ---- Gravsoft encoder ------------------------------------------------------------------------

#[derive(Clone, Debug, Serialize, Deserialize)]
struct GsSpec {
    lat_n_q: i32,
    lon_w_q: i32,
    dlat_q: u16,
    dlon_q: u16,
    rows: u8,
    cols: u8,
    bands: u8,
    linear: bool,
    layout: u8,
    vals: ValSpec,
    /// placement family, see `gs_geometry`: 0 = around the anchor; 1..=7 longitude bounds in [-720, 720]
    /// (exactly +-360, +-720, straddling 360, anywhere, global 0..360); 8..=11 the same for latitude bounds;
    /// for `linear` grids != 0 means one bound just beyond +-720 (720.03125)
    #[serde(default)]
    wide: u8,
    #[serde(default)]
    wlon_q: i32,
    #[serde(default)]
    wlat_q: i32,
}

/// Header numbers (lat_n, lat_s, lon_w, lon_e, dlat, dlon) in the file's unit; all are multiples of 1/32 and exact.
fn gs_geometry(s: &GsSpec) -> (f64, f64, f64, f64, f64, f64) {
    let (rows, cols) = (s.rows as f64, s.cols as f64);
    if s.linear && s.wide == 0 {
        let (lat_n, lon_w, dlat, dlon) = (6.0e6 + s.lat_n_q as f64 * 250.0, 4.0e5 + s.lon_w_q as f64 * 250.0, s.dlat_q as f64 * 125.0, s.dlon_q as f64 * 125.0);
        return (lat_n, lat_n - (rows - 1.0) * dlat, lon_w, lon_w + (cols - 1.0) * dlon, dlat, dlon);
    }
    let dlat = s.dlat_q as f64 / 32.0;
    let mut dlon = s.dlon_q as f64 / 32.0;
    if !s.linear && s.wide == 7 {
        dlon = 360.0 / (cols - 1.0); // 360, 180, 120, 90, 72, 60: a global 0..360 grid
    }
    let (ext_lat, ext_lon) = ((rows - 1.0) * dlat, (cols - 1.0) * dlon);
    // default placement around the anchor (kept inside (-360, 360))
    let (mut lat_n, mut lon_w) = (s.lat_n_q as f64 / 16.0, s.lon_w_q as f64 / 16.0);
    let (mut lat_s, mut lon_e) = (lat_n - ext_lat, lon_w + ext_lon);
    let pin_lon_e = |e: f64| (e - ext_lon, e);
    let pin_lon_w = |w: f64| (w, w + ext_lon);
    let pin_lat_n = |n: f64| (n, n - ext_lat);
    let pin_lat_s = |sv: f64| (sv + ext_lat, sv);
    if s.linear {
        // projected grid whose decisive bound is just beyond 720
        let b = 720.0 + 1.0 / 32.0;
        match s.wide % 4 {
            0 => (lat_n, lat_s) = pin_lat_n(b),
            1 => (lon_w, lon_e) = pin_lon_e(b),
            2 => (lon_w, lon_e) = pin_lon_w(-b),
            _ => (lat_n, lat_s) = pin_lat_s(-b),
        }
    } else {
        match s.wide {
            1 => (lon_w, lon_e) = pin_lon_e(360.0),
            2 => (lon_w, lon_e) = pin_lon_w(-360.0),
            3 => (lon_w, lon_e) = pin_lon_e(720.0),
            4 => (lon_w, lon_e) = pin_lon_w(-720.0),
            5 => (lon_w, lon_e) = pin_lon_w(360.0 - dlon * (1 + s.wlon_q.rem_euclid((s.cols as i32 - 1).max(1))) as f64),
            6 => (lon_w, lon_e) = pin_lon_w((s.wlon_q as f64 / 16.0).clamp(-720.0, 720.0 - ext_lon)),
            7 => (lon_w, lon_e) = (0.0, 360.0),
            8 => (lat_n, lat_s) = pin_lat_n(360.0),
            9 => (lat_n, lat_s) = pin_lat_s(-720.0),
            10 => (lat_n, lat_s) = pin_lat_n(720.0),
            11 => (lat_n, lat_s) = pin_lat_n((s.wlat_q as f64 / 16.0).clamp(-720.0 + ext_lat, 720.0)),
            _ => {}
        }
    }
    (lat_n, lat_s, lon_w, lon_e, dlat, dlon)
}

fn fmt_val(v: f64, layout: u8) -> String {
    match layout % 3 {
        0 => format!("{v}"),
        1 => format!("{v:.3}"),
        _ => format!("{v:e}"),
    }
}

/// Gravsoft text and its model. Angular grids: header in degrees (multiples of 1/32), node records
/// (lat, lon) arcsec / geoid metres / (north, east, up) mm/yr. Linear grids (|bound| > 720): untouched.
fn gs_build(s: &GsSpec) -> (String, MGrid) {
    let (rows, cols, bands) = (s.rows as usize, s.cols as usize, s.bands as usize);
    let (lat_n, lat_s, lon_w, lon_e, dlat, dlon) = gs_geometry(s);
    // Rumination 002, gridshift, Units: linear iff any boundary is numerically larger than 2 x 360
    let linear = [lat_n, lat_s, lon_w, lon_e].iter().any(|b| b.abs() > 720.0);
    let layout = s.layout;
    // node tokens, row by row from the north, bands interleaved
    let mut tokens: Vec<Vec<String>> = vec![];
    for r in 0..rows {
        let mut row = vec![];
        for c in 0..cols {
            for b in 0..bands {
                row.push(fmt_val(s.vals.at(b, r, c), layout));
            }
        }
        tokens.push(row);
    }
    let dlat_txt = if layout & 4 != 0 { format!("{}", -dlat) } else { format!("{dlat}") };
    let nl = if layout % 4 == 3 { "\r\n" } else { "\n" };
    let mut t = String::new();
    match layout % 4 {
        0 => {
            t += &format!("{lat_s} {lat_n} {lon_w} {lon_e} {dlat_txt} {dlon}{nl}");
            for row in &tokens {
                t += &row.join(" ");
                t += nl;
            }
        }
        1 => {
            t += &format!("# generated grid 1 2 3{nl}{lat_s}  {lat_n} # bounds 7 8{nl}   {lon_w}\t{lon_e}{nl}\t{dlat_txt} {dlon}{nl}{nl}");
            for row in &tokens {
                for (k, tok) in row.iter().enumerate() {
                    t += tok;
                    t += if k % bands == bands - 1 { " # node 9" } else { " " };
                    if k % bands == bands - 1 {
                        t += nl;
                    }
                }
            }
        }
        2 => {
            t += &format!("{lat_s}  {lat_n}\t{lon_w}   {lon_e}  {dlat_txt}  {dlon}  ");
            for row in &tokens {
                t += &row.join("   ");
                t += "  ";
            }
        }
        _ => {
            t += &format!("#head{nl}{lat_s} {lat_n} {lon_w} {lon_e} {dlat_txt} {dlon}#tail 5{nl}");
            for row in &tokens {
                t += &format!("   {}{nl}# row done 4 4 4{nl}", row.join("\t"));
            }
            t += nl;
        }
    }
    // the model reads the same tokens back: f64 -> f32 as the reader stores them
    let mut v = Vec::with_capacity(rows * cols * bands);
    for row in &tokens {
        for node in row.chunks(bands) {
            let f: Vec<f64> = node.iter().map(|t| t.parse::<f64>().unwrap() as f32 as f64).collect();
            if linear || bands == 1 {
                v.extend(f);
            } else if bands == 2 {
                v.push((f[1] / 3600.0).to_radians()); // file: lat, lon arcsec -> internal lon, lat radians
                v.push((f[0] / 3600.0).to_radians());
            } else {
                v.push(f[1] / 1000.0); // file: north, east, up mm/yr -> internal east, north, up m/yr
                v.push(f[0] / 1000.0);
                v.push(f[2] / 1000.0);
            }
        }
    }
    let cv = |x: f64| if linear { x } else { x.to_radians() };
    let m = MGrid { lat_n: cv(lat_n), lat_s: cv(lat_s), lon_w: cv(lon_w), lon_e: cv(lon_e), dlat: cv(dlat), dlon: cv(dlon), rows, cols, bands, v, lat_n_alt: cv(lat_n), lon_e_alt: cv(lon_e) };
    (t, m)
}

fn placement_label(s: &GsSpec) -> String {
    const A: [&str; 12] = ["anchor", "lon_e=360", "lon_w=-360", "lon_e=720", "lon_w=-720", "lon-straddles-360", "lon-anywhere-in[-720,720]", "global-0..360", "lat_n=360", "lat_s=-720", "lat_n=720", "lat-anywhere-in[-720,720]"];
    if s.linear {
        format!("placement=projected/{}", if s.wide == 0 { "far-beyond-720" } else { ["lat_n=720.03125", "lon_e=720.03125", "lon_w=-720.03125", "lat_s=-720.03125"][(s.wide % 4) as usize] })
    } else {
        format!("placement=angular/{}", A[(s.wide as usize).min(11)])
    }
}
type Wide = (u8, i32, i32);
fn wide_sel() -> impl Strategy<Value = Wide> {
    (prop_oneof![8 => Just(0u8), 7 => 1u8..=7, 3 => 8u8..=11], -720i32 * 16..=720 * 16, -700i32 * 16..=720 * 16)
}
fn gs_spec(anchor: (i32, i32), bands: u8, linear: bool, wide: Wide) -> impl Strategy<Value = GsSpec> {
    (-40i32..40, -60i32..40, 1u16..=32, 1u16..=32, 2u8..=7, 2u8..=7, 0u8..8, valspec()).prop_map(move |(a, b, dlat_q, dlon_q, rows, cols, layout, vals)| GsSpec {
        wide: wide.0,
        wlon_q: wide.1 + b,
        wlat_q: wide.2 + a,
        lat_n_q: anchor.0 + a,
        lon_w_q: anchor.1 + b,
        dlat_q,
        dlon_q,
        rows,
        cols,
        bands,
        linear,
        layout,
        vals,
    })
}
fn anchor() -> impl Strategy<Value = (i32, i32)> {
    (-60i32 * 16..70 * 16, -160i32 * 16..140 * 16)
}

// ---- NTv2 encoder, reader and model ---------------------------------------------------------

#[derive(Clone, Debug, Serialize, Deserialize)]
struct KidDraw {
    parent: u16,
    east: bool,
    r0: u16,
    rc: u16,
    c0: u16,
    cc: u16,
    k: u16,
}

/// An NTv2 file: one or two root grids and up to five nested children (depth <= 3); everything
/// in integer arcsec so that header doubles are exact. `lat0_q`, `lon0_q` in units of 225" (1/16 degree).
#[derive(Clone, Debug, Serialize, Deserialize)]
struct NtSpec {
    lat0_q: i32,
    lon0_q: i32,
    rcells: u8,
    ccells: u8,
    sp_lat: u8,
    sp_lon: u8,
    second: u8,
    rcells2: u8,
    ccells2: u8,
    kids: Vec<KidDraw>,
    order_seed: u32,
    big_endian: bool,
    end_rec: bool,
    vmode: u8, // 0 independent values per sub-grid, 1 child borders taken from the parent (consistent), 2 one global affine field
    vals: ValSpec,
}

const SPACINGS: [i64; 7] = [240, 360, 480, 720, 900, 1800, 3600];
const MIN_SPACING: i64 = 30;

/// One resolved sub-grid: arcsec, longitudes east-positive; node arrays rows from the north,
/// columns from the west; `lat`/`lon` = latitude shift / longitude shift (east-positive) in arcsec as stored f32.
#[derive(Clone, Debug)]
struct RSub {
    name: String,
    parent: Option<usize>,
    parent_name: String,
    s_lat: f64,
    n_lat: f64,
    w_lon: f64,
    e_lon: f64,
    dlat: f64,
    dlon: f64,
    rows: usize,
    cols: usize,
    depth: usize,
    lat: Vec<f32>,
    lon: Vec<f32>,
    kid_w: bool,
    kid_e: bool,
}

impl RSub {
    fn model(&self) -> MGrid {
        let rad = |sec: f64| (sec / 3600.0).to_radians();
        let mut v = Vec::with_capacity(self.rows * self.cols * 2);
        for i in 0..self.rows * self.cols {
            v.push(rad(self.lon[i] as f64));
            v.push(rad(self.lat[i] as f64));
        }
        MGrid {
            lat_n: rad(self.n_lat),
            lat_s: rad(self.s_lat),
            lon_w: rad(self.w_lon),
            lon_e: rad(self.e_lon),
            dlat: rad(self.dlat),
            dlon: rad(self.dlon),
            rows: self.rows,
            cols: self.cols,
            bands: 2,
            v,
            lat_n_alt: self.n_lat.to_radians() / 3600.0,
            lon_e_alt: self.e_lon.to_radians() / 3600.0,
        }
    }
    /// bilinear value of the arcsec arrays at (lat, lon) arcsec (used for consistent child borders)
    fn interp_sec(&self, lat: f64, lon: f64) -> (f64, f64) {
        let fy = (self.n_lat - lat) / self.dlat;
        let r0 = (fy.floor().max(0.0) as usize).min(self.rows - 2);
        let ty = fy - r0 as f64;
        let fx = (lon - self.w_lon) / self.dlon;
        let c0 = (fx.floor().max(0.0) as usize).min(self.cols - 2);
        let tx = fx - c0 as f64;
        let f = |a: &Vec<f32>| {
            let g = |r: usize, c: usize| a[r * self.cols + c] as f64;
            let u = g(r0, c0) + (g(r0, c0 + 1) - g(r0, c0)) * tx;
            let l = g(r0 + 1, c0) + (g(r0 + 1, c0 + 1) - g(r0 + 1, c0)) * tx;
            u + (l - u) * ty
        };
        (f(&self.lat), f(&self.lon))
    }
}

/// Sub-grid names (8-byte, blank padded fields; the reader trims): every length 1..=8, upper and lower case,
/// digits, inner blanks; per file one of three styles: 0 = independent random names, 1 = all names of full
/// width sharing their first seven characters (they differ in the 8th only), 2 = all names of full width.
/// The last character is the sub-grid's index digit: names are unique, never "NONE", never end in a blank.
fn nt_name(seed: u64, idx: usize) -> String {
    const CH: &[u8] = b"ABCDEFGHIJKLMNOPQRSTUVWXYZabcdefghijklmnopqrstuvwxyz0123456789_-.";
    let style = mix(seed ^ 0x5ca1ab1e) % 3;
    let h = if style == 1 { mix(seed ^ 0xfeed) } else { mix(seed ^ mix(idx as u64 + 11)) };
    let len = if style == 0 { (mix(h ^ 7) % 8) as usize } else { 7 }; // characters in front of the index digit
    let mut s = String::new();
    for k in 0..len {
        let c = CH[(mix(h.wrapping_add(k as u64)) % CH.len() as u64) as usize] as char;
        // an inner blank now and then (never first: the field is trimmed)
        s.push(if k > 0 && mix(h ^ (k as u64 * 977)) % 9 == 0 { ' ' } else { c });
    }
    s.push((b'0' + idx as u8) as char);
    s
}

fn nt_resolve(s: &NtSpec) -> Vec<RSub> {
    let mut subs: Vec<RSub> = vec![];
    let dlat = SPACINGS[pick_u8(s.sp_lat, SPACINGS.len())];
    let dlon = SPACINGS[pick_u8(s.sp_lon, SPACINGS.len())];
    let lat0 = s.lat0_q as i64 * 225;
    let lon0 = s.lon0_q as i64 * 225;
    let seed = s.order_seed as u64;
    let mk_root = |idx: usize, s_lat: i64, w_lon: i64, rc: i64, cc: i64| RSub {
        name: nt_name(seed, idx),
        parent: None,
        parent_name: "NONE".into(),
        s_lat: s_lat as f64,
        n_lat: (s_lat + rc * dlat) as f64,
        w_lon: w_lon as f64,
        e_lon: (w_lon + cc * dlon) as f64,
        dlat: dlat as f64,
        dlon: dlon as f64,
        rows: rc as usize + 1,
        cols: cc as usize + 1,
        depth: 0,
        lat: vec![],
        lon: vec![],
        kid_w: false,
        kid_e: false,
    };
    let (rc, cc) = (s.rcells.clamp(2, 6) as i64, s.ccells.clamp(2, 6) as i64);
    subs.push(mk_root(0, lat0, lon0, rc, cc));
    let (rc2, cc2) = (s.rcells2.clamp(2, 6) as i64, s.ccells2.clamp(2, 6) as i64);
    match s.second % 4 {
        1 => subs.push(mk_root(1, lat0, lon0 + cc * dlon, rc2, cc2)), // east, sharing an edge
        2 => subs.push(mk_root(1, lat0 + dlat, lon0 + cc * dlon + 3 * dlon / 2, rc2, cc2)), // east, gap of 1.5 cells
        3 => subs.push(mk_root(1, lat0 + rc * dlat, lon0 - dlon, rc2, cc2)), // north, sharing part of an edge
        _ => {}
    }
    for kd in &s.kids {
        let p = pick(kd.parent, subs.len());
        let idx = subs.len();
        if idx >= 8 || subs[p].depth >= 3 {
            continue;
        }
        if (kd.east && subs[p].kid_e) || (!kd.east && subs[p].kid_w) {
            continue;
        }
        let (prc, pcc) = (subs[p].rows - 1, subs[p].cols - 1);
        let split = pcc / 2;
        let (lo, hi) = if kd.east { (split, pcc) } else { (0, split) };
        let width = hi - lo;
        if width == 0 {
            continue;
        }
        let (pdlat, pdlon) = (subs[p].dlat as i64, subs[p].dlon as i64);
        let ks: Vec<i64> = [2i64, 3, 4, 5]
            .into_iter()
            .filter(|k| pdlat % k == 0 && pdlon % k == 0 && pdlat / k >= MIN_SPACING && pdlon / k >= MIN_SPACING)
            .collect();
        if ks.is_empty() {
            continue;
        }
        let k = ks[pick(kd.k, ks.len())];
        let ccn = 1 + pick(kd.cc, width.min(3));
        let c0 = lo + pick(kd.c0, width - ccn + 1);
        let rcn = 1 + pick(kd.rc, prc.min(3));
        let r0 = pick(kd.r0, prc - rcn + 1);
        let s_lat = subs[p].s_lat + r0 as f64 * subs[p].dlat;
        let w_lon = subs[p].w_lon + c0 as f64 * subs[p].dlon;
        let child = RSub {
            name: nt_name(seed, idx),
            parent: Some(p),
            parent_name: subs[p].name.clone(),
            s_lat,
            n_lat: s_lat + rcn as f64 * subs[p].dlat,
            w_lon,
            e_lon: w_lon + ccn as f64 * subs[p].dlon,
            dlat: (pdlat / k) as f64,
            dlon: (pdlon / k) as f64,
            rows: rcn * k as usize + 1,
            cols: ccn * k as usize + 1,
            depth: subs[p].depth + 1,
            lat: vec![],
            lon: vec![],
            kid_w: false,
            kid_e: false,
        };
        if kd.east {
            subs[p].kid_e = true;
        } else {
            subs[p].kid_w = true;
        }
        subs.push(child);
    }
    // node values, parents first (tree order guarantees that)
    for i in 0..subs.len() {
        let vs = s.vals.derive(i as u64);
        let (rows, cols) = (subs[i].rows, subs[i].cols);
        let mut lat = vec![0f32; rows * cols];
        let mut lon = vec![0f32; rows * cols];
        for r in 0..rows {
            for c in 0..cols {
                let la = subs[i].n_lat - r as f64 * subs[i].dlat;
                let lo = subs[i].w_lon + c as f64 * subs[i].dlon;
                let border = r == 0 || c == 0 || r + 1 == rows || c + 1 == cols;
                let (a, b) = if s.vmode % 3 == 2 {
                    // one affine field over the whole file, in degrees from the origin of root 0
                    let (u, w) = ((la - lat0 as f64) / 3600.0, (lo - lon0 as f64) / 3600.0);
                    let g = &s.vals;
                    (
                        g.base.0 * hunit(g.seed as u64, 1) + g.amp.0 * (0.31 * u - 0.17 * w),
                        g.base.0 * hunit(g.seed as u64, 2) + g.amp.0 * (0.13 * u + 0.29 * w),
                    )
                } else if s.vmode % 3 == 1 && border && subs[i].parent.is_some() {
                    subs[subs[i].parent.unwrap()].interp_sec(la, lo)
                } else {
                    (vs.at(0, r, c), vs.at(1, r, c))
                };
                lat[r * cols + c] = a as f32;
                lon[r * cols + c] = b as f32;
            }
        }
        subs[i].lat = lat;
        subs[i].lon = lon;
    }
    subs
}

fn pick_u8(i: u8, len: usize) -> usize {
    (i as usize * len) >> 8
}

fn file_order(n: usize, seed: u32) -> Vec<usize> {
    let mut o: Vec<usize> = (0..n).collect();
    o.sort_by_key(|i| mix(seed as u64 ^ mix(*i as u64 + 1)));
    o
}

struct NtWriter {
    buf: Vec<u8>,
    be: bool,
}
impl NtWriter {
    fn key(&mut self, k: &str) {
        let mut b = [b' '; 8];
        b[..k.len()].copy_from_slice(k.as_bytes());
        self.buf.extend_from_slice(&b);
    }
    fn rec_str(&mut self, k: &str, v: &str) {
        self.key(k);
        self.key(v);
    }
    fn rec_i32(&mut self, k: &str, v: i32) {
        self.key(k);
        self.buf.extend_from_slice(&if self.be { v.to_be_bytes() } else { v.to_le_bytes() });
        self.buf.extend_from_slice(&[0; 4]);
    }
    fn rec_f64(&mut self, k: &str, v: f64) {
        self.key(k);
        self.buf.extend_from_slice(&if self.be { v.to_be_bytes() } else { v.to_le_bytes() });
    }
    fn f32(&mut self, v: f32) {
        self.buf.extend_from_slice(&if self.be { v.to_be_bytes() } else { v.to_le_bytes() });
    }
}

/// NTv2 binary: overview header (11 records), per sub-grid a header (11 records) and the nodes
/// (lat shift, lon shift positive WEST, two accuracies; from the south-east corner, westwards, row by row northwards).
fn nt_encode(subs: &[RSub], order: &[usize], be: bool, end_rec: bool, sys: (&str, &str), axes: [f64; 4], dates: (&str, &str)) -> Vec<u8> {
    let mut w = NtWriter { buf: vec![], be };
    w.rec_i32("NUM_OREC", 11);
    w.rec_i32("NUM_SREC", 11);
    w.rec_i32("NUM_FILE", subs.len() as i32);
    w.rec_str("GS_TYPE", "SECONDS");
    w.rec_str("VERSION", "2.0");
    w.rec_str("SYSTEM_F", sys.0);
    w.rec_str("SYSTEM_T", sys.1);
    w.rec_f64("MAJOR_F", axes[0]);
    w.rec_f64("MINOR_F", axes[1]);
    w.rec_f64("MAJOR_T", axes[2]);
    w.rec_f64("MINOR_T", axes[3]);
    for &i in order {
        let s = &subs[i];
        w.rec_str("SUB_NAME", &s.name);
        w.rec_str("PARENT", &s.parent_name);
        w.rec_str("CREATED", dates.0);
        w.rec_str("UPDATED", dates.1);
        w.rec_f64("S_LAT", s.s_lat);
        w.rec_f64("N_LAT", s.n_lat);
        w.rec_f64("E_LONG", -s.e_lon);
        w.rec_f64("W_LONG", -s.w_lon);
        w.rec_f64("LAT_INC", s.dlat);
        w.rec_f64("LONG_INC", s.dlon);
        w.rec_i32("GS_COUNT", (s.rows * s.cols) as i32);
        for r in (0..s.rows).rev() {
            for c in (0..s.cols).rev() {
                w.f32(s.lat[r * s.cols + c]);
                w.f32(-s.lon[r * s.cols + c]);
                w.f32(0.0);
                w.f32(0.0);
            }
        }
    }
    if end_rec {
        w.key("END");
        w.buf.extend_from_slice(&[0; 8]);
    }
    w.buf
}

/// Independent little-endian reader (only used to cross-check model and encoder on the shipped files).
fn nt_read_le(b: &[u8]) -> Vec<RSub> {
    let f64at = |o: usize| f64::from_le_bytes(b[o..o + 8].try_into().unwrap());
    let f32at = |o: usize| f32::from_le_bytes(b[o..o + 4].try_into().unwrap());
    let i32at = |o: usize| i32::from_le_bytes(b[o..o + 4].try_into().unwrap());
    let strat = |o: usize| String::from_utf8_lossy(&b[o..o + 8]).trim().to_string();
    let n = i32at(40) as usize;
    let mut o = 176;
    let mut subs: Vec<RSub> = vec![];
    for _ in 0..n {
        let (s_lat, n_lat, e_w, w_w, dlat, dlon) = (f64at(o + 72), f64at(o + 88), f64at(o + 104), f64at(o + 120), f64at(o + 136), f64at(o + 152));
        let cnt = i32at(o + 168) as usize;
        let rows = ((n_lat - s_lat) / dlat).round() as usize + 1;
        let cols = ((w_w - e_w) / dlon).round() as usize + 1;
        assert_eq!(rows * cols, cnt, "nt_read_le: node count");
        let mut lat = vec![0f32; cnt];
        let mut lon = vec![0f32; cnt];
        for k in 0..cnt {
            let (rs, ce) = (k / cols, k % cols);
            let (r, c) = (rows - 1 - rs, cols - 1 - ce);
            lat[r * cols + c] = f32at(o + 176 + 16 * k);
            lon[r * cols + c] = -f32at(o + 176 + 16 * k + 4);
        }
        subs.push(RSub {
            name: strat(o + 8),
            parent: None,
            parent_name: strat(o + 24),
            s_lat,
            n_lat,
            w_lon: -w_w,
            e_lon: -e_w,
            dlat,
            dlon,
            rows,
            cols,
            depth: 0,
            lat,
            lon,
            kid_w: false,
            kid_e: false,
        });
        o += 176 + 16 * cnt;
    }
    for i in 0..subs.len() {
        subs[i].parent = subs.iter().position(|s| s.name == subs[i].parent_name);
    }
    subs
}

#[derive(Clone, Debug)]
struct MNt {
    subs: Vec<MGrid>,
    names: Vec<String>,
    roots: Vec<usize>,
    children: Vec<Vec<usize>>,
}

struct NtOut {
    cands: Vec<usize>,
    #[allow(dead_code)]
    none_ok: bool,
    some_required: bool,
    near: bool,
    /// near only because of the absolute 1e-6 rad band (would be definite under the 1e-4 cell rule)
    near_rad_only: bool,
    /// the owner under the 1e-4 cell rule alone (when no border is closer than that)
    strict_owner: Option<usize>,
}

impl MNt {
    fn new(subs: &[RSub]) -> MNt {
        let mut children = vec![vec![]; subs.len()];
        let mut roots = vec![];
        for (i, s) in subs.iter().enumerate() {
            match s.parent {
                Some(p) => children[p].push(i),
                None => roots.push(i),
            }
        }
        MNt { subs: subs.iter().map(|s| s.model()).collect(), names: subs.iter().map(|s| s.name.clone()).collect(), roots, children }
    }
    fn tau(&self, i: usize, tau_rad: f64) -> f64 {
        let g = &self.subs[i];
        TAU_CELL.max(tau_rad / g.dlat.min(g.dlon))
    }
    /// Documented selection: the deepest sub-grid containing the point; outside all roots the roots
    /// within `margin` cells. Near any sub-grid border: the set of candidate owners only.
    fn lookup(&self, x: f64, y: f64, margin: f64) -> NtOut {
        let n = self.subs.len();
        let d0: Vec<f64> = (0..n).map(|i| self.subs[i].dist_in(x, y, 0.0)).collect();
        let near = (0..n).any(|i| d0[i].abs() <= self.tau(i, TAU_RAD));
        let near_cell = (0..n).any(|i| d0[i].abs() <= TAU_CELL);
        let strict_owner = if near_cell {
            None
        } else {
            self.roots.iter().find(|&&r| d0[r] > 0.0).map(|&r| {
                let mut cur = r;
                while let Some(&c) = self.children[cur].iter().find(|&&c| d0[c] > 0.0) {
                    cur = c;
                }
                cur
            })
        };
        if !near {
            if let Some(&r) = self.roots.iter().find(|&&r| d0[r] > 0.0) {
                let mut cur = r;
                while let Some(&c) = self.children[cur].iter().find(|&&c| d0[c] > 0.0) {
                    cur = c;
                }
                return NtOut { cands: vec![cur], none_ok: false, some_required: true, near: false, near_rad_only: false, strict_owner };
            }
            if margin == 0.0 {
                return NtOut { cands: vec![], none_ok: true, some_required: false, near: false, near_rad_only: false, strict_owner };
            }
            let mut cands = vec![];
            let mut sure = false;
            for &r in &self.roots {
                let dm = self.subs[r].dist_in(x, y, margin);
                let t = self.tau(r, TAU_RAD);
                if dm > t {
                    cands.push(r);
                    sure = true;
                } else if dm >= -t {
                    cands.push(r);
                }
            }
            return NtOut { cands, none_ok: !sure, some_required: sure, near: false, near_rad_only: false, strict_owner };
        }
        let mut cands: Vec<usize> = (0..n).filter(|&i| d0[i] > -self.tau(i, TAU_RAD)).collect();
        if margin > 0.0 {
            for &r in &self.roots {
                if self.subs[r].dist_in(x, y, margin) > -self.tau(r, TAU_RAD) && !cands.contains(&r) {
                    cands.push(r);
                }
            }
        }
        // a point that is (beyond rounding) inside a root grid is contained by the file, whatever sub-grid serves it
        let some_required = self.roots.iter().any(|&r| d0[r] >= INSIDE_MIN);
        NtOut { cands, none_ok: !some_required, some_required, near: true, near_rad_only: !near_cell, strict_owner }
    }
    fn cand(&self, i: usize, x: f64, y: f64) -> Cand {
        self.subs[i].cand(x, y, &format!("sub-grid '{}'", self.names[i]))
    }
}

fn nt_spec(anchor: (i32, i32)) -> impl Strategy<Value = NtSpec> {
    let kid = (any::<u16>(), any::<bool>(), any::<u16>(), any::<u16>(), any::<u16>(), any::<u16>(), any::<u16>())
        .prop_map(|(parent, east, r0, rc, c0, cc, k)| KidDraw { parent, east, r0, rc, c0, cc, k });
    (
        (-40i32..20, -40i32..20, 2u8..=6, 2u8..=6, any::<u8>(), any::<u8>()),
        (prop_oneof![3 => Just(0u8), 1 => Just(1u8), 1 => Just(2u8), 1 => Just(3u8)], 2u8..=6, 2u8..=6),
        prop::collection::vec(kid, 0..=5),
        (any::<u32>(), any::<bool>(), any::<bool>(), 0u8..3, valspec()),
    )
        .prop_map(move |((a, b, rcells, ccells, sp_lat, sp_lon), (second, rcells2, ccells2), kids, (order_seed, big_endian, end_rec, vmode, vals))| NtSpec {
            lat0_q: anchor.0 + a,
            lon0_q: anchor.1 + b,
            rcells,
            ccells,
            sp_lat,
            sp_lon,
            second,
            rcells2,
            ccells2,
            kids,
            order_seed,
            big_endian,
            end_rec,
            vmode,
            vals,
        })
}

fn nt_build(s: &NtSpec) -> (Vec<u8>, MNt, Vec<RSub>) {
    let subs = nt_resolve(s);
    let order = file_order(subs.len(), s.order_seed);
    let bytes = nt_encode(&subs, &order, s.big_endian, s.end_rec, ("SRC", "DST"), [6378388.0, 6356911.946, 6378137.0, 6356752.314], ("20260927", "20260927"));
    let m = MNt::new(&subs);
    (bytes, m, subs)
}

// ---- queries -------------------------------------------------------------------------------------

/// A query, positioned relative to one (sub-)grid of the case. Classes: 0 node, 1 cell interior,
/// 2 cell border, 3 grid border (exactly), 4 inside the half-cell margin, 5 just outside the margin,
/// 6 far outside, 7 near a border (+-10^-3..10^-13 cells), 8 on / just inside the north or east edge of a grid without parent.
#[derive(Clone, Debug, Serialize, Deserialize)]
struct Q {
    g: u16,
    sub: u16,
    class: u8,
    i: u16,
    j: u16,
    fx: F,
    fy: F,
    off: F,
    side: u8,
    z: F,
    t: F,
}

const CLASS_NAMES: [&str; 9] = ["node", "interior", "cell-border", "grid-border", "margin", "near-outside", "far-outside", "near-border", "root-upper-edge"];

fn q_strategy() -> impl Strategy<Value = Q> {
    (
        any::<u16>(),
        any::<u16>(),
        prop_oneof![2 => Just(0u8), 4 => Just(1u8), 2 => Just(2u8), 2 => Just(3u8), 3 => Just(4u8), 2 => Just(5u8), 1 => Just(6u8), 3 => Just(7u8), 3 => Just(8u8)],
        any::<u16>(),
        any::<u16>(),
        (0.0f64..1.0, 0.0f64..1.0, 0.0f64..1.0),
        0u8..8,
        -100.0f64..3000.0,
        0.0f64..1.0,
    )
        .prop_map(|(g, sub, class, i, j, (fx, fy, off), side, z, t)| Q { g, sub, class, i, j, fx: F(fx), fy: F(fy), off: F(off), side, z: F(z), t: F(t) })
}

fn resolve(q: &Q, g: &MGrid) -> (f64, f64) {
    let (fx, fy) = (q.fx.0, q.fy.0);
    match q.class {
        0 => (g.xc(pick(q.j, g.cols)), g.yr(pick(q.i, g.rows))),
        1 => {
            let (r, c) = (pick(q.i, g.rows - 1), pick(q.j, g.cols - 1));
            (g.lon_w + (c as f64 + 0.02 + 0.96 * fx) * g.dlon, g.lat_n - (r as f64 + 0.02 + 0.96 * fy) * g.dlat)
        }
        2 => {
            if q.side & 1 == 1 {
                (g.xc(pick(q.j, g.cols)), g.lat_n - (pick(q.i, g.rows - 1) as f64 + fy) * g.dlat)
            } else {
                (g.lon_w + (pick(q.j, g.cols - 1) as f64 + fx) * g.dlon, g.yr(pick(q.i, g.rows)))
            }
        }
        3 => {
            if q.side < 4 {
                g.place(q.side, fx, 0.0)
            } else {
                g.place_corner(q.side - 4, 0.0, 0.0)
            }
        }
        4 => {
            if q.side < 4 {
                g.place(q.side, fx, 0.02 + 0.46 * fy)
            } else {
                g.place_corner(q.side - 4, 0.02 + 0.46 * fy, 0.02 + 0.46 * fx)
            }
        }
        5 => {
            if q.side < 4 {
                g.place(q.side, fx, 0.52 + fy)
            } else {
                g.place_corner(q.side - 4, 0.52 + fy, 0.3 * fx)
            }
        }
        6 => g.place(q.side, 1.4 * fx - 0.2, 3.0 + 47.0 * fy),
        8 => {
            // north edge, east edge or north-east corner of a grid without parent: either ON the limit (at most
            // a few ulp inside it whatever the rounding order of the unit conversion) or 1e-7..1e-5 cell inside
            let on = q.off.0 < 0.35;
            let mag = 10f64.powf(-(5.0 + 2.0 * (q.off.0 - 0.35).max(0.0) / 0.65));
            let yn = if on { g.lat_n.min(g.lat_n_alt).next_down() } else { g.lat_n - mag * g.dlat };
            let xe = if on { g.lon_e.min(g.lon_e_alt).next_down() } else { g.lon_e - mag * g.dlon };
            match q.side % 3 {
                0 => (g.lon_w + (0.02 + 0.96 * fx) * (g.lon_e - g.lon_w), yn),
                1 => (xe, g.lat_s + (0.02 + 0.96 * fy) * (g.lat_n - g.lat_s)),
                _ => (xe, yn),
            }
        }
        _ => {
            let mag = 10f64.powf(-(3.0 + 10.0 * q.off.0));
            let out = if q.side & 4 != 0 { mag } else { -mag };
            g.place(q.side, 0.02 + 0.96 * fx, out)
        }
    }
}

// ---- grid lists ------------------------------------------------------------------------------------

#[derive(Clone, Debug, Serialize, Deserialize)]
enum Item {
    Gs(GsSpec),
    Nt(NtSpec),
}

enum MItem {
    Base(MGrid),
    Nt(MNt),
}

struct Built {
    name: String,
    bytes: Vec<u8>,
    model: MItem,
}

fn build_item(it: &Item, idx: usize) -> Built {
    match it {
        Item::Gs(s) => {
            let (text, m) = gs_build(s);
            let ext = match s.bands {
                1 => "geoid",
                2 => "datum",
                _ => "deformation",
            };
            let bytes = text.into_bytes();
            Built { name: format!("g{idx}_{:012x}.{ext}", hash_bytes(&bytes) & 0xffff_ffff_ffff), bytes, model: MItem::Base(m) }
        }
        Item::Nt(s) => {
            let (bytes, m, _) = nt_build(s);
            Built { name: format!("g{idx}_{:012x}.gsb", hash_bytes(&bytes) & 0xffff_ffff_ffff), bytes, model: MItem::Nt(m) }
        }
    }
}

impl Built {
    fn decode(&self) -> Result<Arc<dyn Grid>, String> {
        let is_nt = matches!(self.model, MItem::Nt(_));
        let bytes = &self.bytes;
        match guard(|| -> Result<Arc<dyn Grid>, geodesy::Error> {
            if is_nt {
                Ok(Arc::new(Ntv2Grid::new(bytes)?))
            } else {
                Ok(Arc::new(BaseGrid::gravsoft(bytes)?))
            }
        }) {
            Err(p) => Err(format!("panic {} at {}:{}", p.msg, p.file, p.line)),
            Ok(Err(e)) => Err(format!("error {e:?}")),
            Ok(Ok(g)) => Ok(g),
        }
    }
}

impl MItem {
    fn bands(&self) -> usize {
        match self {
            MItem::Base(g) => g.bands,
            MItem::Nt(_) => 2,
        }
    }
    fn target(&self, q: &Q) -> &MGrid {
        match self {
            MItem::Base(g) => g,
            MItem::Nt(n) if q.class == 8 => &n.subs[n.roots[pick(q.sub, n.roots.len())]],
            MItem::Nt(n) => &n.subs[pick(q.sub, n.subs.len())],
        }
    }
    fn maxabs(&self) -> f64 {
        match self {
            MItem::Base(g) => g.maxabs(),
            MItem::Nt(n) => n.subs.iter().fold(0.0f64, |m, g| m.max(g.maxabs())),
        }
    }
    /// distance (internal units) from the point to the nearest border or margin border of any (sub-)grid
    fn clearance(&self, x: f64, y: f64) -> f64 {
        let one = |g: &MGrid| {
            let c = g.dlat.min(g.dlon);
            (g.dist_in(x, y, 0.0).abs() * c).min(g.dist_in(x, y, 0.5).abs() * c)
        };
        match self {
            MItem::Base(g) => one(g),
            MItem::Nt(n) => n.subs.iter().map(one).fold(f64::INFINITY, f64::min),
        }
    }
    /// the (extrapolated) interpolation in every (sub-)grid of the item, for diagnostics
    fn all_cands(&self, idx: usize, x: f64, y: f64) -> Vec<Cand> {
        match self {
            MItem::Base(g) => vec![g.cand(x, y, &format!("grid #{idx}"))],
            MItem::Nt(n) => (0..n.subs.len()).map(|i| { let mut c = n.cand(i, x, y); c.who = format!("grid #{idx} {}", c.who); c }).collect(),
        }
    }
    /// steepest value change per unit of position (bands 0, 1): contraction factor of the inverse iteration
    fn steepness(&self) -> f64 {
        let one = |g: &MGrid| (0..g.bands.min(2)).map(|b| g.maxdiff(b)).fold(0.0, f64::max) / g.dlat.min(g.dlon);
        match self {
            MItem::Base(g) => one(g),
            MItem::Nt(n) => n.subs.iter().map(one).fold(0.0, f64::max),
        }
    }
    fn loc(&self, idx: usize, x: f64, y: f64, m: f64, eps: f64, exact_ok: bool, excluded: &mut u64) -> (Loc, Vec<Cand>) {
        match self {
            MItem::Base(g) => {
                let d = g.dist_in(x, y, m);
                let c = vec![g.cand(x, y, &format!("grid #{idx}"))];
                if d > eps {
                    (Loc::In, c)
                } else if d < -eps {
                    (Loc::Out, vec![])
                } else if m == 0.0 && exact_ok && g.on_border_exact(x, y) {
                    (Loc::In, c)
                } else {
                    (Loc::Edge, c)
                }
            }
            MItem::Nt(n) => {
                let o = n.lookup(x, y, m);
                let cands: Vec<Cand> = o.cands.iter().map(|&i| { let mut c = n.cand(i, x, y); c.who = format!("grid #{idx} {}", c.who); c }).collect();
                if o.near && !o.some_required && !cands.is_empty() {
                    *excluded += 1; // within rounding of an outer border: hit not asserted
                }
                if o.some_required {
                    // the hit is certain; near a sub-grid border the value may come from any touching sub-grid
                    (Loc::In, cands)
                } else if cands.is_empty() {
                    (Loc::Out, cands)
                } else {
                    (Loc::Edge, cands)
                }
            }
        }
    }
}

struct Expect {
    cands: Vec<Cand>,
    nohit_ok: bool,
}
impl Expect {
    fn unique(&self) -> bool {
        self.cands.len() + self.nohit_ok as usize == 1
    }
}

/// Documented selection over a list: first grid containing the point, else first within the
/// half-cell margin, else no hit. Knife edges widen the set of acceptable outcomes.
fn list_expect(items: &[&MItem], x: f64, y: f64, eps: f64, exact_ok: bool, excluded: &mut u64) -> Expect {
    let mut cands = vec![];
    for m in [0.0, 0.5] {
        for (i, it) in items.iter().enumerate() {
            let (loc, cs) = it.loc(i, x, y, m, eps, exact_ok, excluded);
            match loc {
                Loc::In => {
                    cands.extend(cs);
                    return Expect { cands, nohit_ok: false };
                }
                Loc::Edge => cands.extend(cs),
                Loc::Out => {}
            }
        }
    }
    Expect { cands, nohit_ok: true }
}

fn close_to(v: &[f64], c: &Cand, bands: usize, extra: f64) -> bool {
    (0..bands).all(|b| (v[b] - c.val[b]).abs() <= REL * c.scale[b] + extra)
}
fn worst_rel(v: &[f64], c: &Cand, bands: usize) -> f64 {
    (0..bands).map(|b| if c.scale[b] > 0.0 { (v[b] - c.val[b]).abs() / c.scale[b] } else { 0.0 }).fold(0.0, f64::max)
}
fn fmt_cands(cs: &[Cand], bands: usize) -> String {
    cs.iter().map(|c| format!("{} -> {:?}", c.who, &c.val[..bands])).collect::<Vec<_>>().join("; ")
}
fn json<T: Serialize>(v: &T) -> String {
    serde_json::to_string(v).unwrap_or_default()
}

// ---- section A: BaseGrid::gravsoft + Grid::at / contains ------------------------------------------

#[derive(Clone, Debug, Serialize, Deserialize)]
struct GsCase {
    g: GsSpec,
    margin: F,
    qs: Vec<Q>,
}

fn lib_at(grid: &dyn Grid, p: &Coor4D, m: f64) -> Result<(Option<Coor4D>, bool), Failure> {
    match guard(|| (grid.at(p, m), grid.contains(p, m))) {
        Ok(r) => Ok(r),
        Err(pn) => Err(Failure { key: format!("panic-grid-at@{}", pn.sig()), msg: format!("Grid::at/contains panics at {p:?} margin {m}: {} at {}:{}", pn.msg, pn.file, pn.line) }),
    }
}

fn check_gravsoft(c: &GsCase, rec: &mut Rec) -> CaseResult {
    let (text, m) = gs_build(&c.g);
    let grid = match guard(|| BaseGrid::gravsoft(text.as_bytes())) {
        Err(p) => vfail!(format!("panic-gravsoft-decode@{}", p.sig()), "BaseGrid::gravsoft panics on a well-formed file: {} at {}:{}\n{text}", p.msg, p.file, p.line),
        Ok(Err(e)) => vfail!("gravsoft-rejects-well-formed", "BaseGrid::gravsoft rejects a well-formed file: {e:?}\n{text}"),
        Ok(Ok(g)) => g,
    };
    let bands = m.bands;
    vensure!(grid.bands() == bands, "gravsoft-band-count", "file with {bands} band(s) decoded as {} band(s)\n{text}", grid.bands());
    let spec_h = hash_bytes(text.as_bytes());
    rec.class(&placement_label(&c.g));
    let mut fails = Fails::default();
    let ctx = |q: &Q, x: f64, y: f64| format!("grid spec {}\nheader(internal) lat_n={} lat_s={} lon_w={} lon_e={} dlat={} dlon={} rows={} cols={} bands={}\nquery class {} at (x={x:?}, y={y:?})", json(&c.g), m.lat_n, m.lat_s, m.lon_w, m.lon_e, m.dlat, m.dlon, m.rows, m.cols, bands, CLASS_NAMES[q.class as usize]);
    for q in &c.qs {
        let (x, y) = resolve(q, &m);
        let p = Coor4D::raw(x, y, q.z.0, q.t.0);
        rec.class(CLASS_NAMES[q.class as usize]);
        let refc = m.cand(x, y, "reference");
        for margin in [0.0, 0.5, c.margin.0] {
            let d = m.dist_in(x, y, margin);
            let loc = if d > EPS_DIRECT {
                Loc::In
            } else if d < -EPS_DIRECT {
                Loc::Out
            } else if margin == 0.0 && m.on_border_exact(x, y) {
                Loc::In
            } else {
                Loc::Edge
            };
            let (got, cont) = lib_at(&grid, &p, margin)?;
            rec.count("lookups", 1);
            if cont != got.is_some() {
                fails.push("gravsoft-at-contains-disagree", format!("contains = {cont} but at = {got:?} (margin {margin})\n{}", ctx(q, x, y)));
            }
            match (loc, &got) {
                (Loc::In, None) => fails.push("gravsoft-none-inside", format!("at(margin {margin}) = None, but the point is {d} cells inside the (expanded) border\n{}", ctx(q, x, y))),
                (Loc::Out, Some(v)) => fails.push("gravsoft-some-outside", format!("at(margin {margin}) = {v:?}, but the point is {} cells outside the (expanded) border\n{}", -d, ctx(q, x, y))),
                (Loc::Edge, _) => rec.count("knife_edge_not_asserted", 1),
                _ => {}
            }
            if let Some(v) = got {
                let v = [v[0], v[1], v[2], v[3]];
                rec.metric("worst_rel_value_error", worst_rel(&v, &refc, bands));
                if !close_to(&v, &refc, bands, 0.0) {
                    // classify: does it equal the reference with swapped weights / transposed cell?
                    let key = if q.class == 0 { "gravsoft-node-not-reproduced" } else if d < 0.0 { "gravsoft-margin-not-linear-continuation" } else { "gravsoft-bilinear-value" };
                    fails.push(key, format!("at(margin {margin}) = {:?}, reference bilinear value {:?} (corners of band 0: {:?}), tolerance {REL} x max|corner| = {:?}\n{}", &v[..bands], &refc.val[..bands], m.corners(x, y, 0), refc.scale.map(|s| s * REL), ctx(q, x, y)));
                }
                if (bands..4).any(|b| v[b] != 0.0) {
                    fails.push("gravsoft-unused-band-nonzero", format!("at() of a {bands}-band grid returns non-zero in an unused element: {v:?}\n{}", ctx(q, x, y)));
                }
                if q.class == 1 {
                    // strictly inside a cell: within the range of the four corners
                    for b in 0..bands {
                        let cs = m.corners(x, y, b);
                        let (lo, hi) = (cs.iter().cloned().fold(f64::INFINITY, f64::min), cs.iter().cloned().fold(f64::NEG_INFINITY, f64::max));
                        let tol = REL * refc.scale[b];
                        if v[b] < lo - tol || v[b] > hi + tol {
                            fails.push("gravsoft-outside-corner-range", format!("band {b}: value {} outside the corner range [{lo}, {hi}]\n{}", v[b], ctx(q, x, y)));
                        }
                    }
                    let cs = m.corners(x, y, 0);
                    if cs[0] != cs[1] && cs[0] != cs[2] && cs[0] != cs[3] && cs[1] != cs[2] && cs[1] != cs[3] && cs[2] != cs[3] && margin == 0.0 {
                        rec.nontrivial(&(spec_h, q.class, (q.fx.0 * 1e4) as i64, (q.fy.0 * 1e4) as i64, q.i, q.j));
                    }
                } else if q.class == 4 && margin == 0.5 {
                    rec.nontrivial(&(spec_h, q.class, q.side, (q.fx.0 * 1e4) as i64, (q.fy.0 * 1e4) as i64));
                }
            }
        }
        // metamorphic: linear continuation across the border, f(b - d) = 2 f(b) - f(b + d) for one-sided margin points
        if q.class == 4 && q.side < 4 {
            let out = 0.02 + 0.46 * q.fy.0;
            let (xb, yb) = m.place(q.side, q.fx.0, 0.0);
            let (xi, yi) = m.place(q.side, q.fx.0, -out);
            let vals: Vec<Option<Coor4D>> = [(x, y), (xb, yb), (xi, yi)].iter().map(|(a, b)| grid.at(&Coor4D::raw(*a, *b, 0.0, 0.0), 0.5)).collect();
            if let (Some(o), Some(b), Some(i)) = (vals[0], vals[1], vals[2]) {
                for k in 0..bands {
                    let tol = 6.0 * REL * refc.scale[k] + 1e-300;
                    if (o[k] - (2.0 * b[k] - i[k])).abs() > tol {
                        fails.push("gravsoft-margin-not-linear-continuation", format!("band {k}: f(outside)={} but 2 f(border) - f(mirror inside) = {} (border {}, inside {}), tolerance {tol}\n{}", o[k], 2.0 * b[k] - i[k], b[k], i[k], ctx(q, x, y)));
                    }
                }
                rec.count("margin_linearity_checks", 1);
            }
        }
        // continuity across cell borders: two points 1e-9 cell either side of the border point
        if q.class == 2 {
            let (dx, dy) = (1e-9 * m.dlon, 1e-9 * m.dlat);
            let a = grid.at(&Coor4D::raw(x - dx, y - dy, 0.0, 0.0), 0.5);
            let b = grid.at(&Coor4D::raw(x + dx, y + dy, 0.0, 0.0), 0.5);
            if let (Some(a), Some(b)) = (a, b) {
                for k in 0..bands {
                    let tol = 8e-9 * m.maxdiff(k) + 1e-12 * refc.scale[k] + 1e-300;
                    if (a[k] - b[k]).abs() > tol {
                        fails.push("gravsoft-discontinuous-at-cell-border", format!("band {k}: values {} and {} either side (1e-9 cell) of a cell border differ by more than {tol}\n{}", a[k], b[k], ctx(q, x, y)));
                    }
                }
                rec.count("continuity_checks", 1);
            }
        }
    }
    fails.finish()
}

fn gs_case() -> impl Strategy<Value = GsCase> {
    (anchor(), 1u8..=3, prop::bool::weighted(0.2), wide_sel())
        .prop_flat_map(|(a, bands, linear, wide)| (gs_spec(a, bands, linear, wide), prop_oneof![0.01f64..0.5, 0.5f64..3.0], prop::collection::vec(q_strategy(), 8..=24)))
        .prop_map(|(g, margin, qs)| GsCase { g, margin: F(margin), qs })
}

// ---- section B: Ntv2Grid::new + Grid::at / contains ----------------------------------------------------

#[derive(Clone, Debug, Serialize, Deserialize)]
struct NtCase {
    f: NtSpec,
    qs: Vec<Q>,
}

fn check_ntv2(c: &NtCase, rec: &mut Rec) -> CaseResult {
    let (bytes, m, rsubs) = nt_build(&c.f);
    let grid = match guard(|| Ntv2Grid::new(&bytes)) {
        Err(p) => vfail!(format!("panic-ntv2-decode@{}", p.sig()), "Ntv2Grid::new panics on a well-formed file: {} at {}:{}\nspec {}", p.msg, p.file, p.line, json(&c.f)),
        Ok(Err(e)) => vfail!("ntv2-rejects-well-formed", "Ntv2Grid::new rejects a well-formed file: {e:?}\nspec {}", json(&c.f)),
        Ok(Ok(g)) => g,
    };
    let spec_h = hash_bytes(&bytes);
    let nsub = m.subs.len();
    rec.class(&format!("subgrids={nsub}"));
    rec.class(&format!("depth={}", rsubs.iter().map(|s| s.depth).max().unwrap_or(0)));
    rec.class(if c.f.big_endian { "big-endian" } else { "little-endian" });
    for sub in &rsubs {
        rec.class(&format!("name-length={}{}", sub.name.len(), if sub.name.contains(' ') { ",inner-blank" } else { "" }));
        if sub.parent.is_some() {
            rec.class(&format!("parent-reference-length={}", sub.parent_name.len()));
        }
    }
    rec.class(["values-independent", "values-consistent-borders", "values-global-affine"][(c.f.vmode % 3) as usize]);
    let tree = rsubs
        .iter()
        .map(|s| format!("{}<-{} lat[{},{}] lon[{},{}] inc({},{}) {}x{}", s.name, s.parent_name, s.s_lat, s.n_lat, s.w_lon, s.e_lon, s.dlat, s.dlon, s.rows, s.cols))
        .collect::<Vec<_>>()
        .join(" | ");
    let mut fails = Fails::default();
    for q in &c.qs {
        let ti = if q.class == 8 { m.roots[pick(q.sub, m.roots.len())] } else { pick(q.sub, nsub) };
        let (x, y) = resolve(q, &m.subs[ti]);
        let p = Coor4D::raw(x, y, q.z.0, q.t.0);
        if q.class == 8 {
            rec.class(if q.off.0 < 0.35 { "root-upper-edge:on-the-limit" } else { "root-upper-edge:1e-7..1e-5-cell-inside" });
        }
        let ctx = || format!("NTv2 spec {}\nsub-grids (arcsec, lon east-positive; file order {:?}): {tree}\nquery class {} relative to '{}' at (lon={x:?}, lat={y:?}) rad = ({}\", {}\")", json(&c.f), file_order(nsub, c.f.order_seed), CLASS_NAMES[q.class as usize], m.names[ti], x.to_degrees() * 3600.0, y.to_degrees() * 3600.0);
        for margin in [0.0, 0.5] {
            let o = m.lookup(x, y, margin);
            let (got, cont) = lib_at(&grid, &p, margin)?;
            rec.count("lookups", 1);
            let cands: Vec<Cand> = o.cands.iter().map(|&i| m.cand(i, x, y)).collect();
            let label = if o.near {
                if o.near_rad_only { "excluded_known_upper_edge_band" } else { "near-border(candidates)" }
            } else if o.some_required {
                if o.cands.len() == 1 { ["owner-depth-0", "owner-depth-1", "owner-depth-2", "owner-depth-3"][rsubs[o.cands[0]].depth.min(3)] } else { "root-margin-ambiguous" }
            } else if o.cands.is_empty() {
                "outside"
            } else {
                "root-margin-edge"
            };
            rec.class(label);
            match &got {
                None => {
                    // class 8 is, by construction, on or inside the north/east limit of a root grid
                    if o.some_required || q.class == 8 {
                        let root_upper = m.roots.iter().any(|&r| {
                            let g = &m.subs[r];
                            g.dist_in(x, y, 0.0) > -TAU_CELL && ((g.lat_n - y) / g.dlat < TAU_CELL || (g.lon_e - x) / g.dlon < TAU_CELL)
                        });
                        let key = if q.class == 8 || root_upper { "ntv2-none-at-root-upper-edge" } else if o.near { "ntv2-none-inside-root-at-subgrid-seam" } else { "ntv2-none-inside" };
                        fails.push(key, format!("Ntv2Grid::at(margin {margin}) = None (contains = {cont}) for a point inside the file's coverage; acceptable owners: {}\n{}", fmt_cands(&cands, 2), ctx()));
                    }
                }
                Some(v) => {
                    let v = [v[0], v[1], v[2], v[3]];
                    if cands.is_empty() {
                        fails.push("ntv2-some-outside", format!("Ntv2Grid::at(margin {margin}) = {:?} for a point outside every root grid (and its margin)\n{}", &v[..2], ctx()));
                    } else if let Some(c) = cands.iter().filter(|c| close_to(&v, c, 2, 0.0)).min_by(|a, b| worst_rel(&v, a, 2).total_cmp(&worst_rel(&v, b, 2))) {
                        rec.metric("worst_rel_value_error", worst_rel(&v, c, 2));
                        if let (true, Some(so)) = (o.near_rad_only, o.strict_owner) {
                            // more than 1e-4 cell inside the deepest sub-grid, but within 1e-6 rad of its north/east edge
                            let sc = m.cand(so, x, y);
                            if !close_to(&v, &sc, 2, 0.0) {
                                fails.push("ntv2-upper-edge-band-absolute", format!("Ntv2Grid::at(margin {margin}) = {:?} is not the interpolation in the deepest sub-grid containing the point ({} -> {:?}) but in {}; the point is {} cells inside that sub-grid\n{}", &v[..2], sc.who, &sc.val[..2], c.who, m.subs[so].dist_in(x, y, 0.0), ctx()));
                            }
                        }
                        if v[2] != 0.0 || v[3] != 0.0 {
                            fails.push("ntv2-unused-band-nonzero", format!("at() returns non-zero in an unused element: {v:?}\n{}", ctx()));
                        }
                    } else {
                        // which sub-grid was used, if any?
                        let other = (0..nsub).find(|&i| close_to(&v, &m.cand(i, x, y), 2, 0.0));
                        // signature of the repaired finding: within 1e-6 rad south/west of the north/east edge of a containing sub-grid
                        let in_band = (0..nsub).any(|i| m.subs[i].dist_in(x, y, 0.0) > 0.0 && (m.subs[i].lat_n - y < 1.05e-6 || m.subs[i].lon_e - x < 1.05e-6));
                        let key = match other {
                            Some(_) if o.near_rad_only || in_band => "ntv2-upper-edge-band-absolute",
                            Some(_) => "ntv2-wrong-subgrid",
                            None => "ntv2-value-mismatch",
                        };
                        fails.push(key, format!("Ntv2Grid::at(margin {margin}) = {:?} (lon, lat shift rad); acceptable: {}; value equals interpolation in {}; tolerance {REL} x max|corner|\n{}", &v[..2], fmt_cands(&cands, 2), other.map(|i| format!("sub-grid '{}'", m.names[i])).unwrap_or("no sub-grid of the file".into()), ctx()));
                    }
                }
            }
            if q.class == 8 && !cont {
                fails.push("ntv2-none-at-root-upper-edge", format!("Ntv2Grid::contains(margin {margin}) = false for a point on / just inside the north or east limit of root grid '{}'\n{}", m.names[ti], ctx()));
            }
            if cont != got.is_some() && !o.near {
                fails.push("ntv2-at-contains-disagree", format!("contains = {cont} but at = {got:?} (margin {margin})\n{}", ctx()));
            }
            if margin == 0.0 && !o.near && o.some_required {
                let g = &m.subs[o.cands[0]];
                let cs = g.corners(x, y, 0);
                if rsubs[o.cands[0]].depth > 0 || (cs[0] != cs[1] && cs[0] != cs[2] && cs[1] != cs[3]) {
                    rec.nontrivial(&(spec_h, q.class, q.sub, q.i, q.j, (q.fx.0 * 1e4) as i64, (q.fy.0 * 1e4) as i64));
                }
            }
        }
        // continuity across (consistent) sub-grid borders: mirror points either side of the border
        if q.class == 7 && c.f.vmode % 3 != 0 {
            let mag = 10f64.powf(-(3.0 + 10.0 * q.off.0));
            let g = &m.subs[ti];
            let (xa, ya) = g.place(q.side, 0.02 + 0.96 * q.fx.0, mag);
            let (xb, yb) = g.place(q.side, 0.02 + 0.96 * q.fx.0, -mag);
            // only where both points are inside some root (no outer border involved)
            // only borders of child sub-grids, both points strictly inside the parent (root/root borders are not 'consistent')
            let par = rsubs[ti].parent;
            let inside_root = |x: f64, y: f64| par.map(|r| m.subs[r].dist_in(x, y, 0.0) > m.tau(r, TAU_RAD)).unwrap_or(false);
            if inside_root(xa, ya) && inside_root(xb, yb) {
                let a = grid.at(&Coor4D::raw(xa, ya, 0.0, 0.0), 0.5);
                let b = grid.at(&Coor4D::raw(xb, yb, 0.0, 0.0), 0.5);
                if let (Some(a), Some(b)) = (a, b) {
                    for k in 0..2 {
                        let lip: f64 = (0..nsub).filter(|&i| m.subs[i].dist_in(xa, ya, 0.0) > -m.tau(i, TAU_RAD) || m.subs[i].dist_in(xb, yb, 0.0) > -m.tau(i, TAU_RAD)).map(|i| m.subs[i].maxdiff(k) * g.dlat.max(g.dlon) / m.subs[i].dlat.min(m.subs[i].dlon)).sum();
                        let scale = m.subs.iter().map(|s| s.cand(x, y, "").scale[k]).fold(0.0, f64::max);
                        let tol = 4.0 * mag * lip + 4.0 * REL * scale + 1e-300;
                        if (a[k] - b[k]).abs() > tol {
                            fails.push("ntv2-discontinuous-at-consistent-border", format!("band {k}: values {} and {} at mirror points {mag} cells either side of a border of '{}' differ by more than {tol} although the sub-grids agree on their common borders\n{}", a[k], b[k], m.names[ti], ctx()));
                        }
                    }
                    rec.count("subgrid_continuity_checks", 1);
                }
            }
        }
    }
    fails.finish()
}

fn nt_case() -> impl Strategy<Value = NtCase> {
    anchor().prop_flat_map(|a| (nt_spec(a), prop::collection::vec(q_strategy(), 12..=32))).prop_map(|(f, qs)| NtCase { f, qs })
}

// ---- section C: geodesy::authoring::grids_at on lists -----------------------------------------------

#[derive(Clone, Debug, Serialize, Deserialize)]
struct ListCase {
    items: Vec<Item>,
    null: bool,
    qs: Vec<Q>,
}

fn describe_items(items: &[Item], built: &[Built]) -> String {
    items
        .iter()
        .zip(built)
        .enumerate()
        .map(|(i, (it, b))| match &b.model {
            MItem::Base(g) => format!("#{i} {} gravsoft {} band(s) lat[{},{}] lon[{},{}] cell({},{})", b.name, g.bands, g.lat_s, g.lat_n, g.lon_w, g.lon_e, g.dlat, g.dlon),
            MItem::Nt(n) => format!("#{i} {} ntv2 {} sub-grid(s) roots {:?} spec {}", b.name, n.subs.len(), n.roots.iter().map(|&r| { let g = &n.subs[r]; (g.lat_s, g.lat_n, g.lon_w, g.lon_e) }).collect::<Vec<_>>(), json(it)),
        })
        .collect::<Vec<_>>()
        .join("\n")
}

fn check_list(c: &ListCase, rec: &mut Rec) -> CaseResult {
    let built: Vec<Built> = c.items.iter().enumerate().map(|(i, it)| build_item(it, i)).collect();
    let mut grids: Vec<Arc<dyn Grid>> = vec![];
    for b in &built {
        match b.decode() {
            Ok(g) => grids.push(g),
            Err(e) => vfail!("list-grid-rejected", "a well-formed generated grid is not decoded: {e}\n{}", json(&c.items)),
        }
    }
    let models: Vec<&MItem> = built.iter().map(|b| &b.model).collect();
    let bands = models[0].bands();
    let case_h = built.iter().fold(0u64, |h, b| mix(h ^ hash_bytes(&b.bytes)));
    rec.class(&format!("list-length={}", built.len()));
    if let Some(Item::Gs(g)) = c.items.iter().find(|i| matches!(i, Item::Gs(_))) {
        rec.class(&placement_label(g));
    }
    let mut fails = Fails::default();
    let mut excluded = 0u64;
    for q in &c.qs {
        let ti = pick(q.g, built.len());
        let (x, y) = resolve(q, models[ti].target(q));
        let p = Coor4D::raw(x, y, q.z.0, q.t.0);
        let e = list_expect(&models, x, y, EPS_DIRECT, true, &mut excluded);
        let got = match guard(|| grids_at(&grids, &p, c.null)) {
            Ok(g) => g,
            Err(pn) => vfail!(format!("panic-grids_at@{}", pn.sig()), "grids_at panics: {} at {}:{}\n{}", pn.msg, pn.file, pn.line, describe_items(&c.items, &built)),
        };
        rec.count("lookups", 1);
        // coverage classes: how many grids contain the point / have it in their margin
        let n_in = models.iter().enumerate().filter(|(i, m)| m.loc(*i, x, y, 0.0, EPS_DIRECT, true, &mut 0).0 == Loc::In).count();
        let n_margin = models.iter().enumerate().filter(|(i, m)| m.loc(*i, x, y, 0.5, EPS_DIRECT, true, &mut 0).0 == Loc::In).count();
        let first_in = models.iter().enumerate().position(|(i, m)| m.loc(i, x, y, 0.0, EPS_DIRECT, true, &mut 0).0 == Loc::In);
        let first_margin = models.iter().enumerate().position(|(i, m)| m.loc(i, x, y, 0.5, EPS_DIRECT, true, &mut 0).0 == Loc::In);
        let label = if !e.unique() {
            "knife-edge(candidates)"
        } else if n_in >= 2 {
            if first_in == Some(0) { "overlap>=2,first-is-#0" } else { "overlap>=2,first-is-later" }
        } else if n_in == 1 {
            if first_margin < first_in { "inside-later-grid,in-margin-of-earlier" } else { "inside-one" }
        } else if n_margin >= 2 {
            "margin-of>=2"
        } else if n_margin == 1 {
            "margin-of-one"
        } else if c.null {
            "outside-all,null-grid"
        } else {
            "outside-all"
        };
        rec.class(label);
        if e.unique() && (n_in >= 2 || (n_in == 0 && n_margin >= 1) || (n_in == 1 && first_margin < first_in)) {
            rec.nontrivial(&(case_h, q.g, q.class, q.i, q.j, (q.fx.0 * 1e4) as i64, (q.fy.0 * 1e4) as i64, q.side));
        }
        let ctx = || format!("grids_at(list, p, use_null_grid={}) with list\n{}\nquery class {} relative to #{ti} at (x={x:?}, y={y:?}); acceptable: {}{}", c.null, describe_items(&c.items, &built), CLASS_NAMES[q.class as usize], fmt_cands(&e.cands, bands), if e.nohit_ok { "; no hit" } else { "" });
        match got {
            None => {
                if c.null {
                    fails.push("grids_at-null-grid-returns-none", format!("None although use_null_grid is set\n{}", ctx()));
                } else if !e.nohit_ok {
                    fails.push("grids_at-none-but-covered", format!("None although a grid of the list contains the point (or has it in its half-cell margin)\n{}", ctx()));
                }
            }
            Some(v) => {
                let v = [v[0], v[1], v[2], v[3]];
                let zero = v.iter().all(|a| *a == 0.0);
                if let Some(cd) = e.cands.iter().filter(|cd| close_to(&v, cd, bands, 0.0)).min_by(|a, b| worst_rel(&v, a, bands).total_cmp(&worst_rel(&v, b, bands))) {
                    rec.metric("worst_rel_value_error", worst_rel(&v, cd, bands));
                } else if e.nohit_ok && c.null && zero {
                } else if e.cands.is_empty() {
                    fails.push(if c.null { "grids_at-null-grid-not-zero" } else { "grids_at-some-but-outside" }, format!("returned {:?} for a point outside every grid and margin\n{}", &v[..bands], ctx()));
                } else {
                    // does the value come from another grid of the list?
                    let other = models.iter().enumerate().find_map(|(i, m)| {
                        let cs = m.all_cands(i, x, y);
                        cs.into_iter().find(|cd| close_to(&v, cd, bands, 0.0)).map(|cd| cd.who)
                    });
                    let key = if zero && c.null { "grids_at-null-grid-used-but-covered" } else if other.is_some() { "grids_at-wrong-grid" } else { "grids_at-value-mismatch" };
                    fails.push(key, format!("returned {:?}; this is the interpolation in {}\n{}", &v[..bands], other.unwrap_or("no grid of the list".into()), ctx()));
                }
            }
        }
    }
    rec.count("ntv2_outer_border_hit_not_asserted", excluded);
    fails.finish()
}

/// A list of 1..4 mutually overlapping grids with the same band count (2-band lists mix Gravsoft and NTv2).
fn items_strategy(bands: u8, linear: bool, allow_nt: bool, max: usize, wide: Wide) -> impl Strategy<Value = Vec<Item>> {
    anchor().prop_flat_map(move |a| {
        let gs = gs_spec(a, bands, linear, wide).prop_map(Item::Gs);
        let one = if allow_nt && bands == 2 && !linear { prop_oneof![3 => gs, 2 => nt_spec(a).prop_map(Item::Nt)].boxed() } else { gs.boxed() };
        prop::collection::vec(one, 1..=max)
    })
}

fn list_case() -> impl Strategy<Value = ListCase> {
    (prop_oneof![2 => Just(1u8), 5 => Just(2u8), 2 => Just(3u8)], prop::bool::weighted(0.1), wide_sel())
        .prop_flat_map(|(bands, linear, wide)| (items_strategy(bands, linear, true, 4, wide), prop::bool::weighted(0.3), prop::collection::vec(q_strategy(), 8..=24)))
        .prop_map(|(items, null, qs)| ListCase { items, null, qs })
}

// ---- sections D/E: gridshift, deformation, deflection through a Context ------------------------------

#[derive(Clone, Debug, Serialize, Deserialize)]
struct Entry {
    item: i8, // index into items, or -1 for a name that does not exist
    optional: bool,
}

/// op: 0 gridshift, 1 deformation, 2 deflection
#[derive(Clone, Debug, Serialize, Deserialize)]
struct OpCase {
    op: u8,
    items: Vec<Item>,
    entries: Vec<Entry>,
    null: bool,
    inverse: bool,
    inv_flag: bool,
    raw: bool,
    dt: Option<F>,
    t_epoch: Option<F>,
    ellps: u8,
    qs: Vec<Q>,
    /// Plain backend only: the grid files are written AFTER a first instantiation (same context) that named
    /// them, as optional grids, while they did not exist yet
    #[serde(default)]
    late: bool,
}

const ELLPS: [(&str, f64, f64); 3] = [("GRS80", 6378137.0, 298.257222100882711243), ("intl", 6378388.0, 297.0), ("WGS84", 6378137.0, 298.257223563)];

#[derive(Clone, Copy, PartialEq)]
enum Backend {
    Mem,
    Plain,
}

static SCRATCH: OnceLock<PathBuf> = OnceLock::new();

fn plain_serve(name: &str, bytes: &[u8]) -> Result<(), String> {
    let root = SCRATCH.get().ok_or("no scratch directory")?;
    let ext = std::path::Path::new(name).extension().and_then(|e| e.to_str()).unwrap_or("");
    let dir = root.join("geodesy").join(ext);
    std::fs::create_dir_all(&dir).map_err(|e| e.to_string())?;
    let dst = dir.join(name);
    if dst.exists() {
        return Ok(());
    }
    let tmp = dir.join(format!(".{name}.{:?}.tmp", std::thread::current().id()));
    std::fs::write(&tmp, bytes).map_err(|e| e.to_string())?;
    std::fs::rename(&tmp, &dst).map_err(|e| e.to_string())
}

enum AnyCtx {
    Mem(GridCtx),
    Plain(Plain),
}
impl AnyCtx {
    fn op(&mut self, def: &str) -> Result<Result<OpHandle, geodesy::Error>, vcore::guard::PanicInfo> {
        match self {
            AnyCtx::Mem(c) => try_op(c, def),
            AnyCtx::Plain(c) => try_op(c, def),
        }
    }
    fn apply(&self, op: OpHandle, dir: Direction, data: &mut Vec<Coor4D>) -> Result<Result<usize, geodesy::Error>, vcore::guard::PanicInfo> {
        match self {
            AnyCtx::Mem(c) => try_apply(c, op, dir, data),
            AnyCtx::Plain(c) => try_apply(c, op, dir, data),
        }
    }
}

fn rot_enu(v: &[f64], lon: f64, lat: f64) -> [f64; 3] {
    // east, north, up -> geocentric X, Y, Z (textbook rotation)
    let (sl, cl) = lon.sin_cos();
    let (sp, cp) = lat.sin_cos();
    let (e, n, u) = (v[0], v[1], v[2]);
    [-sl * e - sp * cl * n + cp * cl * u, cl * e - sp * sl * n + cp * sl * u, cp * n + sp * u]
}

fn check_op(c: &OpCase, backend: Backend, rec: &mut Rec) -> CaseResult {
    let late = c.late && backend == Backend::Plain;
    if !late {
        return check_op_inner(c, backend, rec, "");
    }
    // unique file names per case: a name is absent when the case starts, whatever ran before in this process
    let prefix = format!("L{:012x}_", hash_bytes(json(c).as_bytes()) & 0xffff_ffff_ffff);
    let remove = || {
        if let Some(root) = SCRATCH.get() {
            for (i, it) in c.items.iter().enumerate() {
                let name = format!("{prefix}{}", build_item(it, i).name);
                let ext = std::path::Path::new(&name).extension().and_then(|e| e.to_str()).unwrap_or("").to_string();
                let _ = std::fs::remove_file(root.join("geodesy").join(ext).join(&name));
            }
        }
    };
    remove();
    let r = check_op_inner(c, backend, rec, &prefix);
    remove();
    match r {
        Err(f) if !f.key.starts_with("harness-") => {
            // is the late appearance of the files the cause? the same case with the files in place from the start:
            let mut scratch = Rec::default();
            match check_op_inner(c, backend, &mut scratch, "") {
                Ok(()) => Err(Failure {
                    key: format!("plain-late-grid-file/{}", f.key),
                    msg: format!("The grid files were written after a first instantiation, in the same Plain context, of the same operator with every grid marked '@' while the files did not exist yet (unique names '{prefix}...'); the operator instantiated afterwards does not behave as the one instantiated when the files are there from the start (that passes):\n{}", f.msg),
                }),
                Err(_) => Err(f),
            }
        }
        r => r,
    }
}

fn check_op_inner(c: &OpCase, backend: Backend, rec: &mut Rec, prefix: &str) -> CaseResult {
    let late = !prefix.is_empty();
    let mut built: Vec<Built> = c.items.iter().enumerate().map(|(i, it)| build_item(it, i)).collect();
    for b in built.iter_mut() {
        b.name = format!("{prefix}{}", b.name);
    }
    let opname = ["gridshift", "deformation", "deflection"][c.op as usize % 3];
    // ---- the definition
    let ext = match built[0].model.bands() {
        1 => "geoid",
        2 => "datum",
        _ => "deformation",
    };
    let mut names = vec![];
    let mut probe_names: Vec<String> = vec![];
    let mut active: Vec<usize> = vec![];
    let mut must_fail = false;
    let mut n_missing = 0;
    for (k, e) in c.entries.iter().enumerate() {
        let at = if e.optional { "@" } else { "" };
        if e.item >= 0 {
            names.push(format!("{at}{}", built[e.item as usize].name));
            probe_names.push(format!("@{}", built[e.item as usize].name));
            active.push(e.item as usize);
        } else {
            names.push(format!("{at}missing_{k}.{}", if k % 2 == 0 { ext } else { "gsb" }));
            probe_names.push(format!("@missing_{k}.{}", if k % 2 == 0 { ext } else { "gsb" }));
            n_missing += 1;
            must_fail |= !e.optional;
        }
    }
    if c.null {
        names.push("@null".into());
        probe_names.push("@null".into());
    }
    let mut def = format!("{opname} grids={}", names.join(","));
    if c.op == 1 {
        if let Some(dt) = c.dt {
            def += &format!(" dt={}", dt.0);
        }
        if let Some(t0) = c.t_epoch {
            def += &format!(" t_epoch={}", t0.0);
        }
        if c.raw {
            def += " raw";
        }
    }
    if c.op != 0 && c.ellps % 3 != 0 {
        def += &format!(" ellps={}", ELLPS[(c.ellps % 3) as usize].0);
    }
    let inverse = c.inverse && c.op != 2;
    let inv_flag = c.inv_flag && c.op != 2;
    if inv_flag {
        def += " inv";
    }
    let dir = if inverse != inv_flag { Inv } else { Fwd };
    let dir_txt = format!("{dir:?}");
    let el = ELLPS[if c.op != 0 { (c.ellps % 3) as usize } else { 0 }];
    let el = El::from_rf(el.1, el.2);

    // ---- the context
    let mut ctx = match backend {
        Backend::Mem => {
            let mut g = GridCtx::new();
            for b in &built {
                if let Err(e) = guard(|| g.add_grid_bytes(&b.name, &b.bytes)).map_err(|p| format!("panic {} at {}:{}", p.msg, p.file, p.line)).and_then(|r| r.map_err(|e| format!("{e:?}"))) {
                    vfail!("op-grid-rejected", "a well-formed generated grid is not decoded: {e}\n{}", json(&c.items));
                }
            }
            AnyCtx::Mem(g)
        }
        Backend::Plain => {
            let mut plain = AnyCtx::Plain(Plain::new());
            if late {
                // first instantiation: every grid optional, none of the files exists yet
                let probe = def.replacen(&names.join(","), &probe_names.join(","), 1);
                match plain.op(&probe) {
                    Err(p) => vfail!(format!("panic-instantiate@{}", p.sig()), "'{probe}' panics at instantiation: {} at {}:{}", p.msg, p.file, p.line),
                    Ok(Err(e)) => vfail!("optional-missing-grid-blocks-instantiation", "'{probe}': every grid is optional ('@') and no file exists, yet instantiation fails: {e:?}"),
                    Ok(Ok(_)) => {}
                }
                rec.class("files-written-after-first-instantiation");
            }
            for b in &built {
                if let Err(e) = plain_serve(&b.name, &b.bytes) {
                    return Err(Failure { key: "harness-scratch-io".into(), msg: format!("cannot write grid file: {e}") });
                }
            }
            plain
        }
    };
    let listing = describe_items(&c.items, &built);
    let op = match ctx.op(&def) {
        Err(p) => vfail!(format!("panic-instantiate@{}", p.sig()), "'{def}' panics at instantiation: {} at {}:{}\n{listing}", p.msg, p.file, p.line),
        Ok(r) => r,
    };
    rec.class(&format!("{opname}/{}", if inverse { "inv" } else { "fwd" }));
    if let Some(Item::Gs(g)) = c.items.iter().find(|i| matches!(i, Item::Gs(_))) {
        rec.class(&format!("{opname}:{}", placement_label(g)));
    }
    if n_missing > 0 {
        rec.class("list-has-missing-grid");
    }
    let op = match (op, must_fail) {
        (Err(_), true) => {
            rec.class("required-grid-missing=>Err");
            rec.nontrivial(&def);
            return Ok(());
        }
        (Ok(_), true) => vfail!("missing-required-grid-accepted", "'{def}' instantiates although a grid without '@' does not exist\n{listing}"),
        (Err(e), false) => vfail!("op-rejects-valid-definition", "'{def}' is rejected: {e:?} (all non-optional grids exist)\n{listing}"),
        (Ok(h), false) => h,
    };
    let models: Vec<&MItem> = active.iter().map(|&i| &built[i].model).collect();
    let bands = built[0].model.bands();
    let linear = matches!(&c.items[0], Item::Gs(s) if s.linear);
    let smax = models.iter().fold(0.0f64, |m, it| m.max(it.maxabs()));
    let steep = models.iter().fold(0.0f64, |m, it| m.max(it.steepness()));
    let case_h = mix(hash_bytes(def.as_bytes()));

    // ---- the operands
    let mut pts: Vec<(f64, f64, f64, f64)> = vec![]; // model position (x, y) + (z, t) as given to the operator
    let mut data: Vec<Coor4D> = vec![];
    for q in &c.qs {
        let ti = pick(q.g, built.len());
        let (x, y) = resolve(q, built[ti].model.target(q));
        let t = 1990.0 + 40.0 * q.t.0;
        pts.push((x, y, q.z.0, t));
        data.push(match c.op % 3 {
            0 => Coor4D::raw(x, y, q.z.0, t),
            1 => {
                let xyz = el.cartesian(x, y, q.z.0);
                Coor4D::raw(xyz[0], xyz[1], xyz[2], t)
            }
            _ => Coor4D::raw(y.to_degrees(), x.to_degrees(), q.z.0, t),
        });
    }
    let input = data.clone();
    let count = match ctx.apply(op, dir, &mut data) {
        Err(p) => vfail!(format!("panic-apply@{}", p.sig()), "'{def}' panics in apply: {} at {}:{}\n{listing}\ninput {:?}", p.msg, p.file, p.line, input),
        Ok(Err(e)) => vfail!("apply-error", "'{def}' apply returns {e:?}\n{listing}"),
        Ok(Ok(n)) => n,
    };
    if backend == Backend::Plain {
        Plain::clear_grids();
    }

    let mut fails = Fails::default();
    let mut excluded = 0u64;
    let (mut count_lo, mut count_hi) = (0usize, 0usize);
    let eps = if c.op % 3 == 0 { EPS_DIRECT } else { EPS_DERIVED };
    let exact_ok = c.op % 3 == 0;
    let all_nan = |v: &Coor4D| (0..4).all(|i| v[i].is_nan());
    let unchanged = |a: &Coor4D, b: &Coor4D| c4_bits_eq(a, b);

    // registered class: an empty list (all optional grids missing, no @null)
    if models.is_empty() && !c.null && c.op % 3 != 1 {
        rec.class("empty-list-without-null");
        let passed = data.iter().zip(&input).all(|(a, b)| unchanged(a, b)) && count == data.len();
        let failed = data.iter().all(all_nan) && count == 0;
        if passed {
            fails.push(if c.op % 3 == 0 { "gridshift-empty-grid-list-not-failed" } else { "deflection-empty-grid-list-not-failed" }, format!("'{def}': no grid is available and there is no @null, every point is outside all grids, yet all {} tuples pass unchanged and are counted as successes (count = {count})\n{listing}", data.len()));
        } else if !failed {
            fails.push("empty-grid-list-inconsistent", format!("'{def}': no grid available, no @null: expected all tuples NaN and count 0; got count {count}, data {:?}", data));
        }
        return fails.finish();
    }

    for (k, q) in c.qs.iter().enumerate() {
        let (x, y, z, t) = pts[k];
        let (inp, out) = (&input[k], &data[k]);
        let ctxs = |e: &Expect| format!("'{def}' ({})\n{listing}\ntuple #{k} class {} model position (x={x:?}, y={y:?}), operand {}, result {}\nacceptable grid values: {}{}", dir_txt, CLASS_NAMES[q.class as usize], fmt_c4(inp), fmt_c4(out), fmt_cands(&e.cands, bands), if e.nohit_ok { "; no hit" } else { "" });
        match c.op % 3 {
            // ------------------------------------------------------------------ gridshift
            0 => {
                let e = list_expect(&models, x, y, eps, exact_ok, &mut excluded);
                count_hi += (!e.cands.is_empty() || c.null) as usize;
                count_lo += (!e.nohit_ok || c.null) as usize;
                rec.class(if !e.unique() { "knife-edge(candidates)" } else if e.nohit_ok { if c.null { "outside-all,null-grid" } else { "outside-all" } } else { "hit" });
                let unit_tol = 8.0 * f64::EPSILON * (x.abs() + y.abs() + 1.0); // rounding of coordinate + shift
                if !inverse || bands == 1 {
                    let sign = if inverse { 1.0 } else { -1.0 };
                    let ok_hit = e.cands.iter().any(|cd| {
                        if bands == 1 {
                            bits_eq(out[0], inp[0]) && bits_eq(out[1], inp[1]) && bits_eq(out[3], inp[3]) && (out[2] - (z + sign * cd.val[0])).abs() <= REL * cd.scale[0] + 1e-9 * (1.0 + z.abs())
                        } else {
                            bits_eq(out[2], inp[2]) && bits_eq(out[3], inp[3]) && (out[0] - (x + cd.val[0])).abs() <= REL * cd.scale[0] + unit_tol && (out[1] - (y + cd.val[1])).abs() <= REL * cd.scale[1] + unit_tol
                        }
                    });
                    let ok_nohit = e.nohit_ok && if c.null { unchanged(inp, out) } else { all_nan(out) || (inverse && unchanged(inp, out)) };
                    if inverse && e.nohit_ok && !c.null && unchanged(inp, out) {
                        rec.count("excluded_known_17_inverse_outside_not_stomped", 1);
                    }
                    if !(ok_hit || ok_nohit) {
                        let key = if all_nan(out) { "gridshift-fails-covered-point" } else if e.cands.is_empty() { "gridshift-outside-not-failed" } else if bands == 1 { "gridshift-geoid-convention" } else { "gridshift-datum-convention" };
                        fails.push(key, format!("expected {}: {}\n{}", if bands == 1 { if inverse { "z + N" } else { "z - N (geoid height subtracted forward), x, y, t untouched" } } else { "(x + dlon, y + dlat) with z, t untouched (datum shift added forward)" }, if e.cands.is_empty() { "all-NaN (outside all grids, no @null)" } else { "one of the acceptable grid values" }, ctxs(&e)));
                    } else if e.unique() && !e.nohit_ok {
                        rec.nontrivial(&(case_h, k, q.class, q.i, q.j, (q.fx.0 * 1e4) as i64));
                    }
                } else {
                    // inverse datum shift: r + S(r) = operand, asserted only well away from every border
                    let clear = models.iter().map(|m| m.clearance(x, y)).fold(f64::INFINITY, f64::min);
                    if !linear && steep <= 0.05 && e.unique() && !e.nohit_ok && clear > 6.0 * smax + 1e-9 * (1.0 + x.abs() + y.abs()) {
                        let er = list_expect(&models, out[0], out[1], eps, exact_ok, &mut 0);
                        let ok = er.unique() && !er.nohit_ok && {
                            let cd = &er.cands[0];
                            let tol = if linear { 1e-6 } else { 1e-11 };
                            (out[0] + cd.val[0] - x).abs() <= 2.0 * REL * cd.scale[0] + tol && (out[1] + cd.val[1] - y).abs() <= 2.0 * REL * cd.scale[1] + tol && bits_eq(out[2], inp[2]) && bits_eq(out[3], inp[3])
                        };
                        if !ok {
                            fails.push("gridshift-inverse-datum", format!("inverse result r does not satisfy r + shift(r) = operand (z, t untouched); shift(r) candidates: {}\n{}", fmt_cands(&er.cands, 2), ctxs(&e)));
                        } else {
                            rec.nontrivial(&(case_h, k, q.class, q.i, q.j, (q.fx.0 * 1e4) as i64));
                        }
                        rec.class("inverse-datum-asserted");
                    } else if e.unique() && e.nohit_ok && c.null && !linear {
                        if !(0..4).all(|i| out[i] == inp[i]) {
                            fails.push("gridshift-null-grid-not-unchanged", format!("outside all grids with @null: expected the tuple unchanged\n{}", ctxs(&e)));
                        }
                    } else {
                        rec.count("inverse_datum_not_asserted_near_border_or_outside", 1);
                        // an unchanged or NaN tuple or any shifted one is accepted here; the count is bounded below
                        if !(all_nan(out) || unchanged(inp, out)) {
                            // counted by the library only if it converged: nothing to assert on the value
                        }
                        count_lo -= (!e.nohit_ok || c.null) as usize; // non-convergence at a discontinuity is not a C08 matter
                    }
                }
            }
            // ------------------------------------------------------------------ deformation
            1 => {
                let e = list_expect(&models, x, y, eps, exact_ok, &mut excluded);
                count_hi += (!e.cands.is_empty() || c.null) as usize;
                count_lo += (!e.nohit_ok || c.null) as usize;
                rec.class(if !e.unique() { "knife-edge(candidates)" } else if e.nohit_ok { if c.null { "outside-all,null-grid" } else { "outside-all" } } else { "hit" });
                // duration: dt if given, else per documentation eq. (1)/(3): T1 - T0 = observation epoch - t_epoch
                let (d, epoch_mode) = match (c.dt, c.t_epoch) {
                    (Some(dt), _) => (dt.0, false),
                    (None, Some(t0)) => (t - t0.0, true),
                    _ => unreachable!(),
                };
                let sign = if inverse { 1.0 } else { -1.0 }; // forward removes the deformation: X - d V
                let xyz = [inp[0], inp[1], inp[2]];
                let mut matched = false;
                let mut matched_reversed = false;
                for cd in &e.cands {
                    let r = rot_enu(&cd.val, x, y);
                    let vs = cd.scale[0] + cd.scale[1] + cd.scale[2];
                    let tol = 2.0 * REL * d.abs() * vs + 4e-9 + 2e-10 * d.abs() * vs;
                    for (s, flag) in [(sign, &mut matched), (-sign, &mut matched_reversed)] {
                        let ok = if c.raw {
                            let n = (r[0] * r[0] + r[1] * r[1] + r[2] * r[2]).sqrt() * d.abs();
                            (0..3).all(|i| (out[i] - s * d * r[i]).abs() <= tol) && (out[3] - n).abs() <= tol
                        } else {
                            (0..3).all(|i| (out[i] - (xyz[i] + s * d * r[i])).abs() <= tol) && bits_eq(out[3], inp[3])
                        };
                        *flag |= ok;
                    }
                    rec.metric("deformation_size_m", d.abs() * vs);
                }
                let ok_nohit = e.nohit_ok && if c.null { unchanged(inp, out) } else { all_nan(out) };
                if matched || ok_nohit {
                    if e.unique() && !e.nohit_ok {
                        rec.nontrivial(&(case_h, k, q.class, q.i, q.j, (q.fx.0 * 1e4) as i64));
                    }
                } else if matched_reversed && epoch_mode && d != 0.0 {
                    fails.push("deformation-t_epoch-sign-reversed", format!("with t_epoch the deformation is applied with the opposite sign of the documented X' = X - (T1 - T0) V (T1 = tuple epoch {t}, T0 = t_epoch {}); the result equals X + (T1 - T0) V (mirrored for the inverse)\n{}", c.t_epoch.unwrap().0, ctxs(&e)));
                } else {
                    let key = if all_nan(out) { "deformation-fails-covered-point" } else if e.cands.is_empty() { "deformation-outside-not-failed" } else { "deformation-convention" };
                    fails.push(key, format!("expected {} with V = R_enu->xyz(lon, lat) x (east, north, up) m/yr, duration d = {d} ({}), geographic position from the generating (lon, lat, h) = ({x}, {y}, {z}) on {:?}\n{}", if c.raw { "(-d V, |d V|) forward / (+d V, |d V|) inverse" } else { "X - d V forward / X + d V inverse, t untouched" }, if epoch_mode { "tuple epoch - t_epoch" } else { "dt" }, el, ctxs(&e)));
                }
            }
            // ------------------------------------------------------------------ deflection
            _ => {
                // finite differences over 1 m to the north and to the east, as the operator documents ("local gradient")
                let dlat = 1.0 / el.m(y);
                let dlon = 1.0 / (el.n(y) * y.cos());
                let e0 = list_expect(&models, x, y, eps, exact_ok, &mut excluded);
                let e1 = list_expect(&models, x, y + dlat, eps, exact_ok, &mut excluded);
                let e2 = list_expect(&models, x + dlon, y, eps, exact_ok, &mut excluded);
                let definite = e0.unique() && e1.unique() && e2.unique();
                if !definite {
                    rec.class("knife-edge(not asserted)");
                    count_hi += 1;
                    continue;
                }
                let hit = !e0.nohit_ok && !e1.nohit_ok && !e2.nohit_ok;
                if hit {
                    count_lo += 1;
                    count_hi += 1;
                    rec.class("hit");
                    let xi = (e1.cands[0].val[0] - e0.cands[0].val[0]).atan().to_degrees() * 3600.0;
                    let eta = (e2.cands[0].val[0] - e0.cands[0].val[0]).atan().to_degrees() * 3600.0;
                    rec.metric("deflection_rel_error", ((out[0] - xi).abs() / (xi.abs() + 1e-3)).max((out[1] - eta).abs() / (eta.abs() + 1e-3)));
                    if (out[0] - xi).abs() > 1e-3 * xi.abs() + 1e-5 || (out[1] - eta).abs() > 1e-3 * eta.abs() + 1e-5 {
                        fails.push("deflection-value", format!("expected (xi, eta) = ({xi}, {eta}) arcsec = atan of the geoid height difference over 1 m north / 1 m east (steps {dlat} rad, {dlon} rad), tolerance 1e-3 relative + 1e-5\"\n{}", ctxs(&e0)));
                    } else {
                        rec.nontrivial(&(case_h, k, q.class, q.i, q.j, (q.fx.0 * 1e4) as i64));
                    }
                } else {
                    rec.class(if c.null { "outside,null-grid" } else { "outside" });
                    if c.null {
                        count_lo += 1;
                        count_hi += 1;
                        if !unchanged(inp, out) {
                            fails.push("deflection-null-grid-ignored", format!("@null is given and the point (or its 1 m neighbours) is outside all grids: documented to pass unchanged and count as success, got {}\n{}", fmt_c4(out), ctxs(&e0)));
                        }
                    } else if !(out[0].is_nan() && out[1].is_nan()) {
                        fails.push("deflection-outside-not-failed", format!("a point outside all grids is not NaN-marked\n{}", ctxs(&e0)));
                    }
                }
            }
        }
    }
    if count < count_lo || count > count_hi {
        let reg = c.op % 3 == 2 && c.null;
        fails.push(if reg { "deflection-null-grid-ignored" } else { "success-count" }, format!("'{def}' ({dir_txt}) reports {count} successes, expected between {count_lo} and {count_hi} of {} tuples\n{listing}\ninput {:?}\noutput {:?}", data.len(), input, data));
    }
    rec.count("ntv2_outer_border_hit_not_asserted", excluded);
    rec.count("tuples", data.len() as u64);
    fails.finish()
}

fn op_case() -> impl Strategy<Value = OpCase> {
    // (op, bands, linear)
    let kind = prop_oneof![
        3 => Just((0u8, 2u8, false)),
        2 => Just((0u8, 1u8, false)),
        1 => Just((0u8, 2u8, true)),
        1 => Just((0u8, 1u8, true)),
        4 => Just((1u8, 3u8, false)),
        2 => Just((2u8, 1u8, false)),
    ];
    (kind, wide_sel()).prop_flat_map(|((op, bands, linear), wide)| {
        // deformation looks the grid up at a true geographic position (lon in (-pi, pi], |lat| <= pi/2): anchor placement only;
        // deflection needs a true latitude: longitude families only; gridshift: every family
        let wide = match op {
            1 => (0, wide.1, wide.2),
            2 if wide.0 >= 8 || linear => (0, wide.1, wide.2),
            _ => wide,
        };
        (
            items_strategy(bands, linear, true, 3, wide).prop_map(|mut items| {
                // realistic shift sizes for the 2-band inverse: a few arcsec (angular) or metres (linear)
                for it in items.iter_mut() {
                    match it {
                        Item::Gs(s) if s.bands == 2 => {
                            s.vals.amp = F(s.vals.amp.0.min(3.0));
                            s.vals.base = F(s.vals.base.0 % 4.0);
                        }
                        Item::Nt(s) => {
                            s.vals.amp = F(s.vals.amp.0.min(1.0));
                            s.vals.base = F(s.vals.base.0 % 2.0);
                        }
                        _ => {}
                    }
                }
                items
            }),
            prop::collection::vec((any::<u16>(), prop::bool::weighted(0.9)), 0..=2), // missing names: position, optional
            prop::collection::vec(prop::bool::weighted(0.3), 3),                     // '@' on existing grids
            prop::bool::weighted(0.06),                                              // drop every existing grid (only missing optional ones remain)
            (prop::bool::weighted(0.3), any::<bool>(), prop::bool::weighted(0.2), prop::bool::weighted(0.25), prop::bool::weighted(0.4)),
            (prop_oneof![-50.0f64..-0.5, 0.5f64..100.0], 1990.0f64..2030.0, 0u8..3, 0u8..3),
            prop::collection::vec(q_strategy(), 6..=16),
        )
            .prop_map(move |(items, missing, opt, drop_all, (null, inverse, inv_flag, raw, late), (dt, t0, tmode, ellps), qs)| {
                let mut entries: Vec<Entry> = if drop_all { vec![] } else { (0..items.len()).map(|i| Entry { item: i as i8, optional: opt[i] }).collect() };
                let mut missing = missing;
                if drop_all && missing.is_empty() {
                    missing.push((0, true));
                }
                for (pos, optional) in missing {
                    let at = pick(pos, entries.len() + 1);
                    entries.insert(at, Entry { item: -1, optional: optional || drop_all });
                }
                let (dt, t_epoch) = match tmode {
                    0 => (Some(F((dt * 4.0).round() / 4.0)), None),
                    1 => (None, Some(F((t0 * 4.0).round() / 4.0))),
                    _ => (Some(F((dt * 4.0).round() / 4.0)), Some(F((t0 * 4.0).round() / 4.0))),
                };
                OpCase { op, items, entries, null, inverse, inv_flag, raw, dt, t_epoch, ellps, qs, late }
            })
    })
}

// ---- section F: the shipped grid files against the model -----------------------------------------------

const SHIPPED: [&str; 8] = [
    "gsb/100800401.gsb",
    "gsb/5458.gsb",
    "gsb/5458_with_subgrid.gsb",
    "datum/test.datum",
    "datum/test_subset.datum",
    "geoid/test.geoid",
    "deformation/test.deformation",
    "deformation/another_test.deformation",
];

fn repo_dir() -> PathBuf {
    PathBuf::from(std::env::var("VERIF_REPO_DIR").unwrap_or_else(|_| "/repo".into()))
}

/// Independent reading of a (small) Gravsoft text file into the model, conventions from the documentation.
fn gravsoft_model(text: &str) -> MGrid {
    let toks: Vec<f64> = text.lines().flat_map(|l| l.split('#').next().unwrap_or("").split_whitespace().map(|t| t.parse::<f64>().unwrap()).collect::<Vec<_>>()).collect();
    let (lat_s, lat_n, lon_w, lon_e, dlat, dlon) = (toks[0], toks[1], toks[2], toks[3], toks[4].abs(), toks[5].abs());
    let rows = ((lat_n - lat_s) / dlat).round() as usize + 1;
    let cols = ((lon_e - lon_w) / dlon).round() as usize + 1;
    let bands = (toks.len() - 6) / (rows * cols);
    let linear = [lat_s, lat_n, lon_w, lon_e].iter().any(|b| b.abs() > 720.0);
    let mut v = vec![];
    for node in toks[6..].chunks(bands) {
        let f: Vec<f64> = node.iter().map(|t| *t as f32 as f64).collect();
        if linear || bands == 1 {
            v.extend(f);
        } else if bands == 2 {
            v.push((f[1] / 3600.0).to_radians());
            v.push((f[0] / 3600.0).to_radians());
        } else {
            v.push(f[1] / 1000.0);
            v.push(f[0] / 1000.0);
            v.push(f[2] / 1000.0);
        }
    }
    let cv = |x: f64| if linear { x } else { x.to_radians() };
    MGrid { lat_n: cv(lat_n), lat_s: cv(lat_s), lon_w: cv(lon_w), lon_e: cv(lon_e), dlat: cv(dlat), dlon: cv(dlon), rows, cols, bands, v, lat_n_alt: cv(lat_n), lon_e_alt: cv(lon_e) }
}

#[derive(Clone, Debug, Serialize, Deserialize)]
struct ShipCase {
    file: usize,
    k: usize,
}
const SHIP_N: usize = 41;

fn check_shipped(c: &ShipCase, rec: &mut Rec) -> CaseResult {
    let path = repo_dir().join("geodesy").join(SHIPPED[c.file]);
    let Ok(bytes) = std::fs::read(&path) else {
        rec.class("file-not-present");
        return Ok(());
    };
    let is_nt = SHIPPED[c.file].ends_with(".gsb");
    let item = if is_nt { MItem::Nt(MNt::new(&nt_read_le(&bytes))) } else { MItem::Base(gravsoft_model(&String::from_utf8_lossy(&bytes))) };
    let b = Built { name: SHIPPED[c.file].into(), bytes, model: item };
    let grid = match b.decode() {
        Ok(g) => g,
        Err(e) => vfail!("shipped-file-rejected", "{}: {e}", SHIPPED[c.file]),
    };
    // lattice over the bounding box of the roots, 1.2 cells beyond, with an irrational-ish phase
    let (mut s, mut n, mut w, mut e, mut dl, mut dn) = (f64::INFINITY, f64::NEG_INFINITY, f64::INFINITY, f64::NEG_INFINITY, 0.0f64, 0.0f64);
    let roots: Vec<&MGrid> = match &b.model {
        MItem::Base(g) => vec![g],
        MItem::Nt(m) => m.roots.iter().map(|&r| &m.subs[r]).collect(),
    };
    for g in roots {
        s = s.min(g.lat_s);
        n = n.max(g.lat_n);
        w = w.min(g.lon_w);
        e = e.max(g.lon_e);
        dl = dl.max(g.dlat);
        dn = dn.max(g.dlon);
    }
    let (i, j) = (c.k / SHIP_N, c.k % SHIP_N);
    let y = s - 1.2 * dl + (n - s + 2.4 * dl) * (i as f64 + 0.318) / SHIP_N as f64;
    let x = w - 1.2 * dn + (e - w + 2.4 * dn) * (j as f64 + 0.207) / SHIP_N as f64;
    let p = Coor4D::raw(x, y, 0.0, 0.0);
    let bands = b.model.bands();
    for margin in [0.0, 0.5] {
        let (loc, cands) = b.model.loc(0, x, y, margin, EPS_DIRECT, true, &mut 0);
        let (got, _) = lib_at(grid.as_ref(), &p, margin)?;
        rec.class(&format!("{}:{:?}", SHIPPED[c.file], loc));
        match (loc, got) {
            (Loc::In, None) => vfail!("shipped-none-inside", "{} at ({x}, {y}) margin {margin}: None, expected {}", SHIPPED[c.file], fmt_cands(&cands, bands)),
            (Loc::Out, Some(v)) => vfail!("shipped-some-outside", "{} at ({x}, {y}) margin {margin}: {v:?}, expected None", SHIPPED[c.file]),
            (_, Some(v)) => {
                let v = [v[0], v[1], v[2], v[3]];
                vensure!(cands.iter().any(|cd| close_to(&v, cd, bands, 0.0)), "shipped-value-mismatch", "{} at ({x}, {y}) margin {margin}: {:?}, expected {}", SHIPPED[c.file], &v[..bands], fmt_cands(&cands, bands));
                if loc == Loc::In {
                    rec.nontrivial(&(c.file, c.k));
                }
            }
            _ => {}
        }
    }
    Ok(())
}

/// Self test of the model and the encoder against external truth, before anything is judged with them.
fn selftest() {
    let dir = repo_dir().join("geodesy").join("gsb");
    // 1. sign and band conventions: values computed with ntv2_cvt, quoted in the repository's own test
    if let Ok(bytes) = std::fs::read(dir.join("100800401.gsb")) {
        let m = MNt::new(&nt_read_le(&bytes));
        for (lat, lon, dlat, dlon, margin) in [(40.0f64, 0.0f64, -4.2328200340, -4.3312602043, 0.0), (40.0, 3.5, -4.1843700409, -3.9602699280, 0.5)] {
            let (x, y) = (lon.to_radians(), lat.to_radians());
            let o = m.lookup(x, y, margin);
            let ok = o.cands.iter().any(|&i| {
                let c = m.cand(i, x, y);
                (c.val[0].to_degrees() * 3600.0 - dlon).abs() < 1e-6 && (c.val[1].to_degrees() * 3600.0 - dlat).abs() < 1e-6
            });
            if !ok {
                eprintln!("C08 selftest: the model does not reproduce the ntv2_cvt reference values at ({lat}, {lon})");
                std::process::exit(2);
            }
        }
    }
    // 2. the encoder reproduces the shipped files byte for byte from what the independent reader extracts
    for f in ["5458.gsb", "5458_with_subgrid.gsb", "100800401.gsb"] {
        let Ok(bytes) = std::fs::read(dir.join(f)) else { continue };
        let subs = nt_read_le(&bytes);
        let st = |o: usize| String::from_utf8_lossy(&bytes[o..o + 8]).trim_end().to_string();
        let fl = |o: usize| f64::from_le_bytes(bytes[o..o + 8].try_into().unwrap());
        let order: Vec<usize> = (0..subs.len()).collect();
        let has_end = bytes.len() >= 16 && &bytes[bytes.len() - 16..bytes.len() - 13] == b"END";
        let mine = nt_encode(&subs, &order, false, has_end, (&st(88), &st(104)), [fl(120), fl(136), fl(152), fl(168)], (&st(176 + 40), &st(176 + 56)));
        // compare everything but the free-text fields (VERSION, CREATED/UPDATED of later sub-grids, END padding)
        let same_len = mine.len() == bytes.len();
        let diff = mine.iter().zip(&bytes).enumerate().filter(|(_, (a, b))| a != b).map(|(i, _)| i).collect::<Vec<_>>();
        let tolerated = |i: usize| (72..80).contains(&i) || i >= bytes.len() - 8 || {
            // CREATED / UPDATED values inside any sub-grid header
            let mut o = 176;
            let mut hit = false;
            for s in &subs {
                hit |= (o + 40..o + 48).contains(&i) || (o + 56..o + 64).contains(&i);
                // the two accuracy values of each node (written as 0 by the encoder)
                hit |= i >= o + 176 && i < o + 176 + 16 * s.rows * s.cols && (i - o - 176) % 16 >= 8;
                o += 176 + 16 * s.rows * s.cols;
            }
            hit
        };
        if !same_len || diff.iter().any(|&i| !tolerated(i)) {
            eprintln!("C08 selftest: re-encoding {f} does not reproduce the shipped bytes (len {} vs {}, first differing offsets {:?})", mine.len(), bytes.len(), &diff[..diff.len().min(8)]);
            std::process::exit(2);
        }
    }
}

// ---- section B2: NTv2 files whose sibling sub-grids ABUT (tilings), every file order --------------------------
//
// Real densified NTv2 files deliver adjacent tiles under one parent: siblings share a meridian or a parallel
// exactly. A point on such a shared edge lies in the closed extent of both tiles; the documented rule
// (find_grid comment + repository test ntv2_multi_subgrid_find_grid: lower edges inclusive, "points on either
// upper latitude or longitude are considered outside the grid", tolerance 1e-6 grid cells) gives it to the
// tile that has it on its LOWER edge, whatever the order of the records. Node values here are deliberately
// inconsistent between levels (and, in two of three modes, between tiles), so the level chosen is visible.

#[derive(Clone, Debug, Serialize, Deserialize)]
struct BlockDraw {
    parent: u16,
    nr: u8,
    nc: u8,
    h: [u8; 3],
    w: [u8; 3],
    off_s: u8,
    off_w: u8,
    pad_n: u8,
    pad_e: u8,
    missing: u16,
    k: [u8; 9],
}

/// One or two abutting root grids; block 0 tiles (part of) root 0 with nr x nc abutting children (tile heights
/// and widths 1..2 parent cells, each tile with its own refinement), later blocks tile a childless sub-grid
/// (the second root or a tile: nested tilings, cousins abutting across a tile border).
#[derive(Clone, Debug, Serialize, Deserialize)]
struct TileSpec {
    lat0_q: i32,
    lon0_q: i32,
    sp_lat: u8,
    sp_lon: u8,
    second: u8,
    blocks: Vec<BlockDraw>,
    vmode: u8, // 0 independent random/affine field per sub-grid, 1 one constant per sub-grid, 2 one constant per depth (tiles agree with each other, not with the parent)
    vals: ValSpec,
    name_seed: u32,
    perm_seed: u32,
    big_endian: bool,
    end_rec: bool,
}

const TL_MAX_SUBS: usize = 12;
const TL_ALL_PERMS_UP_TO: usize = 5;
const TL_SAMPLED_PERMS: usize = 32;

struct TlGeo {
    s: i64,
    w: i64,
    rc: i64,
    cc: i64,
    dlat: i64,
    dlon: i64,
    parent: Option<usize>,
    depth: usize,
    has_kids: bool,
}

/// shrink (offset, sizes, pad) until it fits into `avail` cells
fn tl_fit(off: &mut i64, sizes: &mut Vec<i64>, pad: &mut i64, avail: i64) {
    while *off + sizes.iter().sum::<i64>() + *pad > avail {
        if *pad > 0 {
            *pad -= 1;
        } else if *off > 0 {
            *off -= 1;
        } else if let Some(i) = sizes.iter().position(|s| *s > 1) {
            sizes[i] -= 1;
        } else if sizes.len() > 1 {
            sizes.pop();
        } else {
            break;
        }
    }
}

fn tl_resolve(s: &TileSpec) -> (Vec<RSub>, String) {
    let dlat = SPACINGS[pick_u8(s.sp_lat, SPACINGS.len())];
    let dlon = SPACINGS[pick_u8(s.sp_lon, SPACINGS.len())];
    let (lat0, lon0) = (s.lat0_q as i64 * 225, s.lon0_q as i64 * 225);
    let dims = |b: &BlockDraw, first: bool| {
        let (mut nr, mut nc) = (b.nr.clamp(1, 3) as usize, b.nc.clamp(1, 3) as usize);
        if first && nr * nc < 2 {
            if b.missing & 1 == 0 { nc = 2 } else { nr = 2 }
        }
        let hs: Vec<i64> = (0..nr).map(|i| b.h[i].clamp(1, 2) as i64).collect();
        let ws: Vec<i64> = (0..nc).map(|j| b.w[j].clamp(1, 2) as i64).collect();
        ((b.off_s.min(1) as i64, hs, b.pad_n.min(1) as i64), (b.off_w.min(1) as i64, ws, b.pad_e.min(1) as i64))
    };
    let mut geo: Vec<TlGeo> = vec![];
    let mut label = String::new();
    let Some(b0) = s.blocks.first() else { return (vec![], label) };
    let ((o_s, hs0, p_n), (o_w, ws0, p_e)) = dims(b0, true);
    let (rows0, cols0) = (o_s + hs0.iter().sum::<i64>() + p_n, o_w + ws0.iter().sum::<i64>() + p_e);
    geo.push(TlGeo { s: lat0, w: lon0, rc: rows0, cc: cols0, dlat, dlon, parent: None, depth: 0, has_kids: false });
    let sh = (s.name_seed & 1) as i64;
    let (rc2, cc2) = (2 + ((s.name_seed >> 1) & 1) as i64, 2 + ((s.name_seed >> 2) & 1) as i64);
    match s.second % 3 {
        1 => geo.push(TlGeo { s: lat0 + sh * dlat, w: lon0 + cols0 * dlon, rc: rc2, cc: cc2, dlat, dlon, parent: None, depth: 0, has_kids: false }),
        2 => geo.push(TlGeo { s: lat0 + rows0 * dlat, w: lon0 - sh * dlon, rc: rc2, cc: cc2, dlat, dlon, parent: None, depth: 0, has_kids: false }),
        _ => {}
    }
    for (bi, b) in s.blocks.iter().enumerate() {
        if geo.len() >= TL_MAX_SUBS {
            break;
        }
        let p = if bi == 0 {
            0
        } else {
            let cs: Vec<usize> = (0..geo.len()).filter(|&i| !geo[i].has_kids && geo[i].depth <= 2).collect();
            if cs.is_empty() {
                continue;
            }
            cs[pick(b.parent, cs.len())]
        };
        let ((mut o_s, mut hs, mut p_n), (mut o_w, mut ws, mut p_e)) = dims(b, bi == 0);
        tl_fit(&mut o_s, &mut hs, &mut p_n, geo[p].rc);
        tl_fit(&mut o_w, &mut ws, &mut p_e, geo[p].cc);
        let (pdlat, pdlon) = (geo[p].dlat, geo[p].dlon);
        let ks: Vec<i64> = [2i64, 3, 4, 5].into_iter().filter(|k| pdlat % k == 0 && pdlon % k == 0 && pdlat / k >= MIN_SPACING && pdlon / k >= MIN_SPACING).collect();
        if ks.is_empty() {
            continue;
        }
        let all: Vec<(usize, usize)> = (0..hs.len()).flat_map(|i| (0..ws.len()).map(move |j| (i, j))).collect();
        let mut kept: Vec<(usize, usize)> = all.iter().cloned().filter(|(i, j)| b.missing >> (i * 3 + j + 1) & 1 == 0).collect();
        if kept.len() < all.len().min(2) {
            kept = all.clone();
        }
        if bi == 0 {
            label = format!("tiling={}x{}{}", hs.len(), ws.len(), if kept.len() < all.len() { ",with-holes" } else { "" });
        }
        for (i, j) in kept {
            if geo.len() >= TL_MAX_SUBS {
                break;
            }
            let k = ks[pick_u8(b.k[i * 3 + j], ks.len())];
            let r0 = o_s + hs[..i].iter().sum::<i64>();
            let c0 = o_w + ws[..j].iter().sum::<i64>();
            let g = TlGeo { s: geo[p].s + r0 * pdlat, w: geo[p].w + c0 * pdlon, rc: hs[i] * k, cc: ws[j] * k, dlat: pdlat / k, dlon: pdlon / k, parent: Some(p), depth: geo[p].depth + 1, has_kids: false };
            geo.push(g);
            geo[p].has_kids = true;
        }
    }
    let seed = s.name_seed as u64;
    let names: Vec<String> = (0..geo.len()).map(|i| nt_name(seed, i)).collect();
    let vs0 = s.vals.seed as u64;
    let konst = |key: u64, band: u64| {
        let v = 0.7 + s.vals.base.0 * hunit(vs0, 100 + 7 * key + band) + s.vals.amp.0 * (1.0 + key as f64) * if hunit(vs0, 300 + band) < 0.0 { -1.0 } else { 1.0 };
        (v * 1.0e4).round() / 1.0e4
    };
    let subs: Vec<RSub> = geo
        .iter()
        .enumerate()
        .map(|(i, g)| {
            let (rows, cols) = (g.rc as usize + 1, g.cc as usize + 1);
            let vs = s.vals.derive(i as u64);
            let mut lat = vec![0f32; rows * cols];
            let mut lon = vec![0f32; rows * cols];
            for r in 0..rows {
                for c in 0..cols {
                    let (a, b) = match s.vmode % 3 {
                        0 => (vs.at(0, r, c), vs.at(1, r, c)),
                        1 => (konst(i as u64, 0), konst(i as u64, 1)),
                        _ => (konst(g.depth as u64, 0), konst(g.depth as u64, 1)),
                    };
                    lat[r * cols + c] = a as f32;
                    lon[r * cols + c] = b as f32;
                }
            }
            RSub {
                name: names[i].clone(),
                parent: g.parent,
                parent_name: g.parent.map(|p| names[p].clone()).unwrap_or("NONE".into()),
                s_lat: g.s as f64,
                n_lat: (g.s + g.rc * g.dlat) as f64,
                w_lon: g.w as f64,
                e_lon: (g.w + g.cc * g.dlon) as f64,
                dlat: g.dlat as f64,
                dlon: g.dlon as f64,
                rows,
                cols,
                depth: g.depth,
                lat,
                lon,
                kid_w: false,
                kid_e: false,
            }
        })
        .collect();
    (subs, label)
}

fn tl_block() -> impl Strategy<Value = BlockDraw> {
    let n = || prop_oneof![3 => Just(1u8), 5 => Just(2u8), 2 => Just(3u8)];
    (any::<u16>(), n(), n(), prop::array::uniform3(1u8..=2), prop::array::uniform3(1u8..=2), (0u8..=1, 0u8..=1, 0u8..=1, 0u8..=1), prop_oneof![3 => Just(0u16), 1 => any::<u16>()], prop::array::uniform9(any::<u8>()))
        .prop_map(|(parent, nr, nc, h, w, (off_s, off_w, pad_n, pad_e), missing, k)| BlockDraw { parent, nr, nc, h, w, off_s, off_w, pad_n, pad_e, missing, k })
}

/// Query positioned on a feature of one sub-grid: feat 0..4 a side (N, S, E, W), 4..8 a corner (NE, NW, SE, SW),
/// 8 the interior, 9..13 the line of a side continued beyond the sub-grid. `vx`/`vy`: how the coordinate across
/// the edge is produced: 0 the bound as the library computes it (arcsec.to_radians()/3600), 1 the other rounding
/// order ((arcsec/3600).to_radians()), 2/3 one ulp up/down, 4/5 +-1e-9 cell of the root grid, 6/7 +-1e-2 and
/// 8/9 +-1e-3 cell of the finest sub-grid of the file.
#[derive(Clone, Debug, Serialize, Deserialize)]
struct TQ {
    sub: u16,
    feat: u8,
    vx: u8,
    vy: u8,
    a1: F,
    a2: F,
    node: u16,
    at_node: bool,
}

fn tq_strategy() -> impl Strategy<Value = TQ> {
    let var = || prop_oneof![4 => Just(0u8), 2 => Just(1u8), 1 => Just(2u8), 1 => Just(3u8), 1 => Just(4u8), 1 => Just(5u8), 1 => Just(6u8), 1 => Just(7u8), 1 => Just(8u8), 1 => Just(9u8)];
    (any::<u16>(), prop_oneof![5 => 0u8..4, 4 => 4u8..8, 1 => Just(8u8), 2 => 9u8..13], var(), var(), 0.0f64..1.0, 0.0f64..1.0, any::<u16>(), any::<bool>())
        .prop_map(|(sub, feat, vx, vy, a1, a2, node, at_node)| TQ { sub, feat, vx, vy, a1: F(a1), a2: F(a2), node, at_node })
}

#[derive(Clone, Debug, Serialize, Deserialize)]
struct TileCase {
    f: TileSpec,
    qs: Vec<TQ>,
}

fn tile_case() -> impl Strategy<Value = TileCase> {
    (
        anchor(),
        (-40i32..20, -40i32..20, any::<u8>(), any::<u8>(), prop_oneof![3 => Just(0u8), 1 => Just(1u8), 1 => Just(2u8)]),
        prop_oneof![5 => prop::collection::vec(tl_block(), 1..=1), 3 => prop::collection::vec(tl_block(), 2..=2), 2 => prop::collection::vec(tl_block(), 3..=3)],
        (0u8..3, valspec(), any::<u32>(), any::<u32>(), any::<bool>(), any::<bool>()),
        prop::collection::vec(tq_strategy(), 24..=40),
    )
        .prop_map(|(an, (a, b, sp_lat, sp_lon, second), blocks, (vmode, vals, name_seed, perm_seed, big_endian, end_rec), qs)| TileCase {
            f: TileSpec { lat0_q: an.0 + a, lon0_q: an.1 + b, sp_lat, sp_lon, second, blocks, vmode, vals, name_seed, perm_seed, big_endian, end_rec },
            qs,
        })
}

/// the bound exactly as the NTv2 header parser computes it (src/grid/ntv2/subgrid.rs)
fn libr(sec: f64) -> f64 {
    sec.to_radians() / 3600.0
}

fn nth_perm(n: usize, mut idx: usize) -> Vec<usize> {
    let mut pool: Vec<usize> = (0..n).collect();
    let mut out = Vec::with_capacity(n);
    for i in (1..=n).rev() {
        let f: usize = (1..i).product();
        out.push(pool.remove(idx / f));
        idx %= f;
    }
    out
}

/// bands of a signed distance in cells (positive = inside): 0 within the documented 1e-6 cell tolerance of the
/// edge (|d| < 3e-7), 1 clearly inside (> 3e-6), -1 clearly outside (< -3e-6), 9 neither (never asserted)
fn tl_band(d: f64) -> i8 {
    if d.abs() < 3.0e-7 {
        0
    } else if d > 3.0e-6 {
        1
    } else if d < -3.0e-6 {
        -1
    } else {
        9
    }
}

struct TlModel {
    /// s, n, w, e, dlat, dlon as the library holds them
    b: Vec<[f64; 6]>,
    roots: Vec<usize>,
    children: Vec<Vec<usize>>,
    parent: Vec<Option<usize>>,
}

struct TlExpect {
    cands: Vec<usize>,
    some_required: bool,
    none_required: bool,
    label: &'static str,
}

impl TlModel {
    /// N, S, E, W distances in cells of sub-grid i, expanded by `m` cells
    fn d(&self, i: usize, x: f64, y: f64, m: f64) -> [f64; 4] {
        let g = &self.b[i];
        [(g[1] - y) / g[4] + m, (y - g[0]) / g[4] + m, (g[3] - x) / g[5] + m, (x - g[2]) / g[5] + m]
    }
    fn closed_tol(&self, i: usize, x: f64, y: f64, m: f64) -> Option<bool> {
        let bs = self.d(i, x, y, m).map(tl_band);
        if bs.contains(&9) {
            return None;
        }
        Some(bs.iter().all(|b| *b >= 0))
    }
    /// the documented rule: contained within the tolerance and not (within the tolerance) on the north or east edge
    fn accept_doc(&self, i: usize, x: f64, y: f64) -> Option<bool> {
        let bs = self.d(i, x, y, 0.0).map(tl_band);
        if bs.contains(&9) {
            return None;
        }
        Some(bs.iter().all(|b| *b >= 0) && bs[0] != 0 && bs[2] != 0)
    }
    /// plain half-open containment, exact comparisons
    fn accept_geo(&self, i: usize, x: f64, y: f64) -> Option<bool> {
        let g = &self.b[i];
        Some(g[0] <= y && y < g[1] && g[2] <= x && x < g[3])
    }
    fn exactly_inside_closed(&self, i: usize, x: f64, y: f64) -> bool {
        let g = &self.b[i];
        g[0] <= y && y <= g[1] && g[2] <= x && x <= g[3]
    }
    /// Ok(Some(deepest acceptor)), Ok(None) when no root accepts, Err when the rule is not unambiguous here
    fn walk(&self, x: f64, y: f64, accept: &dyn Fn(usize, f64, f64) -> Option<bool>) -> Result<Option<usize>, ()> {
        let mut cur: Option<usize> = None;
        let mut level: &Vec<usize> = &self.roots;
        loop {
            let mut hit = None;
            for &c in level {
                if accept(c, x, y).ok_or(())? {
                    if hit.is_some() {
                        return Err(());
                    }
                    hit = Some(c);
                }
            }
            match hit {
                None => return Ok(cur),
                Some(h) => {
                    cur = Some(h);
                    level = &self.children[h];
                }
            }
        }
    }
    fn expect(&self, x: f64, y: f64, margin: f64, exact: bool) -> Option<TlExpect> {
        let n = self.b.len();
        let mut cands: Vec<usize> = vec![];
        let doc = self.walk(x, y, &|i, x, y| self.accept_doc(i, x, y)).ok()?;
        let fallback = |cands: &mut Vec<usize>| -> Option<bool> {
            // no root accepts: any root containing the point within the margin (the first in file order is documented)
            let mut sure = false;
            for &r in &self.roots {
                if self.closed_tol(r, x, y, margin)? {
                    if !cands.contains(&r) {
                        cands.push(r);
                    }
                    sure |= self.d(r, x, y, margin).iter().all(|d| tl_band(*d) == 1);
                }
            }
            Some(sure)
        };
        let mut sure = false;
        match doc {
            Some(o) => cands.push(o),
            None => sure |= fallback(&mut cands)?,
        }
        if !exact {
            match self.walk(x, y, &|i, x, y| self.accept_geo(i, x, y)).ok()? {
                Some(o) => {
                    if !cands.contains(&o) {
                        cands.push(o)
                    }
                }
                None => {
                    fallback(&mut cands)?;
                }
            }
        }
        let inside_exact = self.roots.iter().any(|&r| self.exactly_inside_closed(r, x, y));
        let inside_far = self.roots.iter().any(|&r| self.d(r, x, y, 0.0).iter().all(|d| tl_band(*d) == 1));
        let some_required = !cands.is_empty() && (inside_exact || inside_far || sure || (doc.is_some() && margin >= 0.5));
        // labels, from the documented walk
        let rejected_upper: Vec<usize> = (0..n).filter(|&i| self.closed_tol(i, x, y, 0.0) == Some(true) && self.accept_doc(i, x, y) == Some(false)).collect();
        let chain = |mut o: usize| {
            let mut v = vec![o];
            while let Some(p) = self.parent[o] {
                v.push(p);
                o = p;
            }
            v
        };
        let owner_chain = doc.map(chain).unwrap_or_default();
        let (mut shared, mut junction) = (false, false);
        for &g in &rejected_upper {
            if owner_chain.iter().any(|&o| o != g && self.parent[o] == self.parent[g]) {
                shared = true;
                junction |= (0..n).filter(|&i| self.parent[i] == self.parent[g] && self.closed_tol(i, x, y, 0.0) == Some(true)).count() >= 3;
            }
        }
        let label = if cands.is_empty() {
            "outside"
        } else if junction {
            "junction: >= 3 siblings touch, owner = the one having the point on its lower edges"
        } else if shared {
            "shared edge: upper edge of one sibling = lower edge of the owner"
        } else if !rejected_upper.is_empty() {
            "outer upper edge: no sibling beyond, enclosing grid"
        } else if doc.map(|o| self.d(o, x, y, 0.0).iter().any(|d| tl_band(*d) == 0)).unwrap_or(false) {
            "lower edge of the owner"
        } else if doc.is_some() {
            "clear of every edge of the owner"
        } else {
            "root margin"
        };
        Some(TlExpect { none_required: cands.is_empty(), cands, some_required, label })
    }
}

fn check_tiled(c: &TileCase, rec: &mut Rec) -> CaseResult {
    let (subs, shape) = tl_resolve(&c.f);
    let n = subs.len();
    if n < 3 {
        rec.class("degenerate(no tiling)");
        return Ok(());
    }
    let m = MNt::new(&subs);
    let tm = TlModel {
        b: subs.iter().map(|s| [libr(s.s_lat), libr(s.n_lat), libr(s.w_lon), libr(s.e_lon), libr(s.dlat), libr(s.dlon)]).collect(),
        roots: m.roots.clone(),
        children: m.children.clone(),
        parent: subs.iter().map(|s| s.parent).collect(),
    };
    rec.class(&shape);
    rec.class(&format!("subgrids={n}"));
    rec.class(&format!("depth={}", subs.iter().map(|s| s.depth).max().unwrap_or(0)));
    rec.class(&format!("roots={}", m.roots.len()));
    rec.class(if c.f.big_endian { "big-endian" } else { "little-endian" });
    rec.class(["values: independent field per sub-grid", "values: one constant per sub-grid", "values: one constant per depth (tiles agree, parent differs)"][(c.f.vmode % 3) as usize]);
    let nested_tilings = (0..n).filter(|&i| subs[i].depth >= 1 && m.children[i].len() >= 2).count();
    if nested_tilings > 0 {
        rec.class("nested-tiling(>=2 abutting children of a child)");
    }
    let tree = subs.iter().map(|s| format!("{}<-{} lat[{},{}] lon[{},{}] inc({},{})", s.name, s.parent_name, s.s_lat, s.n_lat, s.w_lon, s.e_lon, s.dlat, s.dlon)).collect::<Vec<_>>().join(" | ");

    // queries and their expectation (independent of the file order)
    let root_cell = (tm.b[0][4], tm.b[0][5]);
    let dmin = (tm.b.iter().map(|g| g[4]).fold(f64::INFINITY, f64::min), tm.b.iter().map(|g| g[5]).fold(f64::INFINITY, f64::min));
    let vary = |sec: f64, v: u8, rc: f64, dm: f64| -> f64 {
        let l = libr(sec);
        match v {
            0 => l,
            1 => (sec / 3600.0).to_radians(),
            2 => l.next_up(),
            3 => l.next_down(),
            4 => l + 1e-9 * rc,
            5 => l - 1e-9 * rc,
            6 => l + 1e-2 * dm,
            7 => l - 1e-2 * dm,
            8 => l + 1e-3 * dm,
            _ => l - 1e-3 * dm,
        }
    };
    struct Pt {
        x: f64,
        y: f64,
        desc: String,
        e: [Option<(TlExpect, Vec<Cand>)>; 2],
    }
    let mut pts: Vec<Pt> = vec![];
    for (qi, q) in c.qs.iter().enumerate() {
        let g = &subs[pick(q.sub, n)];
        let along_x = |a: f64| if q.at_node { libr(g.w_lon + pick(q.node, g.cols) as f64 * g.dlon) } else { libr(g.w_lon + a * (g.e_lon - g.w_lon)) };
        let along_y = |a: f64| if q.at_node { libr(g.s_lat + pick(q.node, g.rows) as f64 * g.dlat) } else { libr(g.s_lat + a * (g.n_lat - g.s_lat)) };
        let inner = 0.02 + 0.96 * q.a1.0;
        let ext = -0.6 + 2.2 * q.a1.0;
        let vx = |sec: f64| vary(sec, q.vx, root_cell.1, dmin.1);
        let vy = |sec: f64| vary(sec, q.vy, root_cell.0, dmin.0);
        let (x, y, ex, ey) = match q.feat {
            0 => (along_x(inner), vy(g.n_lat), 0, q.vy),
            1 => (along_x(inner), vy(g.s_lat), 0, q.vy),
            2 => (vx(g.e_lon), along_y(inner), q.vx, 0),
            3 => (vx(g.w_lon), along_y(inner), q.vx, 0),
            4 => (vx(g.e_lon), vy(g.n_lat), q.vx, q.vy),
            5 => (vx(g.w_lon), vy(g.n_lat), q.vx, q.vy),
            6 => (vx(g.e_lon), vy(g.s_lat), q.vx, q.vy),
            7 => (vx(g.w_lon), vy(g.s_lat), q.vx, q.vy),
            8 => (libr(g.w_lon + inner * (g.e_lon - g.w_lon)), libr(g.s_lat + (0.02 + 0.96 * q.a2.0) * (g.n_lat - g.s_lat)), 0, 0),
            9 => (libr(g.w_lon + ext * (g.e_lon - g.w_lon)), vy(g.n_lat), 0, q.vy),
            10 => (libr(g.w_lon + ext * (g.e_lon - g.w_lon)), vy(g.s_lat), 0, q.vy),
            11 => (vx(g.e_lon), libr(g.s_lat + ext * (g.n_lat - g.s_lat)), q.vx, 0),
            _ => (vx(g.w_lon), libr(g.s_lat + ext * (g.n_lat - g.s_lat)), q.vx, 0),
        };
        // "exact": the coordinate across an edge is the bound itself in one of its two roundings, or clear of it
        let exact = [ex, ey].iter().all(|v| !(2..=5).contains(v));
        let kind = match [ex, ey].iter().map(|v| match v { 0 | 1 => 0, 2 | 3 => 2, 4 | 5 => 3, _ => 1 }).max().unwrap_or(0) {
            0 => "on the bound",
            1 => "1e-3..1e-2 finest cell off",
            2 => "one ulp off",
            _ => "1e-9 cell off",
        };
        let feat = ["side", "corner", "interior", "side line continued"][match q.feat { 0..=3 => 0, 4..=7 => 1, 8 => 2, _ => 3 }];
        let mut e: [Option<(TlExpect, Vec<Cand>)>; 2] = [None, None];
        let mut visible = false;
        for (mi, margin) in [0.0, 0.5].into_iter().enumerate() {
            match tm.expect(x, y, margin, exact) {
                None => rec.count("tolerance_band_not_asserted", 1),
                Some(te) => {
                    let cs: Vec<Cand> = te.cands.iter().map(|&i| m.cand(i, x, y)).collect();
                    rec.class(&format!("{}; {}", te.label, if te.label.starts_with("clear") || te.label == "outside" || te.label == "root margin" { "-" } else { kind }));
                    if !te.cands.is_empty() && (te.label.starts_with("shared") || te.label.starts_with("junction")) {
                        // would the enclosing grid give a different number?
                        if let Some(p) = subs[te.cands[0]].parent {
                            let pc = m.cand(p, x, y);
                            visible = (0..2).any(|b| (pc.val[b] - cs[0].val[b]).abs() > 50.0 * REL * pc.scale[b].max(cs[0].scale[b]));
                        }
                    }
                    e[mi] = Some((te, cs));
                }
            }
        }
        if visible {
            rec.count("shared_edge_points_where_parent_and_tile_differ", 1);
            rec.nontrivial(&(hash_bytes(tree.as_bytes()), qi, x.to_bits(), y.to_bits()));
        }
        pts.push(Pt { x, y, desc: format!("{feat} of '{}' ({kind})", g.name), e });
    }

    // every file order for small trees, a sample (always with the tree order and its reverse) otherwise
    let perms: Vec<Vec<usize>> = if n <= TL_ALL_PERMS_UP_TO {
        rec.class(&format!("file orders: all {}! permutations", n));
        (0..(1..=n).product::<usize>()).map(|i| nth_perm(n, i)).collect()
    } else {
        rec.class(&format!("file orders: tree order, reverse and {} sampled", TL_SAMPLED_PERMS));
        let mut v = vec![(0..n).collect::<Vec<_>>(), (0..n).rev().collect::<Vec<_>>()];
        for k in 0..TL_SAMPLED_PERMS {
            v.push(file_order(n, c.f.perm_seed ^ (mix(k as u64 + 1) as u32)));
        }
        v
    };
    let mut fails = Fails::default();
    for order in &perms {
        let bytes = nt_encode(&subs, order, c.f.big_endian, c.f.end_rec, ("SRC", "DST"), [6378388.0, 6356911.946, 6378137.0, 6356752.314], ("20260928", "20260928"));
        let grid = match guard(|| Ntv2Grid::new(&bytes)) {
            Err(p) => vfail!(format!("panic-ntv2-decode@{}", p.sig()), "Ntv2Grid::new panics on a well-formed file: {} at {}:{}\nspec {}", p.msg, p.file, p.line, json(&c.f)),
            Ok(Err(e)) => vfail!("ntv2-rejects-well-formed", "Ntv2Grid::new rejects a well-formed file: {e:?}\nspec {}\nsub-grids {tree}\nfile order {order:?}", json(&c.f)),
            Ok(Ok(g)) => g,
        };
        rec.count("files_decoded", 1);
        for pt in &pts {
            let p = Coor4D::raw(pt.x, pt.y, 0.0, 0.0);
            for (mi, margin) in [0.0, 0.5].into_iter().enumerate() {
                let Some((te, cs)) = &pt.e[mi] else { continue };
                let (got, _) = lib_at(&grid, &p, margin)?;
                rec.count("lookups", 1);
                let ctx = || format!("NTv2 spec {}\nsub-grids (arcsec, lon east-positive): {tree}\nfile order (indices into that list) {order:?}, {} byte order\nquery: {} at (lon={:?}, lat={:?}) rad = ({:?}\", {:?}\"); class '{}'; acceptable owner(s): {}", json(&c.f), if c.f.big_endian { "big-endian" } else { "little-endian" }, pt.desc, pt.x, pt.y, pt.x.to_degrees() * 3600.0, pt.y.to_degrees() * 3600.0, te.label, if cs.is_empty() { "none (outside)".to_string() } else { fmt_cands(cs, 2) });
                match got {
                    None => {
                        if te.some_required {
                            fails.push("ntv2-abutting-siblings-none", format!("Ntv2Grid::at(margin {margin}) = None for a point the file covers\n{}", ctx()));
                        }
                    }
                    Some(v) => {
                        let v = [v[0], v[1], v[2], v[3]];
                        if te.none_required {
                            fails.push("ntv2-some-outside", format!("Ntv2Grid::at(margin {margin}) = {:?} for a point outside every root grid and its margin\n{}", &v[..2], ctx()));
                        } else if let Some(cd) = cs.iter().filter(|cd| close_to(&v, cd, 2, 0.0)).min_by(|a, b| worst_rel(&v, a, 2).total_cmp(&worst_rel(&v, b, 2))) {
                            rec.metric("worst_rel_value_error", worst_rel(&v, cd, 2));
                        } else {
                            let other = (0..n).find(|&i| close_to(&v, &m.cand(i, pt.x, pt.y), 2, 0.0));
                            let ancestor = other.map(|o| te.cands.iter().any(|&cnd| { let mut a = subs[cnd].parent; while let Some(p) = a { if p == o { return true; } a = subs[p].parent; } false })).unwrap_or(false);
                            let key = match other {
                                Some(_) if ancestor => "ntv2-abutting-siblings-enclosing-grid-used",
                                Some(_) => "ntv2-abutting-siblings-wrong-subgrid",
                                None => "ntv2-abutting-siblings-value-mismatch",
                            };
                            fails.push(key, format!("Ntv2Grid::at(margin {margin}) = {:?} (lon, lat shift rad) is the interpolation in {}, not in the deepest sub-grid containing the point (upper edges exclusive, lower edges inclusive, tolerance 1e-6 cell; value tolerance {REL} x max|corner|)\n{}", &v[..2], other.map(|i| format!("sub-grid '{}'", m.names[i])).unwrap_or("no sub-grid of the file".into()), ctx()));
                        }
                    }
                }
            }
        }
        if !fails.0.is_empty() {
            break;
        }
    }
    fails.finish()
}

// ---- main ------------------------------------------------------------------------------------------------

fn main() {
    let mut run = Run::init("C08");
    selftest();
    let tmp = tempfile::Builder::new().prefix("c08-").tempdir_in(std::env::var("VERIF_SCRATCH").unwrap_or_else(|_| std::env::temp_dir().display().to_string())).or_else(|_| tempfile::Builder::new().prefix("c08-").tempdir());
    let tmp = match tmp {
        Ok(t) => t,
        Err(e) => {
            eprintln!("C08: cannot create a scratch directory: {e}");
            std::process::exit(2)
        }
    };
    if std::env::set_current_dir(tmp.path()).is_err() {
        eprintln!("C08: cannot enter the scratch directory");
        std::process::exit(2)
    }
    let _ = SCRATCH.set(tmp.path().to_path_buf());

    run.assume("Bilinear reference = f64 interpolation of the node values as stored (f32), relative tolerance 2e-6 of the largest corner value: covers the library's f32 unit conversion (arcsec->rad, mm->m); a swapped weight, row or column gives errors of the order of the corner differences (node values are random or affine in (row, column) with distinct non-zero coefficients, never value = coordinate).");
    run.assume("Grid::contains doc comment: 'on the border qualifies as within' is asserted only for coordinates bit-equal to a header bound (header degrees .to_radians()); any other point closer than 1e-9 cell to a containment or margin border is not asserted either way (the acceptable outcomes are the union); scan order north->south, west->east only (BaseGrid::at comment).");
    run.assume("Gravsoft conventions from src/grid/mod.rs comments and Rumination 002 'gridshift' Units: header lat_s lat_n lon_w lon_e dlat dlon in degrees; 2 bands = (lat, lon) arcsec -> internal (lon, lat) rad; 3 bands = (north, east, up) mm/yr -> (east, north, up) m/yr; 1 band = metres; any |bound| > 720 ('larger than 2x360'): linear grid, header and values untouched (band order of linear grids = file order, as 'kept unchanged'); bounds of exactly +-720 or anywhere inside are angular; queries use the longitude convention of the grid header (the library does not wrap).");
    run.assume("NTv2 conventions (parser comments, NTv2 spec, checked in selftest against ntv2_cvt values quoted in the repository test and by re-encoding the three shipped .gsb files byte for byte): bounds/increments in arcsec, longitudes and longitude shifts positive WEST, nodes from the south-east corner westwards then northwards, record = lat shift, lon shift, 2 accuracies; delivered value = (lon shift east-positive, lat shift) rad.");
    run.assume("NTv2 owner = deepest sub-grid containing the point; not asserted closer than 1e-4 cell to any sub-grid border (DESIGN S), there the result must equal the interpolation in one of the sub-grids touching the point (continuity only) and must be Some when the point is strictly inside a root grid. Outside all roots: any root within the margin. Sibling sub-grids never overlap (NTv2 spec); generated trees obey that.");
    run.assume("Section ntv2-abutting-siblings narrows the 1e-4 cell knife-edge band where the documented rule is unambiguous (find_grid comments: containment and upper-edge tests both with a tolerance of 1e-6 grid cells, 'points on either upper latitude or longitude are considered outside the grid'; repository test ntv2_multi_subgrid_find_grid: lower edges of a sub-grid inclusive, upper edges fall to the enclosing grid): a coordinate that IS a header bound (either rounding order of arcsec -> rad) or is > 3e-6 cell away from every bound has exactly one documented owner: the deepest sub-grid that contains it and does not have it on its north/east edge, i.e. on an edge shared by two siblings the one having it as its lower edge, else the enclosing grid; asserted for every file order. One ulp or 1e-9 cell beside a bound the acceptable owners are that one and the owner under exact half-open containment (never another level). Distances between 3e-7 and 3e-6 cell of any bound are never generated/asserted. Some() at margin 0 is required only for points inside the closed extent of a root by exact comparison (or clearly inside); when no root accepts the point (outer north/east edge of a root) any root containing it within the margin is acceptable.");
    run.assume("A point that is inside a ROOT grid of an NTv2 file by more than rounding (>= 1e-9 cell; the limits are reproduced to < 1e-12 cell) is contained by the file at margin 0 whichever sub-grid serves it: Some/contains is asserted there, in lists the hit is certain (value = any touching sub-grid). Query class 'root-upper-edge' puts points ON the north/east limit and NE corner of root grids (the smaller of the two plausible roundings of the limit, stepped one ulp inwards, so never outside under either) and 1e-7..1e-5 cell inside; the repository's own test (on_root_upper_lat/lon) and 'on the border qualifies as within' say such points belong to the root grid.");
    run.assume("Plain from files: an operator instantiated while a named grid file exists uses it, also when an earlier instantiation in the same context named the (then absent) file as '@optional' (Rumination 002: optional grids do not block instantiation 'if they are unavailable'; nothing makes unavailability permanent). Cases of this kind use file names unique to the case and remove them afterwards; a failure is attributed to the late appearance only if the same case passes with the files in place from the start (key prefix plain-late-grid-file/).");
    run.assume("grids_at doc comment: slice order, first hit with margin 0, then first hit with margin 0.5, else origin if use_null_grid else None.");
    run.assume("Operator conventions from Rumination 002: gridshift forward ADDS 2-band datum shifts to (lon, lat) and SUBTRACTS the 1-band geoid height from the third element, inverse the opposite (2-band inverse asserted as r + shift(r) = operand, only further than 6 x max shift from every border and only for grids whose steepest node-to-node change is below 0.05 of the cell size (the library's 10 fixed-point iterations then reach its 1e-12 criterion; non-convergence is candidate 17 / C10); never for linear grids where the 1e-12 convergence test is in grid units); '@' = optional, missing non-optional grid => Err at instantiation; '@null' last => outside points pass unchanged and count; otherwise outside points are NaN-marked and not counted. Inverse gridshift outside coverage: only the count is checked (candidate 17 belongs to C10).");
    run.assume("deformation (Rumination 002 eq. 1-3 + parameter table): forward X' = X - d R V, inverse X + d R V (sign reversion, no iteration), raw => (correction, |correction|), d = dt if given else T1 - T0 = tuple epoch - t_epoch; R = textbook ENU->XYZ rotation at the geographic position of X on the operator's ellipsoid (harness supplies X = cartesian(lon, lat, h) and uses (lon, lat) directly; the library's own conversion differs by < 1e-11 rad, covered by a 1e-6 cell knife-edge band).");
    run.assume("deflection: documented only as 'coarse estimate from the local gradient of the geoid', input (lat, lon) degrees, output (xi, eta) arcsec; reference = atan of the geoid height difference over 1 m north (1/M) and 1 m east (1/(N cos lat)), sign as implemented (the documentation fixes none), tolerance 1e-3 relative + 1e-5 arcsec; elements 3 and 4 of the output are not examined.");

    let n = run.scale(12_000, 300_000);
    run.section(
        "gravsoft-at",
        "random Gravsoft files (2..7 x 2..7 nodes, 1-3 bands, 8 text layouts; angular grids around a random anchor and with header bounds anywhere in [-720, 720] incl. exactly +-360, +-720, straddling 360 and global 0..360; projected grids far beyond and just beyond (720.03125) the 2x360 limit) decoded with BaseGrid::gravsoft; 8..24 queries per grid (node, cell interior, cell border, exact grid border, margin, just outside, far, +-1e-3..1e-13 cell from a border) x margins {0, 0.5, random}; Grid::at/contains against the bilinear reference; non-trivial = strictly inside a cell with four distinct corner values, or in the half-cell margin",
        n,
        gs_case,
        check_gravsoft,
    );
    let n = run.scale(12_000, 300_000);
    run.section(
        "ntv2-at",
        "random NTv2 files (1-2 roots, up to 5 nested children to depth 3, sub-grid names of every length 1..8 incl. full-width names differing only in the 8th character, mixed case and inner blanks, refinement 2..5, both byte orders, random file order, with/without END record; values independent / consistent on borders / one affine field); 12..32 queries positioned relative to a random sub-grid (plus points on / 1e-7..1e-5 cell inside the north and east limits and the NE corner of root grids) x margins {0, 0.5}; Ntv2Grid::at/contains against deepest-sub-grid reference; non-trivial = definite owner that is a child, or a root cell with distinct corners",
        n,
        nt_case,
        check_ntv2,
    );
    let n = run.scale(1_500, 40_000);
    run.section(
        "ntv2-abutting-siblings",
        "NTv2 files whose sibling sub-grids ABUT: 1-2 abutting roots, root 0 tiled (wholly or partly, flush with its lower/upper edges or not) by 1x2..3x3 children sharing meridians/parallels exactly (tile sizes 1..2 parent cells, own refinement 2..5 each, optionally with holes), up to two further tilings nested in a tile or in the second root (cousins abutting across a tile border), <= 12 sub-grids; node values inconsistent between levels (independent field / constant per sub-grid / constant per depth); both byte orders; EVERY permutation of the records for files of <= 5 sub-grids (120), tree order + reverse + 32 sampled otherwise; 24..40 queries on sides, corners (incl. 4-tile junctions), continued side lines and interiors of random sub-grids, the coordinate across the edge being the bound itself (both rounding orders), +-1 ulp, +-1e-9 cell, +-1e-3/1e-2 finest cell; margins {0, 0.5}; reference = documented rule (lower edges inclusive, upper edges exclusive, 1e-6 cell tolerance, deepest acceptor; enclosing grid when no sibling has the point on its lower edge), independent of file order; non-trivial = point on an edge shared by siblings where parent and owner interpolate to different numbers",
        n,
        tile_case,
        check_tiled,
    );
    let n = run.scale(12_000, 300_000);
    run.section(
        "grids-at-lists",
        "lists of 1..4 overlapping grids around a common anchor (Gravsoft 1/2/3 bands, NTv2 mixed into 2-band lists), random order, use_null_grid on/off; authoring::grids_at against first-containing / first-within-margin reference; non-trivial = point in >= 2 grids, or only in margins, or inside a later grid while in the margin of an earlier one",
        n,
        list_case,
        check_list,
    );
    let n = run.scale(15_000, 400_000);
    run.section(
        "operators",
        "gridshift (2-band angular, geoid, linear grids; Gravsoft + NTv2 lists), deformation (dt / t_epoch / both, raw, three ellipsoids) and deflection through GridCtx: lists with '@' optional present and missing names, missing required names, '@null', inv flag and direction; 6..16 tuples per case applied as one set; values, untouched elements, NaN marking and success count against the reference; non-trivial = tuple with a definite hit whose expected value was reproduced",
        n,
        op_case,
        |c: &OpCase, rec: &mut Rec| check_op(c, Backend::Mem, rec),
    );
    let n = run.scale(1500, 30_000);
    run.section(
        "operators-plain",
        "the same operator cases through Plain::new() reading the generated files from ./geodesy/<ext>/<name> in a scratch working directory (unique content-hashed names, Plain::clear_grids after each case); in 40 % of the cases the files are written only after a first instantiation, in the same context, that named them as optional grids while absent (names unique to the case)",
        n,
        op_case,
        |c: &OpCase, rec: &mut Rec| check_op(c, Backend::Plain, rec),
    );
    run.enumerate(
        "shipped-files",
        "the 8 shipped grid files decoded by the library vs the model built by this file's independent readers, on a 41 x 41 lattice reaching 1.2 cells beyond the coverage, margins {0, 0.5}",
        SHIPPED.len() * SHIP_N * SHIP_N,
        |i| ShipCase { file: i / (SHIP_N * SHIP_N), k: i % (SHIP_N * SHIP_N) },
        check_shipped,
    );

    let _ = std::env::set_current_dir("/");
    let _ = tmp.close();
    run.finish("generated Gravsoft and NTv2 grids (own encoders) x positioned queries; library lookups and grid operators compared with a bilinear / first-hit / deepest-sub-grid reference model; knife edges excluded by construction");
}
