//! C19 — coordinate containers and angular encodings are lossless and consistent.
//!
//! Containers: a view-level reference model (stored dimensions, f32 rounding for Coor32,
//! missing dimensions h = 0 / t = NaN, adapter overrides) is driven in lock step with every
//! supported container kind (arrays, slices, Vecs of Coor2D/3D/4D/32; (T,h,t) and (T,t)
//! adapters, also nested; two user containers that rely on the trait defaults) through random
//! histories of set_coord / set_xy / set_xyz / set_xyzt / stomp; after every write all
//! readers (get_coord, xy, xyz, xyzt) of all indices are compared bit for bit.
//! Tuples: Coor2D/3D/4D/32, the library's (f64,f64) and three user tuple types (dim 1, 3, 5)
//! through set_nth / set_xy / set_xyz / set_xyzt / update / fill and all typed accessors,
//! nth(n >= dim) = NaN, unit conversions, scale / dot / hypot and the arithmetic operators
//! against element-wise definitions.
//! Angles: a fine lattice of [-720, 720] degrees (exact sexagesimal digits known from the
//! lattice index), carry neighbourhoods of every arc minute, and random angles / random
//! sexagesimal triples: encoders are checked with an independent decoder written from the
//! format definition, decoders against d + m/60 + s/3600, both compositions, the dm/dms
//! operators through Context::apply, unit conversions, parse_sexagesimal and normalisation.

use geodesy::prelude::*;
use proptest::prelude::*;
use serde::{Deserialize, Serialize};
use vcore::geo::*;
use vcore::guard::guard;
use vcore::*;

// =====================================================================================
// User defined types that rely on the trait defaults
// =====================================================================================

#[derive(Debug, Clone, Copy, PartialEq)]
struct Abscissa(f64);
impl CoordinateTuple for Abscissa {
    fn new(fill: f64) -> Self {
        Abscissa(fill)
    }
    fn dim(&self) -> usize {
        1
    }
    fn nth_unchecked(&self, n: usize) -> f64 {
        match n {
            0 => self.0,
            _ => panic!("USER-TUPLE-OOR: library called Abscissa::nth_unchecked({n}) with n >= dim"),
        }
    }
    fn set_nth_unchecked(&mut self, n: usize, value: f64) {
        match n {
            0 => self.0 = value,
            _ => panic!("USER-TUPLE-OOR: library called Abscissa::set_nth_unchecked({n}) with n >= dim"),
        }
    }
}

#[derive(Debug, Clone, Copy, PartialEq)]
struct Enu {
    e: f64,
    n: f64,
    u: f64,
}
impl CoordinateTuple for Enu {
    fn new(fill: f64) -> Self {
        Enu { e: fill, n: fill, u: fill }
    }
    fn dim(&self) -> usize {
        3
    }
    fn nth_unchecked(&self, n: usize) -> f64 {
        match n {
            0 => self.e,
            1 => self.n,
            2 => self.u,
            _ => panic!("USER-TUPLE-OOR: library called Enu::nth_unchecked({n}) with n >= dim"),
        }
    }
    fn set_nth_unchecked(&mut self, n: usize, value: f64) {
        match n {
            0 => self.e = value,
            1 => self.n = value,
            2 => self.u = value,
            _ => panic!("USER-TUPLE-OOR: library called Enu::set_nth_unchecked({n}) with n >= dim"),
        }
    }
}

#[derive(Debug, Clone, Copy, PartialEq)]
struct Five([f64; 5]);
impl CoordinateTuple for Five {
    fn new(fill: f64) -> Self {
        Five([fill; 5])
    }
    fn dim(&self) -> usize {
        5
    }
    fn nth_unchecked(&self, n: usize) -> f64 {
        if n >= 5 {
            panic!("USER-TUPLE-OOR: library called Five::nth_unchecked({n}) with n >= dim");
        }
        self.0[n]
    }
    fn set_nth_unchecked(&mut self, n: usize, value: f64) {
        if n >= 5 {
            panic!("USER-TUPLE-OOR: library called Five::set_nth_unchecked({n}) with n >= dim");
        }
        self.0[n] = value;
    }
}

/// One-dimensional user container, modelled on examples/06: only the four required methods.
#[derive(Debug, Clone)]
struct AbscissaVec(Vec<Abscissa>);
impl CoordinateSet for AbscissaVec {
    fn len(&self) -> usize {
        self.0.len()
    }
    fn dim(&self) -> usize {
        1
    }
    fn get_coord(&self, index: usize) -> Coor4D {
        Coor4D([self.0[index].0, 0., 0., 0.])
    }
    fn set_coord(&mut self, index: usize, value: &Coor4D) {
        self.0[index] = Abscissa(value[0]);
    }
}

/// Three-dimensional structure-of-arrays user container: only the four required methods.
#[derive(Debug, Clone)]
struct Soa3 {
    x: Vec<f64>,
    y: Vec<f64>,
    z: Vec<f64>,
}
impl CoordinateSet for Soa3 {
    fn len(&self) -> usize {
        self.x.len()
    }
    fn dim(&self) -> usize {
        3
    }
    fn get_coord(&self, index: usize) -> Coor4D {
        Coor4D([self.x[index], self.y[index], self.z[index], f64::NAN])
    }
    fn set_coord(&mut self, index: usize, value: &Coor4D) {
        self.x[index] = value[0];
        self.y[index] = value[1];
        self.z[index] = value[2];
    }
}

// =====================================================================================
// Small helpers
// =====================================================================================

fn f4(p: &P4) -> [f64; 4] {
    [p[0].0, p[1].0, p[2].0, p[3].0]
}
fn a4_eq(a: &[f64; 4], b: &[f64; 4]) -> bool {
    (0..4).all(|k| bits_eq(a[k], b[k]))
}
fn show(v: &[f64]) -> String {
    let parts: Vec<String> = v.iter().map(|x| format!("{x:?}")).collect();
    format!("[{}]", parts.join(", "))
}

/// got ~ exp within relative tolerance; NaN matches NaN, infinities must be equal.
fn close_rel(got: f64, exp: f64, rel: f64) -> bool {
    if exp.is_nan() {
        return got.is_nan();
    }
    if exp.is_infinite() {
        return got == exp;
    }
    (got - exp).abs() <= rel * exp.abs() + f64::MIN_POSITIVE
}

const EPS: f64 = f64::EPSILON;
const EPS32: f64 = 1.1920929e-7; // f32::EPSILON

// =====================================================================================
// Section: containers
// =====================================================================================

#[derive(Clone, Copy, Debug)]
struct BaseSpec {
    name: &'static str,
    dim: usize,
    f32: bool,
    fill: [f64; 4],
    native: bool,
}

const NATIVE_FILL: [f64; 4] = [0., 0., 0., f64::NAN];
const BASES: [BaseSpec; 14] = [
    BaseSpec { name: "array-Coor2D", dim: 2, f32: false, fill: NATIVE_FILL, native: true },
    BaseSpec { name: "array-Coor3D", dim: 3, f32: false, fill: NATIVE_FILL, native: true },
    BaseSpec { name: "array-Coor4D", dim: 4, f32: false, fill: NATIVE_FILL, native: true },
    BaseSpec { name: "array-Coor32", dim: 2, f32: true, fill: NATIVE_FILL, native: true },
    BaseSpec { name: "slice-Coor2D", dim: 2, f32: false, fill: NATIVE_FILL, native: true },
    BaseSpec { name: "slice-Coor3D", dim: 3, f32: false, fill: NATIVE_FILL, native: true },
    BaseSpec { name: "slice-Coor4D", dim: 4, f32: false, fill: NATIVE_FILL, native: true },
    BaseSpec { name: "slice-Coor32", dim: 2, f32: true, fill: NATIVE_FILL, native: true },
    BaseSpec { name: "vec-Coor2D", dim: 2, f32: false, fill: NATIVE_FILL, native: true },
    BaseSpec { name: "vec-Coor3D", dim: 3, f32: false, fill: NATIVE_FILL, native: true },
    BaseSpec { name: "vec-Coor4D", dim: 4, f32: false, fill: NATIVE_FILL, native: true },
    BaseSpec { name: "vec-Coor32", dim: 2, f32: true, fill: NATIVE_FILL, native: true },
    BaseSpec { name: "user-AbscissaVec", dim: 1, f32: false, fill: [0., 0., 0., 0.], native: false },
    BaseSpec { name: "user-Soa3", dim: 3, f32: false, fill: NATIVE_FILL, native: false },
];
const WRAPS: [&str; 5] = ["plain", "(T,h,t)", "(T,t)", "((T,h,t),t)", "((T,t),h,t)"];

#[derive(Clone, Debug, Serialize, Deserialize)]
enum SetOp {
    Coord(u16, P4),
    Xy(u16, F, F),
    Xyz(u16, F, F, F),
    Xyzt(u16, P4),
    Stomp,
}
impl SetOp {
    fn name(&self) -> &'static str {
        match self {
            SetOp::Coord(..) => "set_coord",
            SetOp::Xy(..) => "set_xy",
            SetOp::Xyz(..) => "set_xyz",
            SetOp::Xyzt(..) => "set_xyzt",
            SetOp::Stomp => "stomp",
        }
    }
}

#[derive(Clone, Debug, Serialize, Deserialize)]
struct SetCase {
    base: u8,
    wrap: u8,
    init: Vec<P4>,
    h: F,
    t: F,
    t2: F,
    ops: Vec<SetOp>,
}

/// View-level reference model of a container (possibly behind adapters).
struct SetModel {
    spec: BaseSpec,
    wrap: usize,
    over: [Option<f64>; 4],
    view: Vec<[f64; 4]>,
}
impl SetModel {
    fn canon(&self, v: [f64; 4]) -> [f64; 4] {
        let mut o = [0.0; 4];
        for k in 0..4 {
            o[k] = if k < self.spec.dim {
                if self.spec.f32 {
                    v[k] as f32 as f64
                } else {
                    v[k]
                }
            } else {
                self.spec.fill[k]
            };
            if let Some(x) = self.over[k] {
                o[k] = x;
            }
        }
        o
    }
    fn label(&self) -> String {
        format!("{}/{}", self.spec.name, WRAPS[self.wrap])
    }
}

fn verify_set(s: &dyn CoordinateSet, m: &SetModel, after: &str, hist: &str) -> CaseResult {
    let lbl = m.label();
    let n = m.view.len();
    vensure!(s.len() == n, format!("container-{lbl}:len-after-{after}"), "{lbl}: len() = {} but the container holds {n} tuples (history: {hist})", s.len());
    vensure!(s.is_empty() == (n == 0), format!("container-{lbl}:is_empty-after-{after}"), "{lbl}: is_empty() = {} with {n} tuples", s.is_empty());
    if m.spec.native && m.wrap == 0 {
        vensure!(s.dim() == m.spec.dim, format!("container-{lbl}:dim"), "{lbl}: dim() = {} expected {}", s.dim(), m.spec.dim);
    }
    for j in 0..n {
        let e = m.view[j];
        let g = s.get_coord(j).0;
        vensure!(a4_eq(&g, &e), format!("container-{lbl}:get_coord-after-{after}"),
            "{lbl}: get_coord({j}) = {} but the model (stored dimensions{}, missing h=0/t=NaN or adapter values) says {} after {after}; history: {hist}",
            show(&g), if m.spec.f32 { " rounded to f32" } else { "" }, show(&e));
        let (x, y) = s.xy(j);
        vensure!(bits_eq(x, e[0]) && bits_eq(y, e[1]), format!("container-{lbl}:xy-after-{after}"),
            "{lbl}: xy({j}) = ({x:?}, {y:?}) but get_coord/model says {} after {after}; history: {hist}", show(&e));
        let (x, y, z) = s.xyz(j);
        vensure!(bits_eq(x, e[0]) && bits_eq(y, e[1]) && bits_eq(z, e[2]), format!("container-{lbl}:xyz-after-{after}"),
            "{lbl}: xyz({j}) = ({x:?}, {y:?}, {z:?}) but get_coord/model says {} after {after}; history: {hist}", show(&e));
        let (x, y, z, t) = s.xyzt(j);
        vensure!(a4_eq(&[x, y, z, t], &e), format!("container-{lbl}:xyzt-after-{after}"),
            "{lbl}: xyzt({j}) = ({x:?}, {y:?}, {z:?}, {t:?}) but get_coord/model says {} after {after}; history: {hist}", show(&e));
    }
    Ok(())
}

fn drive_set(s: &mut dyn CoordinateSet, m: &mut SetModel, ops: &[SetOp], rec: &mut Rec) -> CaseResult {
    let mut hist = String::from("init");
    verify_set(s, m, "init", &hist)?;
    let n = m.view.len();
    for op in ops {
        let name = op.name();
        match op {
            SetOp::Stomp => {
                s.stomp();
                for j in 0..n {
                    m.view[j] = m.canon([f64::NAN; 4]);
                }
                hist.push_str(" | stomp");
            }
            _ if n == 0 => continue,
            SetOp::Coord(i, v) => {
                let (j, v) = (pick(*i, n), f4(v));
                s.set_coord(j, &Coor4D(v));
                m.view[j] = m.canon(v);
                hist.push_str(&format!(" | set_coord({j}, {})", show(&v)));
            }
            SetOp::Xy(i, x, y) => {
                let j = pick(*i, n);
                s.set_xy(j, x.0, y.0);
                let mut v = m.view[j];
                v[0] = x.0;
                v[1] = y.0;
                m.view[j] = m.canon(v);
                hist.push_str(&format!(" | set_xy({j}, {:?}, {:?})", x.0, y.0));
            }
            SetOp::Xyz(i, x, y, z) => {
                let j = pick(*i, n);
                s.set_xyz(j, x.0, y.0, z.0);
                let mut v = m.view[j];
                v[0] = x.0;
                v[1] = y.0;
                v[2] = z.0;
                m.view[j] = m.canon(v);
                hist.push_str(&format!(" | set_xyz({j}, {:?}, {:?}, {:?})", x.0, y.0, z.0));
            }
            SetOp::Xyzt(i, v) => {
                let (j, v) = (pick(*i, n), f4(v));
                s.set_xyzt(j, v[0], v[1], v[2], v[3]);
                m.view[j] = m.canon(v);
                hist.push_str(&format!(" | set_xyzt({j}, {})", show(&v)));
            }
        }
        verify_set(s, m, name, &hist)?;
        rec.count("reads_compared", 4 * n as u64);
    }
    Ok(())
}

/// After driving an adapter: the wrapped container must hold the non-overridden dimensions.
fn inner_check(inner: &dyn CoordinateSet, m: &SetModel) -> CaseResult {
    let lbl = m.label();
    for j in 0..m.view.len() {
        let g = inner.get_coord(j).0;
        for k in 0..4 {
            if m.over[k].is_none() {
                vensure!(bits_eq(g[k], m.view[j][k]), format!("container-{lbl}:inner-not-updated"),
                    "{lbl}: after writing through the adapter the wrapped container reads {} at index {j}, the adapter view is {} (element {k} differs)",
                    show(&g), show(&m.view[j]));
            }
        }
    }
    Ok(())
}

fn run_wrapped<T: CoordinateSet>(mut base: T, c: &SetCase, m: &mut SetModel, rec: &mut Rec) -> CaseResult {
    let (h, t, t2) = (c.h.0, c.t.0, c.t2.0);
    match c.wrap {
        0 => drive_set(&mut base, m, &c.ops, rec),
        1 => {
            let mut a = (base, h, t);
            drive_set(&mut a, m, &c.ops, rec)?;
            inner_check(&a.0, m)
        }
        2 => {
            let mut a = (base, t);
            drive_set(&mut a, m, &c.ops, rec)?;
            inner_check(&a.0, m)
        }
        3 => {
            let mut a = ((base, h, t), t2);
            drive_set(&mut a, m, &c.ops, rec)?;
            inner_check(&(a.0).0, m)
        }
        _ => {
            let mut a = ((base, t), h, t2);
            drive_set(&mut a, m, &c.ops, rec)?;
            inner_check(&(a.0).0, m)
        }
    }
}

fn mk2(v: &[f64; 4]) -> Coor2D {
    Coor2D([v[0], v[1]])
}
fn mk3(v: &[f64; 4]) -> Coor3D {
    Coor3D([v[0], v[1], v[2]])
}
fn mk4(v: &[f64; 4]) -> Coor4D {
    Coor4D(*v)
}
fn mk32(v: &[f64; 4]) -> Coor32 {
    Coor32([v[0] as f32, v[1] as f32])
}

/// arrays come in lengths 1, 2 and 4 (const generic): the initial values are cut / padded
fn array_len(n: usize) -> usize {
    match n {
        0 | 1 => 1,
        2 | 3 => 2,
        _ => 4,
    }
}

macro_rules! with_array {
    ($mk:ident, $vals:expr, $c:expr, $m:expr, $rec:expr) => {{
        let vals: &Vec<[f64; 4]> = $vals;
        match vals.len() {
            1 => run_wrapped([$mk(&vals[0])], $c, $m, $rec),
            2 => run_wrapped([$mk(&vals[0]), $mk(&vals[1])], $c, $m, $rec),
            _ => run_wrapped([$mk(&vals[0]), $mk(&vals[1]), $mk(&vals[2]), $mk(&vals[3])], $c, $m, $rec),
        }
    }};
}

fn check_set(c: &SetCase, rec: &mut Rec) -> CaseResult {
    let base = (c.base as usize).min(BASES.len() - 1);
    let wrap = (c.wrap as usize).min(WRAPS.len() - 1);
    let spec = BASES[base];
    let mut vals: Vec<[f64; 4]> = c.init.iter().map(f4).collect();
    if base < 4 {
        let n = array_len(vals.len());
        let mut k = 0;
        while vals.len() < n {
            k += 1;
            vals.push([k as f64 + 0.25, -(k as f64) - 0.5, 100. + k as f64, 2000. + k as f64]);
        }
        vals.truncate(n);
    }
    let (h, t, t2) = (c.h.0, c.t.0, c.t2.0);
    let over = match wrap {
        0 => [None; 4],
        1 => [None, None, Some(h), Some(t)],
        2 => [None, None, None, Some(t)],
        3 => [None, None, Some(h), Some(t2)],
        _ => [None, None, Some(h), Some(t2)],
    };
    let mut m = SetModel { spec, wrap, over, view: vec![] };
    m.view = vals.iter().map(|v| m.canon(*v)).collect();
    let c2 = SetCase { wrap: wrap as u8, ..c.clone() };
    let c = &c2;
    let m = &mut m;
    match base {
        0 => with_array!(mk2, &vals, c, m, rec)?,
        1 => with_array!(mk3, &vals, c, m, rec)?,
        2 => with_array!(mk4, &vals, c, m, rec)?,
        3 => with_array!(mk32, &vals, c, m, rec)?,
        4 => {
            let mut v: Vec<Coor2D> = vals.iter().map(mk2).collect();
            run_wrapped(&mut v[..], c, m, rec)?
        }
        5 => {
            let mut v: Vec<Coor3D> = vals.iter().map(mk3).collect();
            run_wrapped(&mut v[..], c, m, rec)?
        }
        6 => {
            let mut v: Vec<Coor4D> = vals.iter().map(mk4).collect();
            run_wrapped(&mut v[..], c, m, rec)?
        }
        7 => {
            let mut v: Vec<Coor32> = vals.iter().map(mk32).collect();
            run_wrapped(&mut v[..], c, m, rec)?
        }
        8 => run_wrapped(vals.iter().map(mk2).collect::<Vec<_>>(), c, m, rec)?,
        9 => run_wrapped(vals.iter().map(mk3).collect::<Vec<_>>(), c, m, rec)?,
        10 => run_wrapped(vals.iter().map(mk4).collect::<Vec<_>>(), c, m, rec)?,
        11 => run_wrapped(vals.iter().map(mk32).collect::<Vec<_>>(), c, m, rec)?,
        12 => run_wrapped(AbscissaVec(vals.iter().map(|v| Abscissa(v[0])).collect()), c, m, rec)?,
        _ => run_wrapped(
            Soa3 { x: vals.iter().map(|v| v[0]).collect(), y: vals.iter().map(|v| v[1]).collect(), z: vals.iter().map(|v| v[2]).collect() },
            c, m, rec,
        )?,
    }
    rec.class(&m.label());
    let writes = c.ops.iter().filter(|o| !matches!(o, SetOp::Stomp)).count();
    if writes > 0 && !vals.is_empty() {
        rec.nontrivial(&(base, wrap, format!("{:?}", c.ops), vals.len()));
    }
    Ok(())
}

fn set_op_strategy() -> impl Strategy<Value = SetOp> {
    prop_oneof![
        3 => (any::<u16>(), any_p4_class()).prop_map(|(i, v)| SetOp::Coord(i, v)),
        3 => (any::<u16>(), any_f64_class(), any_f64_class()).prop_map(|(i, x, y)| SetOp::Xy(i, x, y)),
        3 => (any::<u16>(), any_f64_class(), any_f64_class(), any_f64_class()).prop_map(|(i, x, y, z)| SetOp::Xyz(i, x, y, z)),
        3 => (any::<u16>(), any_p4_class()).prop_map(|(i, v)| SetOp::Xyzt(i, v)),
        1 => Just(SetOp::Stomp),
    ]
}

fn set_case_strategy() -> impl Strategy<Value = SetCase> {
    (
        0u8..BASES.len() as u8,
        0u8..WRAPS.len() as u8,
        prop::collection::vec(any_p4_class(), 0..7),
        any_f64_class(),
        any_f64_class(),
        any_f64_class(),
        prop::collection::vec(set_op_strategy(), 0..8),
    )
        .prop_map(|(base, wrap, init, h, t, t2, ops)| SetCase { base, wrap, init, h, t, t2, ops })
}

// =====================================================================================
// Section: tuples
// =====================================================================================

#[derive(Clone, Copy, Debug, Serialize, Deserialize)]
struct Sexa {
    neg: bool,
    d: u16,
    m: u8,
    s: F,
}
impl Sexa {
    /// decimal degrees by definition: sign * (d + m/60 + s/3600), one rounding division
    fn dd(&self) -> f64 {
        let v = ((self.d as f64) * 3600.0 + (self.m as f64) * 60.0 + self.s.0) / 3600.0;
        if self.neg {
            -v
        } else {
            v
        }
    }
    fn enc_dm(&self) -> f64 {
        let v = (self.d as f64) * 100.0 + ((self.m as f64) + self.s.0 / 60.0);
        if self.neg {
            -v
        } else {
            v
        }
    }
    fn enc_dms(&self) -> f64 {
        let v = ((self.d as u32 * 10000 + self.m as u32 * 100) as f64) + self.s.0;
        if self.neg {
            -v
        } else {
            v
        }
    }
    fn text(&self) -> String {
        format!("{}{}°{}'{:?}\"", if self.neg { "-" } else { "" }, self.d, self.m, self.s.0)
    }
}

trait TK: CoordinateTuple + Copy + std::fmt::Debug {
    const NAME: &'static str;
    const DIM: usize;
    const F32: bool;
    /// direct access (field or `[]`), only called with n < DIM
    fn raw(&self, n: usize) -> f64;
}
impl TK for Coor2D {
    const NAME: &'static str = "Coor2D";
    const DIM: usize = 2;
    const F32: bool = false;
    fn raw(&self, n: usize) -> f64 {
        self[n]
    }
}
impl TK for Coor3D {
    const NAME: &'static str = "Coor3D";
    const DIM: usize = 3;
    const F32: bool = false;
    fn raw(&self, n: usize) -> f64 {
        self[n]
    }
}
impl TK for Coor4D {
    const NAME: &'static str = "Coor4D";
    const DIM: usize = 4;
    const F32: bool = false;
    fn raw(&self, n: usize) -> f64 {
        self[n]
    }
}
impl TK for Coor32 {
    const NAME: &'static str = "Coor32";
    const DIM: usize = 2;
    const F32: bool = true;
    fn raw(&self, n: usize) -> f64 {
        self[n] as f64
    }
}
impl TK for (f64, f64) {
    const NAME: &'static str = "(f64,f64)";
    const DIM: usize = 2;
    const F32: bool = false;
    fn raw(&self, n: usize) -> f64 {
        if n == 0 {
            self.0
        } else {
            self.1
        }
    }
}
impl TK for Abscissa {
    const NAME: &'static str = "user-Abscissa";
    const DIM: usize = 1;
    const F32: bool = false;
    fn raw(&self, _n: usize) -> f64 {
        self.0
    }
}
impl TK for Enu {
    const NAME: &'static str = "user-Enu";
    const DIM: usize = 3;
    const F32: bool = false;
    fn raw(&self, n: usize) -> f64 {
        [self.e, self.n, self.u][n]
    }
}
impl TK for Five {
    const NAME: &'static str = "user-Five";
    const DIM: usize = 5;
    const F32: bool = false;
    fn raw(&self, n: usize) -> f64 {
        self.0[n]
    }
}

#[derive(Clone, Debug, Serialize, Deserialize)]
enum TupOp {
    SetNth(u8, F),
    SetXy(F, F),
    SetXyz(F, F, F),
    SetXyzt(P4),
    Update(Vec<F>),
    Fill(F),
}
impl TupOp {
    fn name(&self) -> &'static str {
        match self {
            TupOp::SetNth(..) => "set_nth",
            TupOp::SetXy(..) => "set_xy",
            TupOp::SetXyz(..) => "set_xyz",
            TupOp::SetXyzt(..) => "set_xyzt",
            TupOp::Update(..) => "update",
            TupOp::Fill(..) => "fill",
        }
    }
}

#[derive(Clone, Debug, Serialize, Deserialize)]
struct TupCase {
    kind: u8,
    fill: F,
    ops: Vec<TupOp>,
    b: Vec<F>,
    factor: F,
    lat: Sexa,
    lon: Sexa,
    /// a second left operand for the arithmetic checks, independent of the write history
    #[serde(default)]
    a2: Vec<F>,
}

const TUP_KINDS: usize = 8;

fn verify_tuple<T: TK>(t: &T, m: &[f64], after: &str, hist: &str) -> CaseResult {
    let nm = T::NAME;
    let e = |k: usize| if k < T::DIM { m[k] } else { f64::NAN };
    vensure!(t.dim() == T::DIM, format!("tuple-{nm}:dim"), "{nm}: dim() = {} expected {}", t.dim(), T::DIM);
    for n in 0..8usize {
        let g = t.nth(n);
        vensure!(bits_eq(g, e(n)), format!("tuple-{nm}:nth-after-{after}"),
            "{nm}: nth({n}) = {g:?}, expected {:?} ({}); state {} after {hist}", e(n),
            if n < T::DIM { "stored value" } else { "NaN for n >= dim" }, show(m));
        if n < T::DIM {
            let (u, r) = (t.nth_unchecked(n), t.raw(n));
            vensure!(bits_eq(u, e(n)) && bits_eq(r, e(n)), format!("tuple-{nm}:index-after-{after}"),
                "{nm}: nth_unchecked({n}) = {u:?}, direct/[] access = {r:?}, expected {:?}; after {hist}", e(n));
        }
    }
    let got = [t.x(), t.y(), t.z(), t.t()];
    for k in 0..4 {
        vensure!(bits_eq(got[k], e(k)), format!("tuple-{nm}:{}-after-{after}", ["x", "y", "z", "t"][k]),
            "{nm}: {}() = {:?}, expected {:?} (NaN when beyond the dimension); state {} after {hist}", ["x", "y", "z", "t"][k], got[k], e(k), show(m));
    }
    let (x, y) = t.xy();
    vensure!(bits_eq(x, e(0)) && bits_eq(y, e(1)), format!("tuple-{nm}:xy-after-{after}"), "{nm}: xy() = ({x:?}, {y:?}) expected ({:?}, {:?}); after {hist}", e(0), e(1));
    let (x, y, z) = t.xyz();
    vensure!(bits_eq(x, e(0)) && bits_eq(y, e(1)) && bits_eq(z, e(2)), format!("tuple-{nm}:xyz-after-{after}"),
        "{nm}: xyz() = ({x:?}, {y:?}, {z:?}) expected ({:?}, {:?}, {:?}); after {hist}", e(0), e(1), e(2));
    let (x, y, z, w) = t.xyzt();
    vensure!(bits_eq(x, e(0)) && bits_eq(y, e(1)) && bits_eq(z, e(2)) && bits_eq(w, e(3)), format!("tuple-{nm}:xyzt-after-{after}"),
        "{nm}: xyzt() = ({x:?}, {y:?}, {z:?}, {w:?}) expected ({:?}, {:?}, {:?}, {:?}); after {hist}", e(0), e(1), e(2), e(3));
    Ok(())
}

fn tuple_math<T: TK>(t: &T, m: &[f64], o: &T, mb: &[f64], factor: f64, rec: &mut Rec) -> CaseResult {
    let nm = T::NAME;
    let r = |v: f64| if T::F32 { v as f32 as f64 } else { v };
    let e = |k: usize| if k < T::DIM { m[k] } else { f64::NAN };
    let rel = if T::F32 { 4.0 * EPS32 } else { 4.0 * EPS };
    // sub-tuples with unit conversion (documented element-wise)
    let deg = |v: f64| v.to_degrees();
    let asec = |v: f64| v.to_degrees() * 3600.0;
    let rad = |v: f64| v.to_radians();
    let id = |v: f64| v;
    type Conv<'a> = &'a dyn Fn(f64) -> f64;
    let checks: [(&str, Vec<f64>, Conv); 9] = [
        ("xy_to_degrees", { let g = t.xy_to_degrees(); vec![g.0, g.1] }, &deg),
        ("xyz_to_degrees", { let g = t.xyz_to_degrees(); vec![g.0, g.1, g.2] }, &deg),
        ("xyzt_to_degrees", { let g = t.xyzt_to_degrees(); vec![g.0, g.1, g.2, g.3] }, &deg),
        ("xy_to_arcsec", { let g = t.xy_to_arcsec(); vec![g.0, g.1] }, &asec),
        ("xyz_to_arcsec", { let g = t.xyz_to_arcsec(); vec![g.0, g.1, g.2] }, &asec),
        ("xyzt_to_arcsec", { let g = t.xyzt_to_arcsec(); vec![g.0, g.1, g.2, g.3] }, &asec),
        ("xy_to_radians", { let g = t.xy_to_radians(); vec![g.0, g.1] }, &rad),
        ("xyz_to_radians", { let g = t.xyz_to_radians(); vec![g.0, g.1, g.2] }, &rad),
        ("xyzt_to_radians", { let g = t.xyzt_to_radians(); vec![g.0, g.1, g.2, g.3] }, &rad),
    ];
    for (name, got, conv) in checks.iter() {
        for (k, g) in got.iter().enumerate() {
            let ex = if k < 2 { conv(e(k)) } else { id(e(k)) };
            let ok = if k < 2 { close_rel(*g, ex, 8.0 * EPS) } else { bits_eq(*g, ex) };
            vensure!(ok, format!("tuple-{nm}:{name}"), "{nm}: {name}() element {k} = {g:?}, element-wise definition gives {ex:?}; state {}", show(m));
        }
    }
    // AngularUnits: first two elements converted (rounded to the storage type), the rest untouched
    if T::DIM >= 2 {
        let outs: [(&str, T, [f64; 2]); 4] = [
            ("to_degrees", t.to_degrees(), [deg(m[0]), deg(m[1])]),
            ("to_radians", t.to_radians(), [rad(m[0]), rad(m[1])]),
            ("to_arcsec", t.to_arcsec(), [asec(m[0]), asec(m[1])]),
            ("to_geo", t.to_geo(), [deg(m[1]), deg(m[0])]),
        ];
        for (name, res, ex) in outs.iter() {
            for k in 0..T::DIM {
                let g = res.nth(k);
                let ok = if k < 2 { close_rel(g, r(ex[k]), 2.0 * rel) } else { bits_eq(g, m[k]) };
                vensure!(ok, format!("tuple-{nm}:{name}"), "{nm}: {name}() element {k} = {g:?}, expected {:?}; input state {}",
                    if k < 2 { r(ex[k]) } else { m[k] }, show(m));
            }
        }
    } else {
        // dimension 1: must not panic; the result is not specified by the AngularUnits documentation
        let _ = (t.to_degrees(), t.to_radians(), t.to_arcsec(), t.to_geo());
    }
    // trait-default scale and dot
    if factor.is_finite() {
        let s = CoordinateTuple::scale(t, factor);
        for k in 0..T::DIM {
            let ex = r(m[k] * factor);
            vensure!(close_rel(s.nth(k), ex, rel), format!("tuple-{nm}:scale(trait)"),
                "{nm}: CoordinateTuple::scale({factor:?}) element {k} = {:?}, expected {:?}; state {}", s.nth(k), ex, show(m));
        }
    }
    // dot: sum of the element products; with non-finite products only what every summation order yields
    let prods: Vec<f64> = (0..T::DIM).map(|k| m[k] * mb[k]).collect();
    let sum_abs: f64 = prods.iter().map(|p| p.abs()).sum();
    let g = CoordinateTuple::dot(t, *o);
    if sum_abs.is_finite() {
        let ex: f64 = prods.iter().sum();
        vensure!((g - ex).abs() <= 16.0 * EPS * sum_abs + f64::MIN_POSITIVE, format!("tuple-{nm}:dot(trait)"),
            "{nm}: CoordinateTuple::dot = {g:?}, sum of element products = {ex:?}; a = {}, b = {}", show(m), show(mb));
        rec.count("dot_compared", 1);
    } else if prods.iter().any(|p| p.is_nan()) {
        vensure!(g.is_nan(), format!("tuple-{nm}:dot(trait)-nan"), "{nm}: CoordinateTuple::dot = {g:?} although an element product is NaN; a = {}, b = {}", show(m), show(mb));
        rec.count("dot_compared_nonfinite", 1);
    } else if prods.iter().all(|p| p.is_finite() || *p > 0.0) || prods.iter().all(|p| p.is_finite() || *p < 0.0) {
        // infinite products of one sign only (an overflowing finite sum is left alone)
        // the finite products must not be able to overflow to the opposite infinity on their own
        let finite_abs: f64 = prods.iter().filter(|p| p.is_finite()).map(|p| p.abs()).sum();
        if prods.iter().any(|p| p.is_infinite()) && finite_abs.is_finite() {
            let ex = if prods.iter().any(|p| *p == f64::INFINITY) { f64::INFINITY } else { f64::NEG_INFINITY };
            vensure!(g == ex, format!("tuple-{nm}:dot(trait)-inf"), "{nm}: CoordinateTuple::dot = {g:?}, expected {ex:?}; a = {}, b = {}", show(m), show(mb));
            rec.count("dot_compared_nonfinite", 1);
        }
    }
    // hypot2 / hypot3: Euclidean norm of the element differences; a missing dimension makes the distance NaN
    let diff = |k: usize| m[k] - mb[k];
    let g2 = t.hypot2(o);
    if T::DIM >= 2 {
        match ref_norm(&[diff(0), diff(1)]) {
            Some(ex) => {
                vensure!(close_rel(g2, ex, 8.0 * EPS), format!("tuple-{nm}:hypot2"), "{nm}: hypot2 = {g2:?}, expected {ex:?}; a = {}, b = {}", show(m), show(mb));
                rec.count(if ex.is_finite() { "hypot_compared_finite" } else { "hypot_compared_nonfinite" }, 1);
            }
            None => rec.count("hypot_inf_and_nan_difference_unspecified", 1),
        }
    } else if diff(0).is_infinite() {
        // 1-D tuple: IEEE hypot(inf, NaN) = inf; neither documented nor guarded: not asserted
        rec.count("hypot2_on_1d_tuple_with_infinite_difference_unspecified", 1);
    } else {
        vensure!(g2.is_nan(), format!("tuple-{nm}:hypot2-missing-dimension"), "{nm}: hypot2 = {g2:?} on a tuple without a second dimension (expected NaN); a = {}, b = {}", show(m), show(mb));
    }
    let g3 = t.hypot3(o);
    if T::DIM >= 3 {
        match ref_norm(&[diff(0), diff(1), diff(2)]) {
            Some(ex) => {
                vensure!(close_rel(g3, ex, 8.0 * EPS), format!("tuple-{nm}:hypot3"), "{nm}: hypot3 = {g3:?}, expected {ex:?}; a = {}, b = {}", show(m), show(mb));
                rec.count(if ex.is_finite() { "hypot_compared_finite" } else { "hypot_compared_nonfinite" }, 1);
            }
            None => rec.count("hypot_inf_and_nan_difference_unspecified", 1),
        }
    } else {
        // the third dimension does not exist: NaN whatever the other elements hold (guard in the default method)
        vensure!(g3.is_nan(), format!("tuple-{nm}:hypot3-missing-dimension"),
            "{nm}: hypot3 = {g3:?} on a tuple of dimension {} (a 3-D distance needs a third element: expected NaN); a = {}, b = {}", T::DIM, show(m), show(mb));
        let infinite = (0..T::DIM).any(|k| diff(k).is_infinite());
        rec.count(if infinite { "hypot3_missing_dimension_infinite_difference" } else { "hypot3_missing_dimension_other" }, 1);
        if infinite {
            rec.class(&format!("hypot3-missing-dim-infinite-diff:{nm}"));
        }
    }
    Ok(())
}

fn check_tuple_generic<T: TK>(c: &TupCase, rec: &mut Rec) -> Result<(Vec<f64>, Vec<f64>), Failure> {
    let nm = T::NAME;
    let r = |v: f64| if T::F32 { v as f32 as f64 } else { v };
    let mut t = T::new(c.fill.0);
    let mut m = vec![r(c.fill.0); T::DIM];
    let mut hist = format!("new({:?})", c.fill.0);
    verify_tuple(&t, &m, "new", &hist)?;
    let mut beyond = false;
    for op in &c.ops {
        match op {
            TupOp::SetNth(n, v) => {
                let n = *n as usize;
                t.set_nth(n, v.0);
                if n < T::DIM {
                    m[n] = r(v.0);
                } else {
                    m.iter_mut().for_each(|x| *x = f64::NAN); // documented: fill with NaN
                    beyond = true;
                }
                hist.push_str(&format!(" | set_nth({n}, {:?})", v.0));
            }
            TupOp::SetXy(x, y) => {
                t.set_xy(x.0, y.0);
                if T::DIM > 1 {
                    m[0] = r(x.0);
                    m[1] = r(y.0);
                } else {
                    m.iter_mut().for_each(|x| *x = f64::NAN);
                    beyond = true;
                }
                hist.push_str(&format!(" | set_xy({:?}, {:?})", x.0, y.0));
            }
            TupOp::SetXyz(x, y, z) => {
                t.set_xyz(x.0, y.0, z.0);
                if T::DIM > 2 {
                    m[0] = r(x.0);
                    m[1] = r(y.0);
                    m[2] = r(z.0);
                } else {
                    m.iter_mut().for_each(|x| *x = f64::NAN);
                    beyond = true;
                }
                hist.push_str(&format!(" | set_xyz({:?}, {:?}, {:?})", x.0, y.0, z.0));
            }
            TupOp::SetXyzt(v) => {
                let v = f4(v);
                t.set_xyzt(v[0], v[1], v[2], v[3]);
                if T::DIM > 3 {
                    for k in 0..4 {
                        m[k] = r(v[k]);
                    }
                } else {
                    m.iter_mut().for_each(|x| *x = f64::NAN);
                    beyond = true;
                }
                hist.push_str(&format!(" | set_xyzt({})", show(&v)));
            }
            TupOp::Update(v) => {
                let v: Vec<f64> = v.iter().map(|x| x.0).collect();
                t.update(&v);
                for k in 0..v.len().min(T::DIM) {
                    m[k] = r(v[k]);
                }
                if v.len() > T::DIM {
                    beyond = true;
                }
                hist.push_str(&format!(" | update({})", show(&v)));
            }
            TupOp::Fill(v) => {
                t.fill(v.0);
                m.iter_mut().for_each(|x| *x = r(v.0));
                hist.push_str(&format!(" | fill({:?})", v.0));
            }
        }
        verify_tuple(&t, &m, op.name(), &hist)?;
    }
    let bv: Vec<f64> = c.b.iter().map(|x| x.0).collect();
    let mut o = T::new(0.0);
    o.update(&bv);
    let mb: Vec<f64> = (0..T::DIM).map(|k| if k < bv.len() { r(bv[k]) } else { 0.0 }).collect();
    verify_tuple(&o, &mb, "update", "new(0) | update(b)")?;
    tuple_math(&t, &m, &o, &mb, c.factor.0, rec)?;
    if !c.a2.is_empty() {
        let av: Vec<f64> = c.a2.iter().map(|x| x.0).collect();
        let mut t2 = T::new(0.0);
        t2.update(&av);
        let m2: Vec<f64> = (0..T::DIM).map(|k| if k < av.len() { r(av[k]) } else { 0.0 }).collect();
        verify_tuple(&t2, &m2, "update", "new(0) | update(a2)")?;
        tuple_math(&t2, &m2, &o, &mb, c.factor.0, rec)?;
        tuple_math(&o, &mb, &t2, &m2, c.factor.0, rec)?;
    }
    rec.class(nm);
    // every case reads nth(n) for n up to 7 >= dim; distinct by kind and history
    let _ = beyond;
    rec.nontrivial(&(c.kind, hist));
    Ok((m, mb))
}

/// Euclidean norm of element differences under IEEE rules; None where an infinite and a NaN
/// difference meet (nested hypot gives +inf, a sum of squares NaN: not specified)
fn ref_norm(d: &[f64]) -> Option<f64> {
    let (nan, inf) = (d.iter().any(|x| x.is_nan()), d.iter().any(|x| x.is_infinite()));
    // norm of the defined differences: may overflow although every difference is finite
    let partial = d.iter().filter(|x| !x.is_nan()).fold(0.0f64, |a, x| a.hypot(*x));
    match (nan, inf) {
        (true, true) => None,
        (true, false) if partial.is_infinite() => None,
        (true, false) => Some(f64::NAN),
        (false, true) => Some(f64::INFINITY),
        _ => Some(d.iter().fold(0.0f64, |a, x| a.hypot(*x))),
    }
}

/// |got - exp| <= tol element-wise (NaN = NaN, equal infinities accepted)
fn expect_vec(key: String, what: &str, got: &[f64], exp: &[f64], tol: &[f64]) -> CaseResult {
    for k in 0..exp.len() {
        let ok = bits_eq(got[k], exp[k]) || (got[k] - exp[k]).abs() <= tol[k];
        vensure!(ok, key, "{what}: element {k} = {:?}, expected {:?} (tolerance {:e}); got {} expected {}", got[k], exp[k], tol[k], show(got), show(exp));
    }
    Ok(())
}

macro_rules! arith_check {
    ($nm:expr, $a:expr, $b:expr, $n:expr, $ea:ty) => {{
        let (a, b) = ($a, $b);
        let got = [
            ("+", (a + b).0, (a + &b).0),
            ("-", (a - b).0, (a - &b).0),
            ("*", (a * b).0, (a * &b).0),
            ("/", (a / b).0, (a / &b).0),
        ];
        for (sym, byval, byref) in got {
            for k in 0..$n {
                let (x, y) = (a.0[k] as $ea, b.0[k] as $ea);
                let e = match sym {
                    "+" => x + y,
                    "-" => x - y,
                    "*" => x * y,
                    _ => x / y,
                };
                vensure!(bits_eq(byval[k] as f64, e as f64) && bits_eq(byref[k] as f64, e as f64), format!("tuple-{}:operator{}", $nm, sym),
                    "{}: (a {sym} b)[{k}] = {:?} (by value) / {:?} (by reference), element-wise {:?} {sym} {:?} = {:?}", $nm, byval[k], byref[k], x, y, e);
            }
        }
    }};
}

/// constructors of the four native types against their documented element order / units
fn ctor_expect(c: &TupCase, f32: bool) -> (Vec<(&'static str, [f64; 4], [f64; 4])>, [f64; 8]) {
    let (lat, lon) = (c.lat.dd(), c.lon.dd());
    let h = c.b.get(2).map(|x| x.0).unwrap_or(0.0);
    let t = c.b.get(3).map(|x| x.0).unwrap_or(0.0);
    let relang = if f32 { 2.0 * EPS32 } else { 8.0 * EPS };
    // f32 storage: relative rounding plus one f32 subnormal step
    let iso_tol = |dd: f64| tol_deg(dd).to_radians() + if f32 { 2.0 * EPS32 * dd.to_radians().abs() + 1.5e-45 } else { 0.0 };
    let ang = |dd: f64| relang * dd.to_radians().abs() + if f32 { 1.5e-45 } else { 1e-300 };
    let exp = [lon.to_radians(), lat.to_radians(), h, t];
    let list = vec![
        ("geo", exp, [ang(lon), ang(lat), 0.0, 0.0]),
        ("gis", exp, [ang(lon), ang(lat), 0.0, 0.0]),
        ("arcsec", exp, [2.0 * ang(lon), 2.0 * ang(lat), 0.0, 0.0]),
        ("iso_dm", exp, [iso_tol(lon), iso_tol(lat), 0.0, 0.0]),
        ("iso_dms", exp, [iso_tol(lon), iso_tol(lat), 0.0, 0.0]),
    ];
    (list, [lat, lon, h, t, c.lat.enc_dm(), c.lon.enc_dm(), c.lat.enc_dms(), c.lon.enc_dms()])
}

fn to32(v: &[f64]) -> Vec<f64> {
    v.iter().map(|x| *x as f32 as f64).collect()
}

fn check_tuple(c: &TupCase, rec: &mut Rec) -> CaseResult {
    let kind = (c.kind as usize).min(TUP_KINDS - 1);
    let f = c.factor.0;
    let ctx = format!("lat {} lon {}", c.lat.text(), c.lon.text());
    match kind {
        0 => {
            let (m, mb) = check_tuple_generic::<Coor2D>(c, rec)?;
            let (a, b) = (Coor2D([m[0], m[1]]), Coor2D([mb[0], mb[1]]));
            arith_check!("Coor2D", a, b, 2, f64);
            let b32 = Coor32([mb[0] as f32, mb[1] as f32]);
            arith_check!("Coor2D-Coor32", a, b32, 2, f64);
            if f.is_finite() {
                let s = a.scale(f);
                expect_vec("tuple-Coor2D:scale".into(), "Coor2D::scale", &s.0, &[m[0] * f, m[1] * f], &[(4.0 * EPS * m[0] * f).abs(), (4.0 * EPS * m[1] * f).abs()])?;
            }
            let sa = (m[0] * mb[0]).abs() + (m[1] * mb[1]).abs();
            if sa.is_finite() {
                let g = a.dot(b);
                vensure!((g - (m[0] * mb[0] + m[1] * mb[1])).abs() <= 16.0 * EPS * sa, "tuple-Coor2D:dot", "Coor2D::dot({}, {}) = {g:?}", show(&m), show(&mb));
            }
            let (list, v) = ctor_expect(c, false);
            let got = [
                Coor2D::geo(v[0], v[1]),
                Coor2D::gis(v[1], v[0]),
                Coor2D::arcsec(v[1] * 3600.0, v[0] * 3600.0),
                Coor2D::iso_dm(v[4], v[5]),
                Coor2D::iso_dms(v[6], v[7]),
            ];
            for (i, (name, exp, tol)) in list.iter().enumerate() {
                expect_vec(format!("tuple-Coor2D:ctor-{name}"), &format!("Coor2D::{name} ({ctx})"), &got[i].0, &exp[..2], &tol[..2])?;
            }
            expect_vec("tuple-Coor2D:ctor-raw".into(), "Coor2D::raw", &Coor2D::raw(v[0], v[1]).0, &[v[0], v[1]], &[0.0; 2])?;
            expect_vec("tuple-Coor2D:ctor-const".into(), "Coor2D::nan/origin/ones",
                &[Coor2D::nan().0, Coor2D::origin().0, Coor2D::ones().0].concat(), &[f64::NAN, f64::NAN, 0., 0., 1., 1.], &[0.0; 6])?;
        }
        1 => {
            let (m, mb) = check_tuple_generic::<Coor3D>(c, rec)?;
            let (a, b) = (Coor3D([m[0], m[1], m[2]]), Coor3D([mb[0], mb[1], mb[2]]));
            arith_check!("Coor3D", a, b, 3, f64);
            if f.is_finite() {
                let s = a.scale(f);
                let ex: Vec<f64> = m.iter().map(|x| x * f).collect();
                let tol: Vec<f64> = ex.iter().map(|x| (4.0 * EPS * x).abs()).collect();
                expect_vec("tuple-Coor3D:scale".into(), "Coor3D::scale", &s.0, &ex, &tol)?;
            }
            let sa: f64 = (0..3).map(|k| (m[k] * mb[k]).abs()).sum();
            if sa.is_finite() {
                let g = a.dot(b);
                let ex: f64 = (0..3).map(|k| m[k] * mb[k]).sum();
                vensure!((g - ex).abs() <= 16.0 * EPS * sa, "tuple-Coor3D:dot", "Coor3D::dot({}, {}) = {g:?} expected {ex:?}", show(&m), show(&mb));
            }
            let (list, v) = ctor_expect(c, false);
            let got = [
                Coor3D::geo(v[0], v[1], v[2]),
                Coor3D::gis(v[1], v[0], v[2]),
                Coor3D::arcsec(v[1] * 3600.0, v[0] * 3600.0, v[2]),
                Coor3D::iso_dm(v[4], v[5], v[2]),
                Coor3D::iso_dms(v[6], v[7], v[2]),
            ];
            for (i, (name, exp, tol)) in list.iter().enumerate() {
                expect_vec(format!("tuple-Coor3D:ctor-{name}"), &format!("Coor3D::{name} ({ctx})"), &got[i].0, &exp[..3], &tol[..3])?;
            }
            expect_vec("tuple-Coor3D:ctor-raw".into(), "Coor3D::raw", &Coor3D::raw(v[0], v[1], v[2]).0, &[v[0], v[1], v[2]], &[0.0; 3])?;
            expect_vec("tuple-Coor3D:ctor-const".into(), "Coor3D::nan/origin/ones",
                &[Coor3D::nan().0, Coor3D::origin().0, Coor3D::ones().0].concat(), &[f64::NAN, f64::NAN, f64::NAN, 0., 0., 0., 1., 1., 1.], &[0.0; 9])?;
        }
        2 => {
            let (m, mb) = check_tuple_generic::<Coor4D>(c, rec)?;
            let (a, b) = (Coor4D([m[0], m[1], m[2], m[3]]), Coor4D([mb[0], mb[1], mb[2], mb[3]]));
            arith_check!("Coor4D", a, b, 4, f64);
            let (list, v) = ctor_expect(c, false);
            let got = [
                Coor4D::geo(v[0], v[1], v[2], v[3]),
                Coor4D::gis(v[1], v[0], v[2], v[3]),
                Coor4D::arcsec(v[1] * 3600.0, v[0] * 3600.0, v[2], v[3]),
                Coor4D::iso_dm(v[4], v[5], v[2], v[3]),
                Coor4D::iso_dms(v[6], v[7], v[2], v[3]),
            ];
            for (i, (name, exp, tol)) in list.iter().enumerate() {
                expect_vec(format!("tuple-Coor4D:ctor-{name}"), &format!("Coor4D::{name} ({ctx})"), &got[i].0, &exp[..], &tol[..])?;
            }
            expect_vec("tuple-Coor4D:ctor-raw".into(), "Coor4D::raw", &Coor4D::raw(v[0], v[1], v[2], v[3]).0, &v[..4], &[0.0; 4])?;
            expect_vec("tuple-Coor4D:ctor-const".into(), "Coor4D::nan/origin/ones",
                &[Coor4D::nan().0, Coor4D::origin().0, Coor4D::ones().0].concat(),
                &[f64::NAN, f64::NAN, f64::NAN, f64::NAN, 0., 0., 0., 0., 1., 1., 1., 1.], &[0.0; 12])?;
        }
        3 => {
            let (m, mb) = check_tuple_generic::<Coor32>(c, rec)?;
            let (a, b) = (Coor32([m[0] as f32, m[1] as f32]), Coor32([mb[0] as f32, mb[1] as f32]));
            arith_check!("Coor32", a, b, 2, f32);
            let sane = |x: f64| x == 0.0 || (x.is_finite() && x.abs() > 1e-30 && x.abs() < 1e30);
            if sane(f) && f != 0.0 {
                let s = a.scale(f);
                for k in 0..2 {
                    let ex = m[k] * f;
                    if sane(ex) && sane(m[k]) {
                        vensure!((s.0[k] as f64 - ex).abs() <= 4.0 * EPS32 * ex.abs(), "tuple-Coor32:scale",
                            "Coor32::scale({f:?}) element {k} = {:?}, element times factor = {ex:?} (f32 tolerance)", s.0[k]);
                        rec.count("coor32_scale_compared", 1);
                    }
                }
            }
            let sa = (m[0] * mb[0]).abs() + (m[1] * mb[1]).abs();
            if sa.is_finite() {
                let g = a.dot(b);
                vensure!((g - (m[0] * mb[0] + m[1] * mb[1])).abs() <= 16.0 * EPS * sa, "tuple-Coor32:dot", "Coor32::dot({}, {}) = {g:?}", show(&m), show(&mb));
            }
            let (list, v) = ctor_expect(c, true);
            let got = [
                Coor32::geo(v[0], v[1]),
                Coor32::gis(v[1], v[0]),
                Coor32::arcsec(v[1] * 3600.0, v[0] * 3600.0),
                Coor32::iso_dm(v[4], v[5]),
                Coor32::iso_dms(v[6], v[7]),
            ];
            for (i, (name, exp, tol)) in list.iter().enumerate() {
                let g = [got[i].0[0] as f64, got[i].0[1] as f64];
                expect_vec(format!("tuple-Coor32:ctor-{name}"), &format!("Coor32::{name} ({ctx})"), &g, &exp[..2], &tol[..2])?;
            }
            let g = Coor32::raw(v[0], v[1]);
            expect_vec("tuple-Coor32:ctor-raw".into(), "Coor32::raw", &[g.0[0] as f64, g.0[1] as f64], &to32(&v[..2]), &[0.0; 2])?;
            let k = [Coor32::nan().0, Coor32::origin().0, Coor32::ones().0].concat();
            let k: Vec<f64> = k.iter().map(|x| *x as f64).collect();
            expect_vec("tuple-Coor32:ctor-const".into(), "Coor32::nan/origin/ones", &k, &[f64::NAN, f64::NAN, 0., 0., 1., 1.], &[0.0; 6])?;
        }
        4 => {
            check_tuple_generic::<(f64, f64)>(c, rec)?;
        }
        5 => {
            check_tuple_generic::<Abscissa>(c, rec)?;
        }
        6 => {
            check_tuple_generic::<Enu>(c, rec)?;
        }
        _ => {
            check_tuple_generic::<Five>(c, rec)?;
        }
    }
    Ok(())
}

fn sexa_strategy() -> impl Strategy<Value = Sexa> {
    let s = prop_oneof![
        2 => Just(0.0f64),
        2 => (0u8..60).prop_map(|v| v as f64),
        3 => (1i32..15).prop_map(|e| 60.0 - 10f64.powi(-e)),
        2 => (1i32..300).prop_map(|e| 10f64.powi(-e)),
        2 => (0u32..60_000).prop_map(|v| v as f64 / 1000.0),
        4 => 0.0f64..60.0,
    ]
    .prop_map(|s| if s < 60.0 { s } else { 59.99999999999999 });
    let d = prop_oneof![3 => Just(0u16), 1 => Just(1u16), 6 => 0u16..720, 1 => Just(719u16)];
    let m = prop_oneof![2 => Just(0u8), 2 => Just(59u8), 6 => 0u8..60];
    (any::<bool>(), d, m, s).prop_map(|(neg, d, m, s)| Sexa { neg, d, m, s: F(s) })
}

/// all f64 classes plus magnitudes whose differences overflow and values around / beyond f32::MAX
fn tup_f64() -> impl Strategy<Value = F> {
    prop_oneof![
        12 => any_f64_class(),
        1 => Just(F(-f64::MAX)),
        1 => Just(F(f64::MAX)),
        1 => Just(F(1.0e308)),
        1 => Just(F(-1.0e308)),
        1 => Just(F(f64::INFINITY)),
        1 => Just(F(f64::NEG_INFINITY)),
        1 => Just(F(3.4028234663852886e38)), // f32::MAX
        1 => Just(F(-3.4028234663852886e38)),
        1 => Just(F(3.5e38)), // beyond f32::MAX: a Coor32 stores +inf
        1 => Just(F(-3.5e38)),
        1 => Just(F(1.0e39)),
    ]
}

fn tup_op_strategy() -> impl Strategy<Value = TupOp> {
    prop_oneof![
        4 => (0u8..8, tup_f64()).prop_map(|(n, v)| TupOp::SetNth(n, v)),
        2 => (tup_f64(), tup_f64()).prop_map(|(x, y)| TupOp::SetXy(x, y)),
        2 => (tup_f64(), tup_f64(), tup_f64()).prop_map(|(x, y, z)| TupOp::SetXyz(x, y, z)),
        2 => [tup_f64(), tup_f64(), tup_f64(), tup_f64()].prop_map(TupOp::SetXyzt),
        3 => prop::collection::vec(tup_f64(), 0..8).prop_map(TupOp::Update),
        1 => tup_f64().prop_map(TupOp::Fill),
    ]
}

fn tup_case_strategy() -> impl Strategy<Value = TupCase> {
    (
        0u8..TUP_KINDS as u8,
        tup_f64(),
        prop::collection::vec(tup_op_strategy(), 0..7),
        prop::collection::vec(tup_f64(), 5..=5),
        prop_oneof![4 => (-1.0e3f64..1.0e3).prop_map(F), 1 => tup_f64()],
        sexa_strategy(),
        sexa_strategy(),
        prop::collection::vec(tup_f64(), 5..=5),
    )
        .prop_map(|(kind, fill, ops, b, factor, lat, lon, a2)| TupCase { kind, fill, ops, b, factor, lat, lon, a2 })
}


// =====================================================================================
// Angles
// =====================================================================================

use std::f64::consts::{PI, TAU};

/// Tolerance in degrees for one conversion (or a round trip) of the angle `dd`:
/// calibrated floor + relative term, never looser than the 1e-11 degrees of the plan.
fn tol_deg(dd: f64) -> f64 {
    (1.0e-15 + 4.0e-15 * dd.abs()).min(1.0e-11)
}
const NORM_TOL: f64 = 1.0e-12;

/// Independent decoder of DDDMM.mmm written from the format definition:
/// the two digits left of the decimal point plus the fraction are minutes, the rest degrees.
/// Returns (decimal degrees, minutes field).
fn ref_decode_dm(v: f64) -> (f64, f64) {
    let a = v.abs();
    let ai = a.trunc();
    let frac = a - ai; // exact
    let i = ai as u64;
    let d = (i / 100) as f64;
    let m = (i % 100) as f64 + frac;
    let dd = d + m / 60.0;
    (if v.is_sign_negative() { -dd } else { dd }, m)
}

/// Independent decoder of DDDMMSS.sss. Returns (decimal degrees, minutes field, seconds field).
fn ref_decode_dms(v: f64) -> (f64, f64, f64) {
    let a = v.abs();
    let ai = a.trunc();
    let frac = a - ai;
    let i = ai as u64;
    let d = (i / 10000) as f64;
    let m = ((i / 100) % 100) as f64;
    let s = (i % 100) as f64 + frac;
    let dd = d + (m * 60.0 + s) / 3600.0;
    (if v.is_sign_negative() { -dd } else { dd }, m, s)
}

/// Per-batch accumulator (Rec::metric allocates; flush once per case)
#[derive(Default)]
struct Acc {
    worst: [f64; 12],
    points: u64,
    frac_sec: u64,
    sub_degree: u64,
    neg_sub_degree: u64,
    carry_min60: u64,
    carry_sec60: u64,
    closed_end: u64,
    zero_deg: u64,
    unrepresentable: u64,
    sexa_points: u64,
    parse_points: u64,
    op_points: u64,
}
const W_ENC_DM: usize = 0;
const W_ENC_DMS: usize = 1;
const W_RT_DM: usize = 2;
const W_RT_DMS: usize = 3;
const W_DEC_DM: usize = 4;
const W_DEC_DMS: usize = 5;
const W_DMS_TO_DD: usize = 6;
const W_UNITS: usize = 7;
const W_NORM: usize = 8;
const W_OP: usize = 9;
const W_PARSE: usize = 10;
const W_REV: usize = 11;
const W_NAMES: [&str; 12] = [
    "enc_dm_vs_ref_decoder_over_tol", "enc_dms_vs_ref_decoder_over_tol", "roundtrip_dm_over_tol", "roundtrip_dms_over_tol",
    "iso_dm_to_dd_over_tol", "iso_dms_to_dd_over_tol", "dms_to_dd_dm_to_dd_over_tol", "unit_conversions_over_tol",
    "normalize_residual_rad", "dm_dms_operator_over_tol", "parse_sexagesimal_over_tol", "reverse_composition_over_tol",
];
impl Acc {
    #[inline]
    fn w(&mut self, i: usize, v: f64) {
        if v > self.worst[i] {
            self.worst[i] = v;
        }
    }
    fn flush(&self, rec: &mut Rec) {
        for (i, n) in W_NAMES.iter().enumerate() {
            if self.worst[i] > 0.0 {
                rec.metric(n, self.worst[i]);
            }
        }
        let c = [
            ("points", self.points), ("points_fractional_seconds", self.frac_sec), ("points_below_one_degree", self.sub_degree),
            ("points_negative_below_one_degree", self.neg_sub_degree), ("encoder_minutes_field_60", self.carry_min60),
            ("encoder_seconds_field_60", self.carry_sec60), ("normalize_closed_end_hits", self.closed_end),
            ("dms_to_dd_with_zero_degrees", self.zero_deg), ("negative_zero_degree_not_expressible_in_dms_to_dd", self.unrepresentable),
            ("sexagesimal_triples", self.sexa_points), ("parse_sexagesimal_strings", self.parse_points), ("operator_points", self.op_points),
        ];
        for (k, v) in c {
            if v > 0 {
                rec.count(k, v);
            }
        }
    }
}

/// All checks that start from a decimal degree value in [-720, 720].
fn check_dd(dd: f64, acc: &mut Acc) -> CaseResult {
    let tol = tol_deg(dd);
    acc.points += 1;
    if dd.abs() < 1.0 && dd != 0.0 {
        acc.sub_degree += 1;
        if dd < 0.0 {
            acc.neg_sub_degree += 1;
        }
    }
    // --- DDDMM.mmm
    let e = angular::dd_to_iso_dm(dd);
    let (rd, mf) = ref_decode_dm(e);
    let err = (rd - dd).abs();
    acc.w(W_ENC_DM, err / tol);
    vensure!(err <= tol, "dd_to_iso_dm-wrong-encoding",
        "dd_to_iso_dm({dd:?}) = {e:?}, which reads as {rd:?} degrees under the DDDMM.mmm definition (minutes field {mf:?}); error {err:e} deg > {tol:e}");
    vensure!(mf <= 60.0, "dd_to_iso_dm-minutes-field", "dd_to_iso_dm({dd:?}) = {e:?} has minutes field {mf:?} > 60");
    if mf == 60.0 {
        acc.carry_min60 += 1;
    }
    vensure!(dd == 0.0 || e.is_sign_negative() == dd.is_sign_negative(), "dd_to_iso_dm-sign", "dd_to_iso_dm({dd:?}) = {e:?}: sign lost");
    let back = angular::iso_dm_to_dd(e);
    let err = (back - dd).abs();
    acc.w(W_RT_DM, err / tol);
    vensure!(err <= tol, "iso_dm-roundtrip",
        "iso_dm_to_dd(dd_to_iso_dm({dd:?})) = iso_dm_to_dd({e:?}) = {back:?}: loss {err:e} deg > {tol:e}");
    // --- DDDMMSS.sss
    let e = angular::dd_to_iso_dms(dd);
    let (rd, mf, sf) = ref_decode_dms(e);
    let err = (rd - dd).abs();
    acc.w(W_ENC_DMS, err / tol);
    vensure!(err <= tol, "dd_to_iso_dms-wrong-encoding",
        "dd_to_iso_dms({dd:?}) = {e:?}, which reads as {rd:?} degrees under the DDDMMSS.sss definition (minutes {mf:?}, seconds {sf:?}); error {err:e} deg > {tol:e}");
    vensure!(mf <= 59.0 && sf <= 60.0, "dd_to_iso_dms-field-range", "dd_to_iso_dms({dd:?}) = {e:?} has minutes field {mf:?}, seconds field {sf:?}");
    if sf == 60.0 {
        acc.carry_sec60 += 1;
    }
    vensure!(dd == 0.0 || e.is_sign_negative() == dd.is_sign_negative(), "dd_to_iso_dms-sign", "dd_to_iso_dms({dd:?}) = {e:?}: sign lost");
    let back = angular::iso_dms_to_dd(e);
    let err = (back - dd).abs();
    acc.w(W_RT_DMS, err / tol);
    vensure!(err <= tol, "iso_dms-roundtrip",
        "iso_dms_to_dd(dd_to_iso_dms({dd:?})) = iso_dms_to_dd({e:?}) = {back:?}: loss {err:e} deg > {tol:e}");
    // --- degrees / radians / arc seconds on tuples
    let c = Coor4D::raw(dd, -dd, 3.0, 4.0);
    let r = c.to_radians();
    let rad = dd * (PI / 180.0);
    vensure!((r[0] - rad).abs() <= 4.0 * EPS * rad.abs() && (r[1] + rad).abs() <= 4.0 * EPS * rad.abs() && r[2] == 3.0 && r[3] == 4.0,
        "to_radians-elementwise", "Coor4D({dd:?}, {:?}, 3, 4).to_radians() = {}, expected first elements +-{rad:?}, rest untouched", -dd, fmt_c4(&r));
    let g = r.to_degrees();
    let a = r.to_arcsec();
    let q = r.to_geo();
    let errs = [(g[0] - dd).abs(), (g[1] + dd).abs(), (a[0] / 3600.0 - dd).abs(), (a[1] / 3600.0 + dd).abs(), (q[1] - dd).abs(), (q[0] + dd).abs()];
    let worst = errs.iter().cloned().fold(0.0, f64::max);
    acc.w(W_UNITS, worst / tol);
    vensure!(worst <= tol && g[2] == 3.0 && g[3] == 4.0 && a[2] == 3.0 && a[3] == 4.0 && q[2] == 3.0 && q[3] == 4.0, "degree-radian-arcsec-roundtrip",
        "from ({dd:?}, {:?}, 3, 4) degrees: to_radians() then to_degrees() = {}, to_arcsec() = {}, to_geo() = {}; worst loss {worst:e} deg > {tol:e} or other elements touched",
        -dd, fmt_c4(&g), fmt_c4(&a), fmt_c4(&q));
    // --- normalisation
    check_norm(dd.to_radians(), acc)
}

fn check_norm(a: f64, acc: &mut Acc) -> CaseResult {
    let s = angular::normalize_symmetric(a);
    let p = angular::normalize_positive(a);
    for (name, v, lo, hi) in [("normalize_symmetric", s, -PI, PI), ("normalize_positive", p, 0.0, TAU)] {
        vensure!(v >= lo && v <= hi, format!("{name}-range"), "{name}({a:?}) = {v:?} is outside [{lo:?}, {hi:?}]");
        if v == hi {
            acc.closed_end += 1; // f64 PI (2 PI) is below the real pi (2 pi): inside the stated half-open range
        }
        let d = v - a;
        let k = (d / TAU).round();
        let res = (d - k * TAU).abs();
        acc.w(W_NORM, res);
        vensure!(res <= NORM_TOL, format!("{name}-not-equivalent"), "{name}({a:?}) = {v:?} differs from the input by {d:?} = {k} turns + {res:e} rad (> {NORM_TOL:e})");
    }
    Ok(())
}

/// All checks that start from sexagesimal digits (a valid encoding by construction).
fn check_sexa(x: &Sexa, acc: &mut Acc) -> CaseResult {
    let dd = x.dd();
    let tol = tol_deg(dd);
    acc.sexa_points += 1;
    if x.s.0 != x.s.0.trunc() {
        acc.frac_sec += 1;
    }
    let (e_dm, e_dms) = (x.enc_dm(), x.enc_dms());
    let g = angular::iso_dm_to_dd(e_dm);
    let err = (g - dd).abs();
    acc.w(W_DEC_DM, err / tol);
    vensure!(err <= tol, "iso_dm_to_dd-wrong", "iso_dm_to_dd({e_dm:?}) = {g:?}, but {} is {dd:?} degrees; error {err:e} > {tol:e}", x.text());
    let g2 = angular::iso_dms_to_dd(e_dms);
    let err = (g2 - dd).abs();
    acc.w(W_DEC_DMS, err / tol);
    vensure!(err <= tol, "iso_dms_to_dd-wrong", "iso_dms_to_dd({e_dms:?}) = {g2:?}, but {} is {dd:?} degrees; error {err:e} > {tol:e}", x.text());
    // reverse compositions: encode(decode(valid encoding)) must denote the same angle
    let (r1, _) = ref_decode_dm(angular::dd_to_iso_dm(g));
    let (r2, _, _) = ref_decode_dms(angular::dd_to_iso_dms(g2));
    let err = (r1 - dd).abs().max((r2 - dd).abs());
    acc.w(W_REV, err / tol);
    vensure!(err <= 2.0 * tol, "encode-after-decode",
        "dd_to_iso_dm(iso_dm_to_dd({e_dm:?})) reads as {r1:?}, dd_to_iso_dms(iso_dms_to_dd({e_dms:?})) reads as {r2:?}; the encodings denote {dd:?} ({}); error {err:e} > {:e}", x.text(), 2.0 * tol);
    // dms_to_dd / dm_to_dd: sign is carried by the integer degrees
    if x.d == 0 && dd != 0.0 && x.neg {
        acc.unrepresentable += 1; // -0 degrees cannot be passed as an i32
    } else {
        // zero degrees: own keys (defect class repaired by 5c65918, see section sexagesimal-zero-degrees)
        let (k1, k2) = if x.d == 0 { ("dms_to_dd-zero-degrees-signum", "dm_to_dd-zero-degrees-signum") } else { ("dms_to_dd-wrong", "dm_to_dd-wrong") };
        if x.d == 0 {
            acc.zero_deg += 1;
        }
        let d = if x.neg { -(x.d as i32) } else { x.d as i32 };
        let a = angular::dms_to_dd(d, x.m as u16, x.s.0);
        let minutes = x.m as f64 + x.s.0 / 60.0;
        let b = angular::dm_to_dd(d, minutes);
        let err = (a - dd).abs().max((b - dd).abs());
        acc.w(W_DMS_TO_DD, err / tol);
        vensure!((a - dd).abs() <= tol, k1, "dms_to_dd({d}, {}, {:?}) = {a:?}, expected d + m/60 + s/3600 with the sign of d = {dd:?}; error {:e} > {tol:e}", x.m, x.s.0, (a - dd).abs());
        vensure!((b - dd).abs() <= tol, k2, "dm_to_dd({d}, {minutes:?}) = {b:?}, expected d + m/60 with the sign of d = {dd:?}; error {:e} > {tol:e}", (b - dd).abs());
    }
    Ok(())
}

/// parse_sexagesimal on the documented spellings D:M:S, D:M:S<NSEW>, -D:M:S, D:M, D
fn check_parse(x: &Sexa, variant: u8, acc: &mut Acc) -> CaseResult {
    let dd = x.dd();
    let tol = tol_deg(dd);
    let minutes = x.m as f64 + x.s.0 / 60.0;
    let (text, expect) = match variant % 6 {
        0 => (format!("{}{}:{}:{}", if x.neg { "-" } else { "" }, x.d, x.m, x.s.0), dd),
        1 => (format!("{}:{}:{}{}", x.d, x.m, x.s.0, if x.neg { "S" } else { "N" }), dd),
        2 => (format!("{}:{}:{}{}", x.d, x.m, x.s.0, if x.neg { "w" } else { "e" }), dd),
        3 => (format!("{}{}:{}", if x.neg { "-" } else { "" }, x.d, minutes), dd),
        4 => (format!(" {}{:02}:{:02}:{}{} ", if x.neg { "-" } else { "+" }, x.d, x.m, x.s.0, ""), dd),
        _ => (format!("{}", dd), dd),
    };
    // `{}` of an f64 never uses exponent notation; values like 1e-300 print as long decimals, which parse back exactly
    let g = angular::parse_sexagesimal(&text);
    let err = (g - expect).abs();
    acc.parse_points += 1;
    acc.w(W_PARSE, err / tol);
    vensure!(err <= tol, "parse_sexagesimal-wrong", "parse_sexagesimal({text:?}) = {g:?}, expected {expect:?}; error {err:e} > {tol:e}");
    Ok(())
}

struct OpCtx {
    ctx: Minimal,
    dm: OpHandle,
    dms: OpHandle,
}
fn op_ctx() -> Result<OpCtx, Failure> {
    let mut ctx = Minimal::default();
    let dm = match try_op(&mut ctx, "dm") {
        Ok(Ok(h)) => h,
        other => return fail("dm-operator-unavailable", format!("ctx.op(\"dm\") failed: {other:?}")),
    };
    let dms = match try_op(&mut ctx, "dms") {
        Ok(Ok(h)) => h,
        other => return fail("dms-operator-unavailable", format!("ctx.op(\"dms\") failed: {other:?}")),
    };
    Ok(OpCtx { ctx, dm, dms })
}

fn apply_checked(o: &OpCtx, dms: bool, fwd: bool, data: &mut dyn CoordinateSet, n: usize) -> CaseResult {
    let name = if dms { "dms" } else { "dm" };
    let h = if dms { o.dms } else { o.dm };
    match try_apply(&o.ctx, h, dir_of(fwd), data) {
        Err(p) => vfail!(format!("panic-apply@{}", p.sig()), "applying '{name}' ({}) panics: {} at {}:{}", if fwd { "fwd" } else { "inv" }, p.msg, p.file, p.line),
        Ok(Err(e)) => vfail!(format!("{name}-operator-error"), "apply of '{name}' returned {e:?}"),
        Ok(Ok(c)) => vensure!(c == n, format!("{name}-operator-count"), "'{name}' ({}) on {n} tuples reports {c} successes", if fwd { "fwd" } else { "inv" }),
    }
    Ok(())
}

/// dm / dms operators through Context::apply.
/// `pts`: (latitude, longitude) both as decimal degrees and as valid encodings.
/// container: 0 Vec<Coor4D>, 1 Vec<Coor3D>, 2 Vec<Coor2D>
fn check_operators(o: &OpCtx, dms: bool, container: u8, pts: &[(Sexa, Sexa)], acc: &mut Acc) -> CaseResult {
    let name = if dms { "dms" } else { "dm" };
    let n = pts.len();
    let enc = |x: &Sexa| if dms { x.enc_dms() } else { x.enc_dm() };
    let dec = |v: f64| if dms { ref_decode_dms(v).0 } else { ref_decode_dm(v).0 };
    let input: Vec<[f64; 4]> = pts.iter().enumerate().map(|(i, (la, lo))| [enc(la), enc(lo), 10.0 + i as f64, 2000.0 + i as f64]).collect();
    let read = |s: &dyn CoordinateSet| -> Vec<[f64; 4]> { (0..s.len()).map(|i| s.get_coord(i).0).collect() };
    // route: valid encodings -> Fwd -> internal radians -> Inv -> encodings
    let (fwd_out, inv_out, keep): (Vec<[f64; 4]>, Vec<[f64; 4]>, usize) = match container % 3 {
        0 => {
            let mut d: Vec<Coor4D> = input.iter().map(mk4).collect();
            apply_checked(o, dms, true, &mut d, n)?;
            let f = read(&d);
            apply_checked(o, dms, false, &mut d, n)?;
            (f, read(&d), 4)
        }
        1 => {
            let mut d: Vec<Coor3D> = input.iter().map(mk3).collect();
            apply_checked(o, dms, true, &mut d, n)?;
            let f = read(&d);
            apply_checked(o, dms, false, &mut d, n)?;
            (f, read(&d), 3)
        }
        _ => {
            let mut d: Vec<Coor2D> = input.iter().map(mk2).collect();
            apply_checked(o, dms, true, &mut d, n)?;
            let f = read(&d);
            apply_checked(o, dms, false, &mut d, n)?;
            (f, read(&d), 2)
        }
    };
    for (i, (la, lo)) in pts.iter().enumerate() {
        acc.op_points += 1;
        let (lat, lon) = (la.dd(), lo.dd());
        let (tl, to) = (2.0 * tol_deg(lat), 2.0 * tol_deg(lon));
        let f = fwd_out[i];
        let (e0, e1) = ((f[0].to_degrees() - lon).abs(), (f[1].to_degrees() - lat).abs());
        acc.w(W_OP, (e0 / to).max(e1 / tl));
        vensure!(e0 <= to && e1 <= tl, format!("{name}-operator-fwd"),
            "'{name}' fwd: input (lat, lon) = ({:?}, {:?}) i.e. ({}, {}) gives (lon, lat) = ({:?}, {:?}) degrees, expected ({lon:?}, {lat:?}); error ({e0:e}, {e1:e}) > ({to:e}, {tl:e})",
            input[i][0], input[i][1], la.text(), lo.text(), f[0].to_degrees(), f[1].to_degrees());
        let b = inv_out[i];
        let (e0, e1) = ((dec(b[0]) - lat).abs(), (dec(b[1]) - lon).abs());
        acc.w(W_OP, (e0 / tl).max(e1 / to));
        vensure!(e0 <= tl && e1 <= to, format!("{name}-operator-roundtrip"),
            "'{name}' fwd then inv: ({:?}, {:?}) comes back as ({:?}, {:?}), which reads as ({:?}, {:?}) degrees instead of ({lat:?}, {lon:?}); error ({e0:e}, {e1:e})",
            input[i][0], input[i][1], b[0], b[1], dec(b[0]), dec(b[1]));
        for k in 2..4 {
            let exp = if k < keep { input[i][k] } else if k == 2 { 0.0 } else { f64::NAN };
            vensure!(bits_eq(f[k], exp) && bits_eq(b[k], exp), format!("{name}-operator-touches-other-elements"),
                "'{name}': element {k} of tuple {i} was {:?}, reads {:?} after fwd and {:?} after inv", exp, f[k], b[k]);
        }
    }
    Ok(())
}


// =====================================================================================
// Angle cases
// =====================================================================================

#[derive(Clone, Debug, Serialize, Deserialize)]
struct LatticeCase {
    /// lattice points per arc second (power of two, so that the seconds are exact in binary)
    q: u32,
    k0: i64,
    n: u32,
}

fn lattice_sexa(k: i64, q: u32) -> Sexa {
    let a = k.unsigned_abs();
    let per_deg = 3600 * q as u64;
    let per_min = 60 * q as u64;
    let d = a / per_deg;
    let rem = a % per_deg;
    let m = rem / per_min;
    let s = (rem % per_min) as f64 / q as f64;
    Sexa { neg: k < 0, d: d as u16, m: m as u8, s: F(s) }
}

fn check_lattice(c: &LatticeCase, rec: &mut Rec) -> CaseResult {
    vensure!(c.q.is_power_of_two() && c.q <= 4096, "bad-case", "q must be a power of two <= 4096");
    let kmax = 720 * 3600 * c.q as i64;
    let mut acc = Acc::default();
    let o = op_ctx()?;
    let mut pts: Vec<(Sexa, Sexa)> = Vec::with_capacity(c.n as usize);
    let r = (|| {
        for k in c.k0..(c.k0 + c.n as i64).min(kmax + 1) {
            let x = lattice_sexa(k, c.q);
            check_dd(x.dd(), &mut acc)?;
            check_sexa(&x, &mut acc)?;
            if k.rem_euclid(8) == 0 {
                check_parse(&x, (k.rem_euclid(48) / 8) as u8, &mut acc)?;
            }
            let k2 = (-(k / 2) - 12345).clamp(-kmax, kmax);
            pts.push((x, lattice_sexa(k2, c.q)));
        }
        let container = ((c.k0 / c.n.max(1) as i64).rem_euclid(3)) as u8;
        check_operators(&o, false, container, &pts, &mut acc)?;
        check_operators(&o, true, container, &pts, &mut acc)
    })();
    acc.flush(rec);
    r?;
    rec.class(if c.k0.abs() < 3600 * c.q as i64 { "batch-touching-|angle|<1deg" } else if c.k0 < 0 { "batch-negative" } else { "batch-positive" });
    if acc.frac_sec > 0 {
        rec.nontrivial(&(c.q, c.k0, c.n));
    }
    Ok(())
}

#[derive(Clone, Debug, Serialize, Deserialize)]
struct CarryCase {
    /// base angles i/den degrees: den = 60 (arc minutes) or 3600 (arc seconds)
    den: u32,
    i0: i64,
    n: u32,
}

fn carry_offsets(base: f64) -> Vec<f64> {
    let mut v = vec![base];
    let b = base.to_bits();
    for u in [1u64, 2, 4] {
        if base != 0.0 {
            v.push(f64::from_bits(b + u));
            v.push(f64::from_bits(b - u));
        }
    }
    for e in [1e-14, 1e-13, 1e-12, 1e-11, 1e-10, 1e-9, 1e-8, 1e-6, 1e-4] {
        v.push(base + e);
        v.push(base - e);
    }
    v
}

fn check_carry(c: &CarryCase, rec: &mut Rec) -> CaseResult {
    vensure!(c.den == 60 || c.den == 3600, "bad-case", "den must be 60 or 3600");
    let imax = 720 * c.den as i64;
    let mut acc = Acc::default();
    let r = (|| {
        for i in c.i0..(c.i0 + c.n as i64).min(imax + 1) {
            let base = i as f64 / c.den as f64;
            for dd in carry_offsets(base) {
                if dd.abs() <= 720.0 {
                    check_dd(dd, &mut acc)?;
                }
            }
        }
        Ok(())
    })();
    acc.flush(rec);
    r?;
    rec.class(if c.den == 60 { "minute-carries" } else { "second-carries" });
    rec.nontrivial(&(c.den, c.i0, c.n));
    Ok(())
}

#[derive(Clone, Debug, Serialize, Deserialize)]
struct AngleBatch {
    angles: Vec<F>,
}

fn angle_strategy() -> impl Strategy<Value = F> {
    let tiny = (1i32..16, any::<bool>()).prop_map(|(e, neg)| if neg { -(10f64.powi(-e)) } else { 10f64.powi(-e) });
    prop_oneof![
        4 => -720.0f64..720.0,
        4 => -1.0f64..1.0,
        1 => -1.0e-3f64..1.0e-3,
        1 => (1i32..320, any::<bool>()).prop_map(|(e, neg)| if neg { -(10f64.powi(-e)) } else { 10f64.powi(-e) }),
        // just below / above an exact arc minute
        4 => (-43200i32..=43200, tiny.clone()).prop_map(|(mi, off)| mi as f64 / 60.0 + off),
        // just below / above an exact arc second
        4 => (-2_592_000i32..=2_592_000, tiny.clone()).prop_map(|(si, off)| si as f64 / 3600.0 + off),
        // x.9999... : just below / above whole degrees
        3 => (-720i32..=720, tiny.clone()).prop_map(|(d, off)| d as f64 + off),
        // exact minutes, seconds, decimal fractions
        2 => (-43200i32..=43200).prop_map(|mi| mi as f64 / 60.0),
        2 => (-2_592_000i32..=2_592_000).prop_map(|si| si as f64 / 3600.0),
        2 => (-720_000i32..=720_000).prop_map(|k| k as f64 / 1000.0),
        2 => (-72_000i32..=72_000).prop_map(|k| k as f64 / 100.0),
        1 => prop::sample::select(vec![0.0, -0.0, 720.0, -720.0, 360.0, -360.0, 180.0, -180.0, 90.0, -90.0, 540.0, -540.0,
            0.5, -0.5, 1.0 - f64::EPSILON / 2.0, -(1.0 - f64::EPSILON / 2.0), 5e-324, -5e-324, f64::MIN_POSITIVE]),
    ]
    .prop_map(|v| F(v.clamp(-720.0, 720.0)))
}

fn check_angle_batch(c: &AngleBatch, rec: &mut Rec) -> CaseResult {
    let mut acc = Acc::default();
    let r = (|| {
        for a in &c.angles {
            vensure!(a.0.abs() <= 720.0, "bad-case", "angle outside [-720, 720]");
            check_dd(a.0, &mut acc)?;
        }
        Ok(())
    })();
    acc.flush(rec);
    r?;
    rec.class("batch");
    let fp: Vec<u64> = c.angles.iter().map(|a| a.0.to_bits()).collect();
    if c.angles.iter().any(|a| (a.0 * 3600.0).fract() != 0.0) {
        rec.nontrivial(&fp);
    }
    Ok(())
}

#[derive(Clone, Debug, Serialize, Deserialize)]
struct SexaBatch {
    container: u8,
    variant: u8,
    pts: Vec<(Sexa, Sexa)>,
}

fn check_sexa_batch(c: &SexaBatch, rec: &mut Rec) -> CaseResult {
    let mut acc = Acc::default();
    let r = (|| {
        for x in c.pts.iter().flat_map(|(a, b)| [a, b]) {
            vensure!(x.d <= 720 && x.m < 60 && x.s.0 >= 0.0 && x.s.0 < 60.0 && (x.d < 720 || (x.m == 0 && x.s.0 == 0.0)), "bad-case", "not a valid sexagesimal triple: {x:?}");
        }
        for (i, (a, b)) in c.pts.iter().enumerate() {
            check_sexa(a, &mut acc)?;
            check_sexa(b, &mut acc)?;
            check_parse(a, c.variant.wrapping_add(i as u8), &mut acc)?;
        }
        let o = op_ctx()?;
        check_operators(&o, false, c.container, &c.pts, &mut acc)?;
        check_operators(&o, true, c.container, &c.pts, &mut acc)
    })();
    acc.flush(rec);
    r?;
    rec.class(["Vec<Coor4D>", "Vec<Coor3D>", "Vec<Coor2D>"][(c.container % 3) as usize]);
    if acc.frac_sec > 0 {
        rec.nontrivial(&format!("{:?}", c.pts));
    }
    Ok(())
}

/// Zero degrees in dms_to_dd / dm_to_dd (d.signum() = 0 made the result 0; repaired by 5c65918): exhaustive regression section.
#[derive(Clone, Debug, Serialize, Deserialize)]
struct ZeroDegCase {
    /// 0: dms_to_dd(0, m, s)   1: dm_to_dd(0, m + s/60)
    func: u8,
    m: u16,
    s: F,
}

fn check_zero_deg(c: &ZeroDegCase, rec: &mut Rec) -> CaseResult {
    vensure!(c.m < 60 && c.s.0 >= 0.0 && c.s.0 < 60.0, "bad-case", "invalid minutes/seconds");
    let expect = (c.m as f64 * 60.0 + c.s.0) / 3600.0;
    let tol = tol_deg(expect);
    rec.class(if c.func == 0 { "dms_to_dd" } else { "dm_to_dd" });
    if expect != 0.0 {
        rec.nontrivial(&(c.func, c.m, c.s.0.to_bits()));
    }
    if c.func == 0 {
        let g = angular::dms_to_dd(0, c.m, c.s.0);
        vensure!((g - expect).abs() <= tol, "dms_to_dd-zero-degrees-signum",
            "dms_to_dd(0, {}, {:?}) = {g:?}, expected 0 + {}/60 + {:?}/3600 = {expect:?} (sign taken from the degree component, which is not negative)", c.m, c.s.0, c.m, c.s.0);
    } else {
        let minutes = c.m as f64 + c.s.0 / 60.0;
        let g = angular::dm_to_dd(0, minutes);
        vensure!((g - expect).abs() <= tol, "dm_to_dd-zero-degrees-signum",
            "dm_to_dd(0, {minutes:?}) = {g:?}, expected 0 + {minutes:?}/60 = {expect:?} (sign taken from the degree component, which is not negative)");
    }
    Ok(())
}

#[derive(Clone, Debug, Serialize, Deserialize)]
struct SpecialCase {
    v: F,
}
const SPECIALS: [f64; 22] = [
    f64::NAN, f64::INFINITY, f64::NEG_INFINITY, f64::MAX, f64::MIN, 1e300, -1e300, 1e19, -1e19, 4294967296.5, -4294967296.5, 4294967295.0,
    99999999.99, 1e10, -1e10, 0.0, -0.0, 5e-324, -5e-324, 720.0000001, -720.0000001, 1e-310,
];

/// Values outside the quantifier domain: nothing is compared, but nothing may panic.
fn check_special(c: &SpecialCase, rec: &mut Rec) -> CaseResult {
    let v = c.v.0;
    let r = guard(|| {
        let _ = angular::dd_to_iso_dm(v);
        let _ = angular::dd_to_iso_dms(v);
        let _ = angular::iso_dm_to_dd(v);
        let _ = angular::iso_dms_to_dd(v);
        let _ = angular::normalize_symmetric(v);
        let _ = angular::normalize_positive(v);
        let _ = angular::dm_to_dd(1, v);
        let _ = angular::dms_to_dd(-1, 59, v);
        let _ = angular::dms_to_dd(i32::MAX, u16::MAX, v);
        let _ = Coor4D::iso_dm(v, v, v, v);
        let _ = Coor2D::iso_dms(v, v);
        let _ = Coor32::iso_dms(v, v);
    });
    if let Err(p) = r {
        vfail!(format!("panic-angle-function@{}", p.sig()), "an angular conversion panics on {v:?}: {} at {}:{}", p.msg, p.file, p.line);
    }
    // i32::MIN has no absolute value: d.abs() would overflow; documented "no sanity check", not called
    rec.class("special");
    rec.nontrivial(&v.to_bits());
    Ok(())
}

// =====================================================================================
// dm / dms operators on multi-tuple sets: every tuple is converted on its own
// =====================================================================================

const OP_KINDS: [&str; 15] = [
    "Vec<Coor4D>", "Vec<Coor3D>", "Vec<Coor2D>", "Vec<Coor32>", "slice-Coor4D", "slice-Coor3D", "slice-Coor2D", "slice-Coor32",
    "array-Coor4D", "array-Coor3D", "array-Coor2D", "array-Coor32", "(Vec<Coor2D>,h,t)", "(Vec<Coor3D>,t)", "user-Soa3",
];

/// Build container `kind` holding `vals` and hand it to `f` as a trait object.
/// Array kinds exist for 1 and 3 elements (callers normalise the length).
fn with_container(kind: usize, vals: &[[f64; 4]], h: f64, t: f64, f: &mut dyn FnMut(&mut dyn CoordinateSet) -> CaseResult) -> CaseResult {
    macro_rules! arr {
        ($mk:ident) => {{
            if vals.len() == 1 {
                let mut a = [$mk(&vals[0])];
                f(&mut a)
            } else {
                let mut a = [$mk(&vals[0]), $mk(&vals[1]), $mk(&vals[2])];
                f(&mut a)
            }
        }};
    }
    match kind {
        0 => f(&mut vals.iter().map(mk4).collect::<Vec<_>>()),
        1 => f(&mut vals.iter().map(mk3).collect::<Vec<_>>()),
        2 => f(&mut vals.iter().map(mk2).collect::<Vec<_>>()),
        3 => f(&mut vals.iter().map(mk32).collect::<Vec<_>>()),
        4 => {
            let mut v: Vec<Coor4D> = vals.iter().map(mk4).collect();
            let mut s = &mut v[..];
            f(&mut s)
        }
        5 => {
            let mut v: Vec<Coor3D> = vals.iter().map(mk3).collect();
            let mut s = &mut v[..];
            f(&mut s)
        }
        6 => {
            let mut v: Vec<Coor2D> = vals.iter().map(mk2).collect();
            let mut s = &mut v[..];
            f(&mut s)
        }
        7 => {
            let mut v: Vec<Coor32> = vals.iter().map(mk32).collect();
            let mut s = &mut v[..];
            f(&mut s)
        }
        8 => arr!(mk4),
        9 => arr!(mk3),
        10 => arr!(mk2),
        11 => arr!(mk32),
        12 => f(&mut (vals.iter().map(mk2).collect::<Vec<_>>(), h, t)),
        13 => f(&mut (vals.iter().map(mk3).collect::<Vec<_>>(), t)),
        _ => f(&mut Soa3 { x: vals.iter().map(|v| v[0]).collect(), y: vals.iter().map(|v| v[1]).collect(), z: vals.iter().map(|v| v[2]).collect() }),
    }
}

#[derive(Clone, Debug, Serialize, Deserialize)]
struct IndepCase {
    dms: bool,
    fwd: bool,
    kind: u8,
    h: F,
    t: F,
    /// raw tuples as handed to the container: encodings (lat, lon) for fwd, radians (lon, lat) for inv
    pts: Vec<P4>,
    /// true: the operator is instantiated as "dm inv" / "dms inv" and applied in the opposite
    /// direction (the effective conversion is still the one `fwd` names)
    #[serde(default)]
    spelled_inv: bool,
}

fn check_indep(c: &IndepCase, rec: &mut Rec) -> CaseResult {
    let kind = (c.kind as usize).min(OP_KINDS.len() - 1);
    let kname = OP_KINDS[kind];
    let name = if c.dms { "dms" } else { "dm" };
    let dname = if c.fwd { "fwd" } else { "inv" };
    let mut vals: Vec<[f64; 4]> = c.pts.iter().map(f4).collect();
    if (8..12).contains(&kind) {
        // arrays: exactly three tuples
        let pad = if c.fwd { [5530.15, -1245.15, 1.0, 2.0] } else { [-0.2, 0.9, 1.0, 2.0] };
        while vals.len() < 3 {
            vals.push(pad);
        }
        vals.truncate(3);
    }
    let n = vals.len();
    let f32k = matches!(kind, 3 | 7 | 11);
    // the operator as spelled: "dm" / "dms", or "dm inv" / "dms inv" applied in the opposite direction
    let text = format!("{name}{}", if c.spelled_inv { " inv" } else { "" });
    let apply_fwd = c.fwd != c.spelled_inv;
    let mut ctx = Minimal::default();
    let handle = match try_op(&mut ctx, &text) {
        Ok(Ok(h)) => h,
        other => return fail(format!("{name}-operator-unavailable"), format!("ctx.op({text:?}) failed: {other:?}")),
    };
    let (hh, tt) = (c.h.0, c.t.0);
    let run_on = |v: &[[f64; 4]]| -> Result<(Vec<[f64; 4]>, Vec<[f64; 4]>, usize), Failure> {
        let mut input = vec![];
        let mut output = vec![];
        let mut count = 0usize;
        with_container(kind, v, hh, tt, &mut |s: &mut dyn CoordinateSet| {
            input = (0..s.len()).map(|i| s.get_coord(i).0).collect();
            let applied = try_apply(&ctx, handle, dir_of(apply_fwd), s);
            match applied {
                Err(p) => vfail!(format!("panic-apply@{}", p.sig()), "applying '{name}' ({dname}) to {kname} {} panics: {} at {}:{}", show_set(v), p.msg, p.file, p.line),
                Ok(Err(e)) => vfail!(format!("{name}-operator-error"), "apply of '{name}' ({dname}) to {kname} {} returned {e:?}", show_set(v)),
                Ok(Ok(k)) => count = k,
            }
            output = (0..s.len()).map(|i| s.get_coord(i).0).collect();
            Ok(())
        })?;
        Ok((input, output, count))
    };
    let (input, set_out, count) = run_on(&vals)?;
    vensure!(set_out.len() == n, format!("{name}-operator-length"), "'{name}' changed the number of tuples of {kname}");
    let nan_angle = |v: &[f64; 4]| v[0].is_nan() || v[1].is_nan();
    let first_nan = input.iter().position(nan_angle);
    let mut nan_before_valid = false;
    for i in 0..n {
        if nan_angle(&input[i]) {
            continue; // nothing is asserted about tuples with an undefined angle
        }
        if matches!(first_nan, Some(j) if j < i) {
            nan_before_valid = true;
        }
        // (a) the same tuple alone in a container of the same kind
        let single_vals: Vec<[f64; 4]> = if (8..12).contains(&kind) { vec![vals[i]] } else { vec![vals[i]] };
        let (_, single_out, single_count) = run_on(&single_vals)?;
        vensure!(a4_eq(&set_out[i], &single_out[0]), format!("{name}-operator-depends-on-neighbours"),
            "'{name}' ({dname}) on {kname}: tuple {i} = {} becomes {} when converted inside the set {}, but {} when converted alone (success counts {count} of {n} / {single_count} of 1); a tuple's conversion must not depend on its position or its neighbours",
            show(&input[i]), show(&set_out[i]), show_set(&input), show(&single_out[0]));
        rec.count("tuples_compared_set_vs_single", 1);
        // (b) the angular module's scalar functions, element-wise (f64 containers, angles in the domain)
        let (a0, a1) = (input[i][0], input[i][1]);
        let in_domain = if c.fwd {
            let lim = if c.dms { 7_200_000.0 } else { 72_000.0 };
            a0.abs() <= lim && a1.abs() <= lim
        } else {
            a0.abs() <= 4.0 * PI && a1.abs() <= 4.0 * PI
        };
        if in_domain && !f32k {
            let out = set_out[i];
            let (e0, e1, t0, t1, unit) = if c.fwd {
                // (lat, lon) encodings -> (lon, lat) radians
                let (lat, lon) = if c.dms { (angular::iso_dms_to_dd(a0), angular::iso_dms_to_dd(a1)) } else { (angular::iso_dm_to_dd(a0), angular::iso_dm_to_dd(a1)) };
                ((out[0].to_degrees() - lon).abs(), (out[1].to_degrees() - lat).abs(), 2.0 * tol_deg(lon), 2.0 * tol_deg(lat), "degrees")
            } else {
                // (lon, lat) radians -> (lat, lon) encodings; compare what the encodings denote
                let (lon, lat) = (a0.to_degrees(), a1.to_degrees());
                let dec = |v: f64| if c.dms { ref_decode_dms(v).0 } else { ref_decode_dm(v).0 };
                let (xlat, xlon) = if c.dms { (angular::dd_to_iso_dms(lat), angular::dd_to_iso_dms(lon)) } else { (angular::dd_to_iso_dm(lat), angular::dd_to_iso_dm(lon)) };
                ((dec(out[0]) - dec(xlat)).abs(), (dec(out[1]) - dec(xlon)).abs(), 2.0 * tol_deg(lat), 2.0 * tol_deg(lon), "degrees (decoded)")
            };
            vensure!(e0 <= t0 && e1 <= t1, format!("{name}-operator-not-elementwise"),
                "'{name}' ({dname}) on {kname}: tuple {i} = {} of the set {} becomes {}, which differs from the angular:: scalar conversion of its first two elements by ({e0:e}, {e1:e}) {unit} (tolerance ({t0:e}, {t1:e}))",
                show(&input[i]), show_set(&input), show(&out));
            for k in 2..4 {
                vensure!(bits_eq(out[k], input[i][k]), format!("{name}-operator-touches-other-elements"),
                    "'{name}' ({dname}) on {kname}: element {k} of tuple {i} was {:?}, reads {:?} afterwards (set {})", input[i][k], out[k], show_set(&input));
            }
            rec.count("tuples_compared_with_scalar_functions", 1);
        }
    }
    // the count is asserted only for sets without undefined or non-finite angles
    if input.iter().all(|v| v[0].is_finite() && v[1].is_finite()) {
        vensure!(count == n, format!("{name}-operator-count"), "'{name}' ({dname}) on {n} tuples with finite angles reports {count} successes");
    }
    rec.class(kname);
    // runs of repeated positions / repeated height-time (raw tuples, before the container drops dimensions)
    let same_ang = |a: &[f64; 4], b: &[f64; 4]| a[0] == b[0] && a[1] == b[1];
    let same_ht = |a: &[f64; 4], b: &[f64; 4]| bits_eq(a[2], b[2]) && bits_eq(a[3], b[3]);
    let mut adjacent_dup = false;
    let mut longest_run = 1usize;
    let mut run_len = 1usize;
    let mut gap_dup = false;
    let mut mirror = false;
    for i in 1..n {
        if same_ang(&vals[i], &vals[i - 1]) && !same_ht(&vals[i], &vals[i - 1]) {
            adjacent_dup = true;
            run_len += 1;
            longest_run = longest_run.max(run_len);
        } else {
            run_len = 1;
        }
        if !same_ang(&vals[i], &vals[i - 1]) && same_ht(&vals[i], &vals[i - 1]) {
            mirror = true;
        }
        if i >= 2 && same_ang(&vals[i], &vals[i - 2]) && !same_ang(&vals[i], &vals[i - 1]) && !same_ht(&vals[i], &vals[i - 2]) {
            gap_dup = true;
        }
    }
    let eff = if c.fwd { "decode" } else { "encode" };
    if adjacent_dup {
        rec.class(&format!("dup:adjacent-equal-angles-different-h/t:{kname}:{eff}"));
        rec.class(&format!("dup:longest-run-{}", longest_run.min(4)));
    }
    if gap_dup {
        rec.class(&format!("dup:equal-angles-after-a-gap:{eff}"));
    }
    if mirror {
        rec.class(&format!("dup:adjacent-equal-h/t-different-angles:{eff}"));
    }
    if c.spelled_inv {
        rec.class(&format!("spelled '{name} inv' applied {}", if c.fwd { "Inv" } else { "Fwd" }));
    }
    rec.class(match (first_nan, nan_before_valid) {
        (None, _) => "order:no-NaN-angle",
        (Some(_), true) => "order:NaN-angle-precedes-valid-tuple",
        (Some(_), false) => "order:NaN-angle-last-or-alone",
    });
    if nan_before_valid || adjacent_dup {
        rec.nontrivial(&(c.dms, c.fwd, c.spelled_inv, kind, format!("{:?}", c.pts)));
    }
    Ok(())
}

fn show_set(v: &[[f64; 4]]) -> String {
    let parts: Vec<String> = v.iter().map(|x| show(x)).collect();
    format!("[{}]", parts.join(", "))
}

fn indep_strategy() -> impl Strategy<Value = IndepCase> {
    // dup: 0..35 repeat the angles of the predecessor (fresh h/t), 35..45 repeat its h/t (fresh angles),
    // 45..55 repeat the angles of the tuple two back, 55..59 repeat the predecessor entirely,
    // 59..63 repeat the predecessor's angles with the sign of zeros flipped; else nothing
    let tuple = (sexa_strategy(), sexa_strategy(), 0u8..22, any_f64_class(), any_f64_class(), 0u8..100);
    (any::<bool>(), any::<bool>(), prop::bool::weighted(0.2), 0u8..OP_KINDS.len() as u8, any_f64_class(), any_f64_class(), prop::collection::vec(tuple, 2..10)).prop_map(
        |(dms, fwd, spelled_inv, kind, h, t, raw)| {
            let dups: Vec<u8> = raw.iter().map(|r| r.5).collect();
            let mut pts: Vec<P4> = raw
                .into_iter()
                .map(|(a, b, class, hh, tt, _)| {
                    // a = latitude, b = longitude
                    let (mut x, mut y) = if fwd {
                        if dms { (a.enc_dms(), b.enc_dms()) } else { (a.enc_dm(), b.enc_dm()) }
                    } else {
                        (b.dd().to_radians(), a.dd().to_radians())
                    };
                    match class {
                        0 | 1 | 2 => x = f64::NAN,
                        3 | 4 => y = f64::NAN,
                        5 => {
                            x = f64::NAN;
                            y = f64::NAN;
                        }
                        6 => x = f64::INFINITY,
                        7 => y = f64::NEG_INFINITY,
                        8 => x = 1.0e300,
                        9 => y = -0.0,
                        10 => x = 0.0,
                        _ => {}
                    }
                    [F(x), F(y), hh, tt]
                })
                .collect();
            for i in 1..pts.len() {
                let prev = pts[i - 1];
                match dups[i] {
                    0..=34 => {
                        pts[i][0] = prev[0];
                        pts[i][1] = prev[1];
                    }
                    35..=44 => {
                        pts[i][2] = prev[2];
                        pts[i][3] = prev[3];
                    }
                    45..=54 if i >= 2 => {
                        pts[i][0] = pts[i - 2][0];
                        pts[i][1] = pts[i - 2][1];
                    }
                    55..=58 => pts[i] = prev,
                    59..=62 => {
                        let flip = |v: f64| if v == 0.0 { -v } else { v };
                        pts[i][0] = F(flip(prev[0].0));
                        pts[i][1] = F(flip(prev[1].0));
                    }
                    _ => {}
                }
            }
            IndepCase { dms, fwd, kind, h, t, pts, spelled_inv }
        },
    )
}

// =====================================================================================

fn selftest() {
    // reference decoders on hand-computed values
    assert_eq!(ref_decode_dm(5530.15).0, 55.0 + 30.15 / 60.0 - 0.0 + (5530.15f64 - 5530.0 - 0.15) / 60.0);
    assert!((ref_decode_dm(-1245.15).0 + 12.7525).abs() < 1e-13);
    assert!((ref_decode_dms(553036.0).0 - 55.51).abs() < 1e-13);
    assert!((ref_decode_dms(-30.0).0 + 30.0 / 3600.0).abs() < 1e-16);
    assert_eq!(ref_decode_dms(553060.0).0, 55.0 + 31.0 / 60.0);
    assert_eq!(ref_decode_dm(5560.0).0, 56.0);
    let x = lattice_sexa(-(55 * 3600 * 8 + 30 * 60 * 8 + 36 * 8 + 4), 8);
    assert!(x.neg && x.d == 55 && x.m == 30 && x.s.0 == 36.5);
    assert!((x.dd() + 55.0 + 30.0 / 60.0 + 36.5 / 3600.0).abs() < 1e-13 && x.enc_dms() == -553036.5);
    let x = Sexa { neg: false, d: 0, m: 30, s: F(0.0) };
    assert!(x.dd() == 0.5 && x.enc_dm() == 30.0 && x.enc_dms() == 3000.0);
}

fn main() {
    let mut run = Run::init("C19");
    selftest();
    run.assume("adapters (T,h,t)/(T,t): only the view through the adapter and the non-overridden dimensions of the wrapped container are compared; what a write through an adapter leaves in the overridden (hidden) dimensions of a 3-D/4-D wrapped container is not specified");
    run.assume("dim() is compared for the native containers only (2/3/4); NaN payloads are not compared (all NaNs identified), signed zeros are");
    run.assume("`[]` indexing and *_unchecked accessors are exercised in range only (documented as panicking out of range); container indices are always < len()");
    run.assume("an encoder result whose minutes/seconds field reads 60.0 after rounding (e.g. 5560.0 for 55.99999999999999) is accepted: it denotes the same angle within rounding; counted in the evidence");
    run.assume("normalize_*: the closed ends PI and 2*PI (f64) are accepted, they lie below the real pi / 2 pi, i.e. inside the stated half-open range; counted in the evidence");
    run.assume("dms_to_dd/dm_to_dd cannot express a negative angle with zero degrees (i32 has no -0): that sub-domain is not asserted (counted); positive angles with zero degrees are asserted everywhere under their own failure keys");
    run.assume("angles outside [-720, 720] degrees and non-finite values: only absence of panics is checked");
    run.note("tolerance_deg", serde_json::json!("min(1e-15 + 4e-15*|angle|, 1e-11) degrees per conversion or round trip (twice that through the dm/dms operators); normalisation 1e-12 rad"));
    run.track_inflight(false);

    // 1. containers
    let n = run.scale(60_000, 4_000_000);
    run.section(
        "containers",
        "14 base containers (array/slice/Vec x Coor2D/3D/4D/32, user 1-D and 3-D containers on trait defaults) x 5 wrappings (plain, (T,h,t), (T,t), nested both ways) x random histories of set_coord/set_xy/set_xyz/set_xyzt/stomp over all f64 classes; after every write all readers of all indices are compared bit for bit with the view model; non-trivial = at least one indexed write on a non-empty container, distinct by kind and history",
        n,
        set_case_strategy,
        check_set,
    );

    // 2. tuples
    let n = run.scale(60_000, 4_000_000);
    run.section(
        "tuples",
        "8 tuple types (Coor2D/3D/4D/32, (f64,f64), user types of dimension 1, 3, 5 on trait defaults) x random histories of set_nth(n in 0..8)/set_xy/set_xyz/set_xyzt/update/fill over all f64 classes; after every write nth(0..8), x/y/z/t, xy/xyz/xyzt, [] and nth_unchecked in range are compared with the model (NaN beyond the dimension); then unit conversions, scale, dot, hypot, operators (+ - * /, by value and by reference, incl. Coor2D op Coor32) and constructors against element-wise definitions; every case reads indices >= dim",
        n,
        tup_case_strategy,
        check_tuple,
    );

    // 3. zero degrees in dms_to_dd / dm_to_dd
    let s_steps = 240usize;
    run.enumerate(
        "sexagesimal-zero-degrees",
        "dms_to_dd(0, m, s) and dm_to_dd(0, m + s/60) for all m in 0..60 and s on a quarter-second lattice of [0, 60): expected +(m/60 + s/3600)",
        2 * 60 * s_steps,
        move |i| ZeroDegCase { func: (i / (60 * s_steps)) as u8, m: ((i / s_steps) % 60) as u16, s: F((i % s_steps) as f64 / 4.0) },
        check_zero_deg,
    );

    // 4. lattice of [-720, 720] degrees
    let q: u32 = if run.is_thorough() { 128 } else { 4 };
    let per_case = 8192usize;
    let kmax = 720i64 * 3600 * q as i64;
    let total_points = (2 * kmax + 1) as usize;
    let cases = (total_points + per_case - 1) / per_case;
    run.sweep(
        "angle-lattice",
        &format!("every multiple of 1/{q} arc second in [-720, 720] degrees ({total_points} points in batches of {per_case}); sexagesimal digits known exactly from the lattice index: encoders vs independent decoder, decoders vs d+m/60+s/3600, both compositions, dms_to_dd/dm_to_dd, unit conversions, normalisation per point; parse_sexagesimal on every 8th point; dm and dms operators fwd/inv on every point (Vec of Coor4D/3D/2D in turn); non-trivial batch = contains fractional seconds"),
        cases,
        move |i| LatticeCase { q, k0: -kmax + (i * per_case) as i64, n: per_case as u32 },
        check_lattice,
    );

    // 5. carry neighbourhoods
    let per = 512usize;
    let nmin = (2 * 720 * 60 + 1 + per - 1) / per;
    run.sweep(
        "minute-carries",
        "every exact arc minute in [-720, 720] degrees with offsets 0, +-1/2/4 ulp, +-1e-14 ... +-1e-4 degrees (25 angles per minute; whole degrees give the x.9999... cases)",
        nmin,
        move |i| CarryCase { den: 60, i0: -(720 * 60) + (i * per) as i64, n: per as u32 },
        check_carry,
    );
    let span_deg: i64 = if run.is_thorough() { 720 } else { 3 };
    let nsec = ((2 * span_deg * 3600 + 1) as usize + per - 1) / per;
    run.sweep(
        "second-carries",
        &format!("every exact arc second in [-{span_deg}, {span_deg}] degrees with the same 25 offsets"),
        nsec,
        move |i| CarryCase { den: 3600, i0: -(span_deg * 3600) + (i * per) as i64, n: per as u32 },
        check_carry,
    );

    // 6. random angles
    let n = run.scale(3_000, 200_000);
    run.section(
        "angles-random",
        "batches of 256 angles: uniform in [-720, 720], |a| < 1, |a| < 1e-3, 10^-e down to subnormal, just below/above exact minutes, seconds and whole degrees (10^-1 ... 10^-15), exact minutes/seconds/decimal fractions, boundaries; same per-angle checks as the lattice; non-trivial = contains an angle with fractional seconds",
        n,
        || prop::collection::vec(angle_strategy(), 256..=256).prop_map(|angles| AngleBatch { angles }),
        check_angle_batch,
    );

    // 7. random sexagesimal triples
    let n = run.scale(5_000, 400_000);
    run.section(
        "sexagesimal-random",
        "batches of 64 (lat, lon) pairs of valid sexagesimal triples (d = 0 weighted 25 %, m = 0/59, s = 0, integer, 60 - 10^-e, 10^-e, milli-seconds, uniform), both signs: decoders, reverse compositions, dms_to_dd/dm_to_dd, parse_sexagesimal (6 spellings), dm and dms operators fwd/inv; non-trivial = fractional seconds present",
        n,
        || {
            (0u8..3, 0u8..6, prop::collection::vec((sexa_strategy(), sexa_strategy()), 64..=64))
                .prop_map(|(container, variant, pts)| SexaBatch { container, variant, pts })
        },
        check_sexa_batch,
    );

    // 8. dm / dms operators: tuple order and neighbours are irrelevant
    let n = run.scale(20_000, 1_200_000);
    run.section(
        "operator-tuple-independence",
        "dm and dms, fwd and inv, on sets of 2..9 tuples in 15 container kinds (Vec/slice/array of Coor4D/3D/2D/32, (Vec<Coor2D>,h,t), (Vec<Coor3D>,t), user Soa3); tuples in random order mix ordinary angles, zero-degree negatives, carries, NaN (30 %), +-inf, 1e300 and +-0 angles and all f64 classes in h/t; a duplication mutator makes 35 % of the tuples repeat the angles of their predecessor with fresh h/t (runs of 2-4), 10 % repeat its h/t with fresh angles, 10 % repeat the angles of the tuple two back, some repeat it entirely or with the sign of zeros flipped; 20 % of the cases spell the operator 'dm inv'/'dms inv' and apply it in the opposite direction; every tuple without a NaN angle must come out bit for bit as when converted alone in a one-tuple container of the same kind, and (f64 containers, angles in the domain) agree with the angular:: scalar functions element-wise; count asserted only for sets with finite angles; non-trivial = a NaN-angle tuple precedes a valid tuple, or adjacent tuples share their angles but not h/t",
        n,
        indep_strategy,
        check_indep,
    );

    // 9. values outside the domain must not panic
    run.enumerate(
        "angle-specials",
        "NaN, infinities, huge, beyond-u32, signed zeros, subnormals: no angular conversion may panic (results not compared)",
        SPECIALS.len(),
        |i| SpecialCase { v: F(SPECIALS[i]) },
        check_special,
    );

    run.finish("containers/tuples: random write histories over all container and tuple kinds and all f64 classes, every reader compared bit for bit with a view-level reference model; angles: complete fine lattice of [-720, 720] degrees plus carry neighbourhoods and random angles/sexagesimal triples against an independent decoder and the d+m/60+s/3600 definition; see sections");
}

