//! C16 — definition layout is insignificant; parameters are typed as declared.
//!
//! Part 1 (layout): a definition AST (steps = name + ordered key=value pairs + flags +
//! modifiers) is rendered with layout choices drawn from a byte tape (whitespace around
//! every separator, LF/CR/CRLF, continuation colons, comments, empty steps, modifier
//! position, `<`/`>` sugar, subscript digits). Every rendering is judged against
//! (a) a reference tokenizer model computed from the AST and (b) the canonical
//! single-line rendering instantiated on a fresh context (steps, parsed parameters,
//! behaviour both directions, bit-identical). Two independent renderings per case.
//! A failing rendering is attributed to the layout dimensions that are necessary for
//! the failure (each dimension switched off in turn), which gives the failure key.
//!
//! Part 2 (typing): a harness-registered operator whose gamut holds all seven parameter
//! kinds, and the gamuts of built-in operators, are instantiated with spelled values;
//! `ctx.params` is compared with a reference parser written from the documentation
//! (decimal / sexagesimal d:m:s with hemisphere letter, exact rational arithmetic).
//!
//! Part 3 (flags are true when present): every spelling of presence of a flag (bare, `=true`
//! in any letter case, the explicit empty value `key=` in front of every kind of step end,
//! blanks around '=', subscript keys) crossed with every place a flag is read (gamut flags of
//! the built-ins, `inv`, `omit_fwd`/`omit_inv` on elementary steps and on macro invocations,
//! flags handed down through macro arguments, macro bodies); absolute oracle: identical to the
//! bare flag (step list, typed parameters, apply results), which itself must do what the
//! documentation says (closed form for addone definitions, set in ctx.params, observable).
//!
//! Part 4 (typing under modifiers): representative ill-formed steps per error kind and their
//! well-formed twins crossed with every modifier subset (inv, omit_fwd, omit_inv), spelling
//! (`<`/`>` sugar included) and position (stand-alone, first/middle/last step, macro body,
//! behind a modified macro invocation); oracle: rejected exactly as the plain stand-alone step
//! (same error variant, same parameter named); twins: ctx.steps and ctx.params stay aligned.

use geodesy::authoring::*;
use proptest::prelude::*;
use serde::{Deserialize, Serialize};
use std::collections::HashSet;
use vcore::geo::*;
use vcore::*;

// ===================================================================================
// small utilities
// ===================================================================================

/// Layout tape: bytes consumed by the renderer; exhausted = 0 = canonical choice.
struct Tape<'a> {
    b: &'a [u8],
    i: usize,
}
impl<'a> Tape<'a> {
    fn new(b: &'a [u8]) -> Self {
        Tape { b, i: 0 }
    }
    fn byte(&mut self) -> u8 {
        let v = self.b.get(self.i).copied().unwrap_or(0);
        self.i += 1;
        v
    }
    fn take10(&mut self) -> [u8; 10] {
        let mut r = [0u8; 10];
        for x in r.iter_mut() {
            *x = self.byte();
        }
        r
    }
}

/// Generator dice: u32 draws interpreted by pure functions; exhausted = 0 = simplest choice.
struct Dice<'a> {
    v: &'a [u32],
    i: usize,
}
impl<'a> Dice<'a> {
    fn new(v: &'a [u32]) -> Self {
        Dice { v, i: 0 }
    }
    fn raw(&mut self) -> u32 {
        let x = self.v.get(self.i).copied().unwrap_or(0);
        self.i += 1;
        x
    }
    /// monotone map to 0..n
    fn pick(&mut self, n: usize) -> usize {
        if n == 0 {
            return 0;
        }
        ((self.raw() as u64 * n as u64) >> 32) as usize
    }
    /// true with probability num/den; false for small draws (so that 0 = "no")
    fn chance(&mut self, num: usize, den: usize) -> bool {
        self.pick(den) >= den - num
    }
    fn choose<T: Copy>(&mut self, xs: &[T]) -> T {
        xs[self.pick(xs.len())]
    }
}

const SUBS: [char; 10] = ['₀', '₁', '₂', '₃', '₄', '₅', '₆', '₇', '₈', '₉'];

/// `x_0` -> `x₀` (None if the key does not end in `_<digit>`)
fn subscripted(key: &str) -> Option<String> {
    let b = key.as_bytes();
    if b.len() >= 3 && b[b.len() - 2] == b'_' && b[b.len() - 1].is_ascii_digit() {
        let d = (b[b.len() - 1] - b'0') as usize;
        let mut s = key[..key.len() - 2].to_string();
        s.push(SUBS[d]);
        return Some(s);
    }
    None
}

/// Keys of known findings (status "known") for this property, read from the tree
/// (known_findings.json and the draft file); a pure function of the working tree.
fn known_keys(root: &std::path::Path) -> HashSet<String> {
    let mut out = HashSet::new();
    for p in [root.join("known_findings.json"), root.join("known_findings.d").join("C16.json")] {
        let Ok(t) = std::fs::read_to_string(&p) else { continue };
        let Ok(v) = serde_json::from_str::<serde_json::Value>(&t) else { continue };
        if let Some(list) = v.get("findings").and_then(|l| l.as_array()) {
            for e in list {
                if e.get("property").and_then(|x| x.as_str()) == Some("C16") && e.get("status").and_then(|x| x.as_str()) == Some("known") {
                    if let Some(k) = e.get("key").and_then(|x| x.as_str()) {
                        out.insert(k.to_string());
                    }
                }
            }
        }
    }
    out
}

type Fail2 = (String, String); // (failure kind, message)

fn panic_kind(p: &vcore::guard::PanicInfo) -> String {
    let file = p.file.rsplit("/src/").next().unwrap_or(&p.file).to_string();
    let what = if p.msg.contains("char boundary") {
        "char-boundary".to_string()
    } else {
        p.msg.chars().take(40).map(|c| if c.is_ascii_digit() { '#' } else { c }).collect()
    };
    format!("{file}:{what}")
}

// ===================================================================================
// definition AST
// ===================================================================================

#[derive(Clone, Debug, Serialize, Deserialize, PartialEq, Eq, Hash)]
struct Arg {
    key: String,
    /// None = flag; Some(atoms) = key=atom,atom,...
    val: Option<Vec<String>>,
}

#[derive(Clone, Debug, Serialize, Deserialize, PartialEq, Eq, Hash)]
struct Step {
    name: String,
    args: Vec<Arg>,
    inv: bool,
    omit_fwd: bool,
    omit_inv: bool,
}

/// Reference tokenizer model: the parameter map the documentation assigns to a step.
fn model_map(st: &Step) -> BTreeMap<String, String> {
    let mut m = BTreeMap::new();
    m.insert("_name".to_string(), st.name.clone());
    for a in &st.args {
        let v = match &a.val {
            None => "true".to_string(),
            Some(atoms) => atoms.join(","),
        };
        m.insert(a.key.clone(), v);
    }
    for (on, k) in [(st.inv, "inv"), (st.omit_fwd, "omit_fwd"), (st.omit_inv, "omit_inv")] {
        if on {
            m.insert(k.to_string(), "true".to_string());
        }
    }
    m
}

fn canon_step(st: &Step) -> String {
    let mut s = st.name.clone();
    for a in &st.args {
        s.push(' ');
        s.push_str(&a.key);
        if let Some(atoms) = &a.val {
            s.push('=');
            s.push_str(&atoms.join(","));
        }
    }
    for (on, k) in [(st.inv, " inv"), (st.omit_fwd, " omit_fwd"), (st.omit_inv, " omit_inv")] {
        if on {
            s.push_str(k);
        }
    }
    s
}

/// Canonical rendering: one line, single blanks, modifiers as suffix words, ` | ` separators.
fn canon(steps: &[Step]) -> String {
    steps.iter().map(canon_step).collect::<Vec<_>>().join(" | ")
}

// ===================================================================================
// layout renderer
// ===================================================================================

const D_WS: u32 = 1 << 0;
const D_TAB: u32 = 1 << 1;
const D_EXOTIC: u32 = 1 << 2;
const D_EQ: u32 = 1 << 3;
const D_COMMA: u32 = 1 << 4;
const D_PIPE: u32 = 1 << 5;
const D_COLONWS: u32 = 1 << 6;
const D_LF: u32 = 1 << 7;
const D_CRLF: u32 = 1 << 8;
const D_CR: u32 = 1 << 9;
const D_CONT: u32 = 1 << 10;
const D_COMMENT: u32 = 1 << 11;
const D_EMPTY: u32 = 1 << 12;
const D_PREFIX: u32 = 1 << 13;
const D_INFIX: u32 = 1 << 14;
const D_SUGAR: u32 = 1 << 15;
const D_SUB: u32 = 1 << 16;
const D_SUBFLAG: u32 = 1 << 17;

const DIM_NAMES: [(u32, &str); 18] = [
    (D_WS, "multi-blank"),
    (D_TAB, "tab"),
    (D_EXOTIC, "unicode-ws"),
    (D_EQ, "ws-around-equals"),
    (D_COMMA, "ws-around-comma"),
    (D_PIPE, "ws-around-bar"),
    (D_COLONWS, "ws-around-colon"),
    (D_LF, "lf"),
    (D_CRLF, "crlf"),
    (D_CR, "cr"),
    (D_CONT, "continuation-colon"),
    (D_COMMENT, "comment"),
    (D_EMPTY, "empty-step"),
    (D_PREFIX, "modifier-prefix"),
    (D_INFIX, "modifier-infix"),
    (D_SUGAR, "sugar"),
    (D_SUB, "subscript-key"),
    (D_SUBFLAG, "subscript-flag"),
];

fn dim_names(d: u32) -> String {
    DIM_NAMES.iter().filter(|(b, _)| d & b != 0).map(|(_, n)| *n).collect::<Vec<_>>().join("+")
}

const EXOTIC: [char; 5] = ['\u{a0}', '\x0c', '\x0b', '\u{2003}', '\u{3000}'];

/// Comment bodies (no line breaks); many look like definition text on purpose.
const COMMENTS: [&str; 17] = [
    "", " c", " plain comment", " x=9 y=8", " | addone", " inv", " omit_fwd", " < >", "#", " lat₀=1", " a:b", " : cont", " é ü",
    " = ", " zone=33 south", "\tinv x=7", " inv=no",
];

struct Rendered {
    text: String,
    dims: u32,
}

struct Rend<'a> {
    t: Tape<'a>,
    off: u32,
    out: String,
    dims: u32,
    lead: bool,
}

impl<'a> Rend<'a> {
    /// Use dimension `d` (non-canonical choice) unless it is switched off.
    fn on(&mut self, d: u32) -> bool {
        if self.off & d != 0 {
            return false;
        }
        self.dims |= d;
        true
    }

    fn hws(&mut self, b: u8) -> char {
        if b < 170 {
            ' '
        } else if b < 230 {
            if self.on(D_TAB) {
                '\t'
            } else {
                ' '
            }
        } else if self.on(D_EXOTIC) {
            EXOTIC[(b - 230) as usize % EXOTIC.len()]
        } else {
            ' '
        }
    }

    fn nl(&mut self, b: u8) -> Option<&'static str> {
        let want = if b < 140 {
            0
        } else if b < 200 {
            1
        } else {
            2
        };
        if want == 2 && self.on(D_CR) {
            return Some("\r");
        }
        if want == 1 && self.on(D_CRLF) {
            return Some("\r\n");
        }
        if self.on(D_LF) {
            Some("\n")
        } else {
            None
        }
    }

    /// A gap between two syntactic elements. `mandatory`: at least one whitespace
    /// character. `gate`: the dimension that must be enabled for a non-canonical gap
    /// (0 for gaps between tokens). Always consumes 10 tape bytes.
    fn gap(&mut self, mandatory: bool, gate: u32) {
        let r = self.t.take10();
        if r[0] < 130 || (gate != 0 && !self.on(gate)) {
            if mandatory {
                self.out.push(' ');
            }
            return;
        }
        let mut buf = String::new();
        let linebreak = r[0] >= 175;
        let mut npre = if linebreak { (r[1] % 3) as usize } else { 1 + (r[1] % 3) as usize };
        if npre >= 2 && !self.on(D_WS) {
            npre = 1;
        }
        for k in 0..npre {
            let c = self.hws(r[2 + (k % 2)]);
            buf.push(c);
        }
        if linebreak {
            let mut nl = self.nl(r[4]);
            // a comment and a continuation colon bring their own line end if need be
            let comment = r[6] >= 170 && self.on(D_COMMENT);
            let colon = r[5] >= 170 && !self.lead && self.on(D_CONT);
            if (comment || colon) && nl.is_none() {
                nl = Some("\n");
            }
            if let Some(nl) = nl {
                if comment {
                    buf.push('#');
                    buf.push_str(COMMENTS[(r[6] - 170) as usize % COMMENTS.len()]);
                }
                buf.push_str(nl);
                if r[0] >= 250 {
                    // a blank line as well
                    buf.push_str(nl);
                }
                if colon {
                    buf.push(':');
                }
                let mut npost = (r[8] % 3) as usize;
                if npost >= 2 && !self.on(D_WS) {
                    npost = 1;
                }
                for _ in 0..npost {
                    let c = self.hws(r[9]);
                    buf.push(c);
                }
            }
        }
        if buf.is_empty() && mandatory {
            buf.push(' ');
        }
        self.out.push_str(&buf);
    }

    /// text possibly containing the sigil ':' — blanks may surround it (documented rule 2)
    fn colon_text(&mut self, s: &str) {
        let parts: Vec<&str> = s.split(':').collect();
        for (i, p) in parts.iter().enumerate() {
            if i > 0 {
                let b = self.t.byte();
                let before = b >= 200 && b % 2 == 0;
                let after = b >= 200 && b % 3 != 0;
                if (before || after) && self.on(D_COLONWS) {
                    if before {
                        self.out.push(' ');
                    }
                    self.out.push(':');
                    if after {
                        self.out.push(' ');
                    }
                } else {
                    self.out.push(':');
                }
            }
            self.out.push_str(p);
        }
    }

    fn arg(&mut self, a: &Arg) {
        let sb = self.t.byte();
        match &a.val {
            None => {
                match subscripted(&a.key) {
                    Some(s) if sb >= 160 && self.on(D_SUBFLAG) => self.out.push_str(&s),
                    _ => self.out.push_str(&a.key),
                }
            }
            Some(atoms) => {
                match subscripted(&a.key) {
                    Some(s) if sb >= 128 && self.on(D_SUB) => self.out.push_str(&s),
                    _ => self.out.push_str(&a.key),
                }
                self.gap(false, D_EQ);
                self.out.push('=');
                self.gap(false, D_EQ);
                for (i, at) in atoms.iter().enumerate() {
                    if i > 0 {
                        self.gap(false, D_COMMA);
                        self.out.push(',');
                        self.gap(false, D_COMMA);
                    }
                    self.colon_text(at);
                }
            }
        }
    }

    fn step(&mut self, st: &Step, word_fwd: bool, word_inv: bool) {
        // where do the modifier words go?
        let mut prefix: Vec<&str> = vec![];
        let mut suffix: Vec<&str> = vec![];
        let mut infix: Vec<(usize, &str)> = vec![];
        for (on, w) in [(st.inv, "inv"), (word_fwd, "omit_fwd"), (word_inv, "omit_inv")] {
            let pb = self.t.byte();
            let ib = self.t.byte();
            if !on {
                continue;
            }
            if (128..192).contains(&pb) && self.on(D_PREFIX) {
                prefix.push(w);
            } else if pb >= 192 && !st.args.is_empty() && self.on(D_INFIX) {
                infix.push(((ib as usize * st.args.len()) >> 8, w));
            } else {
                suffix.push(w);
            }
        }
        for w in &prefix {
            self.out.push_str(w);
            self.gap(true, 0);
        }
        self.colon_text(&st.name);
        self.lead = false;
        for (i, a) in st.args.iter().enumerate() {
            for (at, w) in &infix {
                if *at == i {
                    self.gap(true, 0);
                    self.out.push_str(w);
                }
            }
            self.gap(true, 0);
            self.arg(a);
        }
        for w in &suffix {
            self.gap(true, 0);
            self.out.push_str(w);
        }
    }
}

/// Render `steps` with the layout choices on `tape`; dimensions in `off` are forced canonical.
fn render(steps: &[Step], tape: &[u8], off: u32) -> Rendered {
    let mut r = Rend { t: Tape::new(tape), off, out: String::new(), dims: 0, lead: true };
    // leading junk: blank/comment lines, empty steps
    r.gap(false, 0);
    for _ in 0..2 {
        let b = r.t.byte();
        if b >= 215 && r.on(D_EMPTY) {
            r.out.push('|');
            r.gap(false, D_PIPE);
        }
    }
    for (i, st) in steps.iter().enumerate() {
        let sb = r.t.byte();
        let mut word_fwd = st.omit_fwd;
        let mut word_inv = st.omit_inv;
        let mut sugar: Option<char> = None;
        if sb >= 128 && (st.omit_fwd || st.omit_inv) && r.on(D_SUGAR) {
            if st.omit_fwd && (sb % 2 == 0 || !st.omit_inv) {
                sugar = Some('<');
                word_fwd = false;
            } else {
                sugar = Some('>');
                word_inv = false;
            }
        }
        if i > 0 || sugar.is_some() {
            if i > 0 {
                r.gap(false, D_PIPE);
                let eb = r.t.byte();
                if eb >= 225 && r.on(D_EMPTY) {
                    r.out.push('|');
                    r.gap(false, D_PIPE);
                }
            }
            r.out.push(sugar.unwrap_or('|'));
            r.gap(false, D_PIPE);
        }
        r.step(st, word_fwd, word_inv);
    }
    // trailing junk
    r.gap(false, 0);
    let b = r.t.byte();
    if b >= 215 && r.on(D_EMPTY) {
        r.out.push('|');
        r.gap(false, D_PIPE);
    }
    let b = r.t.byte();
    if b >= 230 && r.on(D_COMMENT) {
        r.out.push_str(" #");
        r.out.push_str(COMMENTS[(b - 230) as usize % COMMENTS.len()]);
    }
    Rendered { text: r.out, dims: r.dims }
}

/// The library decides "pipeline or single operator" on the raw text.
fn is_plain(text: &str) -> bool {
    !text.contains(['|', '<', '>'])
}

// ===================================================================================
// known classes excluded by construction
// ===================================================================================

/// A known defect class: when its key is listed as a known finding, renderings that fall
/// into the class are re-rendered with the dimensions in `off` forced canonical.
struct Rule {
    key: &'static str,
    /// applies to the tokenizer section (true) or to the context level section (false)
    tok: bool,
    applies: fn(&[Step], &Rendered) -> bool,
    off: u32,
}

fn has_macro_inv(steps: &[Step]) -> bool {
    steps.iter().any(|s| s.name.contains(':') && s.inv)
}

/// Does the raw text, tokenised the way the pipeline constructor does it, carry an `inv`
/// with a value that is not a boolean constant?
fn raw_inv_value(text: &str) -> bool {
    match guard::guard(|| text.split_into_parameters()) {
        Ok(m) => m.get("inv").map(|v| !(v.is_empty() || v.to_lowercase() == "true")).unwrap_or(false),
        Err(_) => false,
    }
}

const WS_DIMS: u32 = D_WS | D_TAB | D_EXOTIC | D_LF | D_CRLF | D_CR | D_CONT | D_COMMENT;

const RULES: [Rule; 7] = [
    // comments are not stripped when the text is a single operator (no | < >)
    Rule { key: "layout:comment@plain", tok: false, applies: |_, r| r.dims & D_COMMENT != 0 && is_plain(&r.text), off: D_COMMENT },
    // ... and the pipeline constructor tokenises the raw text (comments included) looking for `inv`
    Rule { key: "layout:comment", tok: false, applies: |_, r| r.dims & D_COMMENT != 0 && !is_plain(&r.text) && raw_inv_value(&r.text), off: D_COMMENT },
    // CR-only line end followed by a continuation colon: normalize() only knows "\n:"
    Rule { key: "layout:cr+continuation-colon@plain", tok: false, applies: |_, r| r.dims & D_CONT != 0 && r.dims & D_CR != 0 && is_plain(&r.text), off: D_CR },
    Rule { key: "tok-layout:cr+continuation-colon", tok: true, applies: |_, r| r.dims & D_CONT != 0 && r.dims & D_CR != 0, off: D_CR },
    // `inv` of a macro invocation is detected by substring search on the text: the prefix
    // position is missed, and so is anything but single blanks in a single operator text
    Rule {
        key: "layout:macro-inv",
        tok: false,
        applies: |s, r| has_macro_inv(s) && (r.dims & D_PREFIX != 0 || (is_plain(&r.text) && r.dims & WS_DIMS != 0)),
        off: D_PREFIX | WS_DIMS,
    },
    // subscript digits are only translated in front of '='
    Rule { key: "layout:subscript-flag", tok: false, applies: |_, r| r.dims & D_SUBFLAG != 0, off: D_SUBFLAG },
    Rule { key: "tok-layout:subscript-flag", tok: true, applies: |_, r| r.dims & D_SUBFLAG != 0, off: D_SUBFLAG },
];

#[derive(Clone, Copy, Debug, Default)]
struct Excl {
    tok: bool,     // rules of the tokenizer section (else of the context level section)
    rules: u32,    // bit i: RULES[i] is a listed known finding
    mb_tail: bool, // real/series values ending in a multi-byte character (parse_sexagesimal panic)
}

const KEY_MB_TAIL: &str = "panic-params@math/angular.rs:char-boundary";

impl Excl {
    fn from_known(known: &HashSet<String>) -> Excl {
        let mut rules = 0;
        for (i, r) in RULES.iter().enumerate() {
            if known.contains(r.key) {
                rules |= 1 << i;
            }
        }
        Excl { tok: false, rules, mb_tail: known.contains(KEY_MB_TAIL) }
    }
}

/// Render, then force the dimensions of listed known classes canonical. Returns the
/// rendering and the number of exclusions applied.
fn render_excl(steps: &[Step], tape: &[u8], off: u32, ex: Excl) -> (Rendered, u32) {
    let mut extra = 0u32;
    let mut n = 0;
    loop {
        let r = render(steps, tape, off | extra);
        let mut changed = false;
        for (i, rule) in RULES.iter().enumerate() {
            if ex.rules & (1 << i) != 0 && rule.tok == ex.tok && rule.off & !(off | extra) != 0 && (rule.applies)(steps, &r) {
                extra |= rule.off;
                changed = true;
                n += 1;
            }
        }
        if !changed {
            return (r, n);
        }
    }
}

/// Which layout dimensions does the failure need? Greedy minimisation: every used dimension
/// is switched off in turn and stays off if the failure persists; what remains is a minimal
/// failing layout. Separator-blank dimensions that merely host a line end, comment or blank
/// are dropped from the signature. `fails(steps, rendering)` re-runs the judgement. The
/// result is the failure key suffix `<dims>[@plain][/macro-inv]`.
fn attribute(steps: &[Step], tape: &[u8], ex: Excl, r0: &Rendered, fails: &dyn Fn(&[Step], &Rendered) -> bool) -> String {
    const CONTENT: u32 = D_WS | D_TAB | D_EXOTIC | D_COLONWS | D_LF | D_CRLF | D_CR | D_CONT | D_COMMENT;
    const GATES: u32 = D_EQ | D_COMMA | D_PIPE;
    let mut off = 0u32;
    for (bit, _) in DIM_NAMES {
        if r0.dims & bit == 0 {
            continue;
        }
        let (r, _) = render_excl(steps, tape, off | bit, ex);
        if fails(steps, &r) {
            off |= bit;
        }
    }
    let (rmin, _) = render_excl(steps, tape, off, ex);
    let mut need = rmin.dims;
    if need & CONTENT != 0 {
        need &= !GATES;
    }
    if need & D_COMMENT != 0 {
        need &= !(D_LF | D_CRLF | D_CR);
    }
    if need & D_CR != 0 && need & D_CONT != 0 {
        // "\r:" is the trigger, whatever else shapes the symptom
        need = D_CR | D_CONT;
    }
    let mut key = if need == 0 { "unattributed".to_string() } else { dim_names(need) };
    if is_plain(&rmin.text) {
        // does it need the single-operator path? (an empty step in front makes it a pipeline)
        let piped = Rendered { text: format!("|{}", rmin.text), dims: rmin.dims };
        if !fails(steps, &piped) {
            key.push_str("@plain");
        }
    }
    if has_macro_inv(steps) {
        // does the failure need the `inv` of a macro invocation?
        let mut s2 = steps.to_vec();
        for s in s2.iter_mut() {
            if s.name.contains(':') {
                s.inv = false;
            }
        }
        let (r, _) = render_excl(&s2, tape, off, ex);
        if !fails(&s2, &r) {
            // one class: the `inv` of a macro invocation depends on position and blanks
            return "macro-inv".to_string();
        }
    }
    key
}

// ===================================================================================
// tokenizer level evaluation (reference model from the AST)
// ===================================================================================

fn tok_eval(steps: &[Step], r: &Rendered) -> Result<(), Fail2> {
    let text = r.text.as_str();
    let got = match guard::guard(|| text.split_into_steps()) {
        Ok(g) => g,
        Err(p) => return Err((format!("panic-split_into_steps@{}", panic_kind(&p)), format!("split_into_steps panics: {} at {}:{}", p.msg, p.file, p.line))),
    };
    if got.len() != steps.len() {
        return Err(("tok-step-count".into(), format!("split_into_steps gives {} steps {:?}, the definition has {}", got.len(), got, steps.len())));
    }
    for (i, (g, st)) in got.iter().zip(steps).enumerate() {
        // a step made of modifiers only would make split_into_parameters spin: never feed one
        let first_words: Vec<&str> = g.split_whitespace().collect();
        if first_words.iter().all(|w| ["inv", "omit_fwd", "omit_inv"].contains(w)) {
            return Err(("tok-step-lost-name".into(), format!("step {i} reported as '{g}' (modifiers only)")));
        }
        let map = match guard::guard(|| g.split_into_parameters()) {
            Ok(m) => m,
            Err(p) => return Err((format!("panic-split_into_parameters@{}", panic_kind(&p)), format!("split_into_parameters('{g}') panics: {}", p.msg))),
        };
        let want = model_map(st);
        if map != want {
            return Err(("tok-params".into(), format!("step {i} reported as '{g}' -> parameters {map:?}, expected {want:?}")));
        }
        let again = g.normalize();
        if &again != g {
            return Err(("tok-step-not-normal".into(), format!("reported step '{g}' changes under normalize: '{again}'")));
        }
    }
    if r.dims & D_COMMENT == 0 {
        // comment free text: normalize is idempotent
        let n1 = text.normalize();
        let n2 = n1.normalize();
        if n1 != n2 {
            return Err(("normalize-not-idempotent".into(), format!("normalize(t) = '{n1}' but normalize(normalize(t)) = '{n2}'")));
        }
        if is_plain(text) && steps.len() == 1 {
            let name = text.operator_name();
            if name != steps[0].name {
                return Err(("operator-name".into(), format!("operator_name() = '{name}', expected '{}'", steps[0].name)));
            }
            if text.is_resource_name() != steps[0].name.contains(':') {
                return Err(("is-resource-name".into(), format!("is_resource_name() = {}", text.is_resource_name())));
            }
        }
    }
    if is_plain(text) == text.is_pipeline() {
        return Err(("is-pipeline".into(), format!("is_pipeline() = {}", text.is_pipeline())));
    }
    Ok(())
}

// ===================================================================================
// the harness' own operator: a gamut with every parameter kind
// ===================================================================================

#[rustfmt::skip]
const TYPED_GAMUT: [OpParameter; 26] = [
    OpParameter::Flag    { key: "inv" },
    OpParameter::Flag    { key: "flag_a" },
    OpParameter::Flag    { key: "f_1" },
    OpParameter::Natural { key: "nat_req",   default: None },
    OpParameter::Natural { key: "nat_opt",   default: Some(7) },
    OpParameter::Natural { key: "n_2",       default: Some(0) },
    OpParameter::Integer { key: "int_req",   default: None },
    OpParameter::Integer { key: "int_opt",   default: Some(-3) },
    OpParameter::Real    { key: "real_req",  default: None },
    OpParameter::Real    { key: "real_opt",  default: Some(1.25) },
    OpParameter::Real    { key: "r_1",       default: Some(0.5) },
    OpParameter::Real    { key: "r_2",       default: Some(-2.0) },
    OpParameter::Real    { key: "r_3",       default: Some(0.0) },
    OpParameter::Real    { key: "r_4",       default: Some(4.0) },
    OpParameter::Real    { key: "lat_1",     default: Some(0.25) },
    OpParameter::Real    { key: "k_2",       default: Some(2.0) },
    OpParameter::Series  { key: "ser_req",   default: None },
    OpParameter::Series  { key: "ser_opt",   default: Some("1,2:30,3") },
    OpParameter::Series  { key: "ser_none",  default: Some("") },
    OpParameter::Text    { key: "txt_req",   default: None },
    OpParameter::Text    { key: "txt_opt",   default: Some("dflt") },
    OpParameter::Texts   { key: "txts_req",  default: None },
    OpParameter::Texts   { key: "txts_opt",  default: Some("foo, bar") },
    OpParameter::Texts   { key: "txts_none", default: Some("") },
    OpParameter::Text    { key: "t_5",       default: Some("five") },
    OpParameter::Integer { key: "i_6",       default: Some(6) },
];

fn typed_shift(op: &Op) -> [f64; 4] {
    let p = &op.params;
    [
        p.real("real_req").unwrap_or(0.) + p.real("r_1").unwrap_or(0.) + p.real("lat_1").unwrap_or(0.),
        p.natural("nat_req").unwrap_or(0) as f64 + p.natural("n_2").unwrap_or(0) as f64 + if p.boolean("f_1") { 0.5 } else { 0. },
        p.integer("int_req").unwrap_or(0) as f64 + p.text("txt_req").map(|t| t.len()).unwrap_or(0) as f64,
        p.series("ser_req").map(|s| s.iter().sum::<f64>()).unwrap_or(0.) + p.texts("txts_req").map(|t| t.len()).unwrap_or(0) as f64,
    ]
}

fn typed_fwd(op: &Op, _ctx: &dyn Context, operands: &mut dyn CoordinateSet) -> usize {
    let s = typed_shift(op);
    let n = operands.len();
    for i in 0..n {
        let mut c = operands.get_coord(i);
        for k in 0..4 {
            c[k] += s[k];
        }
        operands.set_coord(i, &c);
    }
    n
}

fn typed_inv(op: &Op, _ctx: &dyn Context, operands: &mut dyn CoordinateSet) -> usize {
    let s = typed_shift(op);
    let n = operands.len();
    for i in 0..n {
        let mut c = operands.get_coord(i);
        for k in 0..4 {
            c[k] -= s[k];
        }
        operands.set_coord(i, &c);
    }
    n
}

fn typed_new(parameters: &RawParameters, ctx: &dyn Context) -> Result<Op, Error> {
    Op::plain(parameters, InnerOp(typed_fwd), Some(InnerOp(typed_inv)), &TYPED_GAMUT, ctx)
}

fn new_ctx() -> Minimal {
    let mut c = Minimal::new();
    c.register_op("c16typed", OpConstructor(typed_new));
    c.register_resource("c16:one", "addone");
    c.register_resource("c16:shift", "helmert x=$shift(1) y=(2) | addone");
    c
}

// ===================================================================================
// context level observation of one definition text
// ===================================================================================

struct Obs {
    step_texts: Vec<String>,
    params: Vec<String>,
    fwd: Result<(usize, Vec<Coor4D>), String>,
    inv: Result<(usize, Vec<Coor4D>), String>,
}

/// Outer Err = panic (failure kind, message); inner Err = instantiation error text.
fn observe(text: &str, probes: &[Coor4D]) -> Result<Result<Obs, String>, Fail2> {
    let mut ctx = new_ctx();
    let op = match try_op(&mut ctx, text) {
        Err(p) => return Err((format!("panic-instantiate@{}", panic_kind(&p)), format!("instantiation panics: {} at {}:{}", p.msg, p.file, p.line))),
        Ok(Err(e)) => return Ok(Err(format!("{e:?}"))),
        Ok(Ok(op)) => op,
    };
    let step_texts = match guard::guard(|| ctx.steps(op).map(|s| s.clone())) {
        Err(p) => return Err((format!("panic-steps@{}", panic_kind(&p)), format!("ctx.steps panics: {}", p.msg))),
        Ok(Err(e)) => return Err(("steps-error".into(), format!("ctx.steps returns {e:?}"))),
        Ok(Ok(s)) => s,
    };
    let mut params = vec![];
    for i in 0..24 {
        match guard::guard(|| ctx.params(op, i)) {
            Err(p) => return Err((format!("panic-params-access@{}", panic_kind(&p)), format!("ctx.params panics: {}", p.msg))),
            Ok(Err(_)) => break,
            Ok(Ok(p)) => params.push(format!("{p:?}")),
        }
    }
    let run = |fwd: bool| -> Result<Result<(usize, Vec<Coor4D>), String>, Fail2> {
        let mut data = probes.to_vec();
        match try_apply(&ctx, op, dir_of(fwd), &mut data) {
            Err(p) => Err((format!("panic-apply@{}", panic_kind(&p)), format!("apply ({}) panics: {} at {}:{}", if fwd { "fwd" } else { "inv" }, p.msg, p.file, p.line))),
            Ok(Err(e)) => Ok(Err(format!("{e:?}"))),
            Ok(Ok(n)) => Ok(Ok((n, data))),
        }
    };
    let fwd = run(true)?;
    let inv = run(false)?;
    Ok(Ok(Obs { step_texts, params, fwd, inv }))
}

fn same_result(a: &Result<(usize, Vec<Coor4D>), String>, b: &Result<(usize, Vec<Coor4D>), String>) -> bool {
    match (a, b) {
        (Ok((na, da)), Ok((nb, db))) => na == nb && vec_bits_eq(da, db),
        (Err(_), Err(_)) => true,
        _ => false,
    }
}

fn fmt_result(a: &Result<(usize, Vec<Coor4D>), String>) -> String {
    match a {
        Ok((n, d)) => format!("count {n}, {}", d.iter().map(fmt_c4).collect::<Vec<_>>().join(" ")),
        Err(e) => format!("Err({e})"),
    }
}

/// Judge one rendering against the canonical observation and the AST model.
fn beh_eval(steps: &[Step], canon_obs: &Obs, r: &Rendered, probes: &[Coor4D]) -> Result<(), Fail2> {
    let obs = match observe(&r.text, probes)? {
        Err(e) => return Err(("layout-breaks-instantiation".into(), format!("the canonical text instantiates, this layout gives {e}"))),
        Ok(o) => o,
    };
    // a definition that is one macro invocation reports the steps of the macro body when it is
    // a single operator text, and the invocation itself when written as a one-step pipeline:
    // both are step lists of the same definition at different expansion levels (not compared)
    let single_macro = steps.len() == 1 && steps[0].name.contains(':');
    if !single_macro && obs.step_texts.len() != canon_obs.step_texts.len() {
        return Err(("ctx-step-count".into(), format!("ctx.steps: {:?} vs canonical {:?}", obs.step_texts, canon_obs.step_texts)));
    }
    for (i, (a, b)) in obs.step_texts.iter().zip(&canon_obs.step_texts).enumerate() {
        if single_macro {
            break;
        }
        let words: Vec<&str> = a.split_whitespace().collect();
        if words.iter().all(|w| ["inv", "omit_fwd", "omit_inv"].contains(w)) {
            return Err(("ctx-step-lost-name".into(), format!("ctx.steps()[{i}] = '{a}'")));
        }
        let (ma, mb) = (a.split_into_parameters(), b.split_into_parameters());
        if ma != mb {
            return Err(("ctx-steps".into(), format!("ctx.steps()[{i}] = '{a}' -> {ma:?}; canonical '{b}' -> {mb:?}")));
        }
    }
    if !single_macro {
        for (i, (a, st)) in obs.step_texts.iter().zip(steps).enumerate() {
            let (ma, want) = (a.split_into_parameters(), model_map(st));
            if ma != want {
                return Err(("ctx-steps-model".into(), format!("ctx.steps()[{i}] = '{a}' -> {ma:?}; the definition says {want:?}")));
            }
        }
    }
    if !single_macro && obs.params.len() != canon_obs.params.len() {
        return Err(("ctx-params-count".into(), format!("{} parameter sets vs canonical {}", obs.params.len(), canon_obs.params.len())));
    }
    for (i, (a, b)) in obs.params.iter().zip(&canon_obs.params).enumerate() {
        if single_macro {
            break;
        }
        if a != b {
            return Err(("ctx-params".into(), format!("ctx.params(op, {i}) differs:\n   this layout: {a}\n   canonical:   {b}")));
        }
    }
    if !same_result(&obs.fwd, &canon_obs.fwd) {
        return Err(("behaviour-fwd".into(), format!("forward: {} vs canonical {}", fmt_result(&obs.fwd), fmt_result(&canon_obs.fwd))));
    }
    if !same_result(&obs.inv, &canon_obs.inv) {
        return Err(("behaviour-inv".into(), format!("inverse: {} vs canonical {}", fmt_result(&obs.inv), fmt_result(&canon_obs.inv))));
    }
    Ok(())
}

// ===================================================================================
// value spellings
// ===================================================================================

fn rand_digits(d: &mut Dice, n: usize) -> String {
    (0..n).map(|_| (b'0' + d.pick(10) as u8) as char).collect()
}

/// A decimal number in one of the documented spellings. `int` and `frac` are digit strings.
fn spell_dec(d: &mut Dice, neg: bool, int: &str, frac: &str) -> String {
    let sign = if neg { "-" } else { "" };
    let plain = if frac.is_empty() { format!("{sign}{int}") } else { format!("{sign}{int}.{frac}") };
    match d.pick(10) {
        0..=5 => plain,
        6 => format!("{sign}0{int}{}{frac}", if frac.is_empty() { "" } else { "." }),
        7 => format!("{sign}{int}{frac}e-{}", frac.len()),
        8 => format!("{plain}E+00"),
        _ => format!("{sign}{int}{frac}0e-{}", frac.len() + 1),
    }
}

/// An angle below `maxdeg` degrees: decimal or sexagesimal, sign or hemisphere letter.
fn spell_angle(d: &mut Dice, mindeg: usize, maxdeg: usize, hemi: (char, char), allow_neg: bool) -> String {
    let deg = mindeg + d.pick(maxdeg - mindeg);
    let neg = allow_neg && d.chance(1, 3);
    let form = d.pick(8);
    let m = d.pick(60);
    let s = d.pick(60);
    let pad = d.chance(1, 2);
    let two = |v: usize| if pad { format!("{v:02}") } else { format!("{v}") };
    let letter = |d: &mut Dice, neg: bool| -> String {
        let c = if neg { hemi.1 } else { hemi.0 };
        if d.chance(1, 3) {
            c.to_ascii_lowercase().to_string()
        } else {
            c.to_string()
        }
    };
    match form {
        0 | 1 => {
            let nf = d.pick(7);
            let frac = rand_digits(d, nf);
            spell_dec(d, neg, &deg.to_string(), &frac)
        }
        2 => format!("{}{deg}:{}", if neg { "-" } else { "" }, two(m)),
        3 => format!("{}{deg}:{}:{}", if neg { "-" } else { "" }, two(m), two(s)),
        4 => {
            let nf = 1 + d.pick(4);
            format!("{}{deg}:{}:{}.{}", if neg { "-" } else { "" }, two(m), two(s), rand_digits(d, nf))
        }
        5 => {
            let nf = d.pick(4);
            let l = letter(d, neg);
            if nf == 0 {
                format!("{deg}{l}")
            } else {
                format!("{deg}.{}{l}", rand_digits(d, nf))
            }
        }
        6 => {
            let l = letter(d, neg);
            format!("{deg}:{}:{}{l}", two(m), two(s))
        }
        _ => {
            let nf = 1 + d.pick(3);
            format!("{}{deg}:{}.{}", if neg { "-" } else { "" }, two(m), rand_digits(d, nf))
        }
    }
}

fn spell_metres(d: &mut Dice, max_int: usize, max_frac: usize) -> String {
    let int = d.pick(max_int + 1).to_string();
    let nf = d.pick(max_frac + 1);
    let frac = rand_digits(d, nf);
    let neg = d.chance(1, 3);
    spell_dec(d, neg, &int, &frac)
}

#[derive(Clone, Copy, PartialEq, Debug)]
enum Dom {
    Flag,
    Lat,
    LatLow,
    LatHigh,
    Lon,
    Metres,
    Scale,
    Small,
    Epoch,
    Zone,
    Ellps,
    Unit,
    Desc,
    Perm,
    Tri,
    Conv,
    Tide,
    Idx,
    FreeNat,
    FreeInt,
    FreeReal,
    FreeSeries,
    FreeText,
    FreeTexts,
}

const ELLPS: [&str; 6] = ["GRS80", "intl", "WGS84", "bessel", "airy", "GRS67"];
const UNITS: [&str; 10] = ["m", "km", "cm", "mm", "ft", "us-ft", "yd", "kmi", "deg", "rad"];
const DESCS: [&str; 4] = ["neuf_deg", "enuf_deg", "neuf", "enuf"];
const WORDS_TXT: [&str; 12] = ["abc", "GRS80", "blåbær", "é", "x₁", "true", "a/b", "1:30", "中文", "us-ft", "Z", "ünï"];

/// A valid value for a parameter of domain `dom`: None = bare flag, Some(atoms) otherwise.
fn gen_value(d: &mut Dice, dom: Dom) -> Option<Vec<String>> {
    let one = |s: String| Some(vec![s]);
    match dom {
        Dom::Flag => None,
        Dom::Lat => one(spell_angle(d, 0, 80, ('N', 'S'), true)),
        Dom::LatLow => one(spell_angle(d, 30, 40, ('N', 'S'), false)),
        Dom::LatHigh => one(spell_angle(d, 45, 60, ('N', 'S'), false)),
        Dom::Lon => one(spell_angle(d, 0, 180, ('E', 'W'), true)),
        Dom::Metres => one(spell_metres(d, 9_999_999, 3)),
        Dom::Small => one(spell_metres(d, 500, 4)),
        Dom::Scale => one(d.choose(&["1", "0.9996", "0.99975", "1.0001", "0.9999", "9996e-4", "1.0"]).to_string()),
        Dom::Epoch => one(d.choose(&["2000", "1994.0", "2020.5", "2e3"]).to_string()),
        Dom::Zone => {
            let z = 1 + d.pick(60);
            one(if d.chance(1, 5) { format!("{z:02}") } else { format!("{z}") })
        }
        Dom::Ellps => {
            if d.chance(1, 6) {
                Some(vec!["6378137".to_string(), "298.25".to_string()])
            } else {
                one(d.choose(&ELLPS).to_string())
            }
        }
        Dom::Unit => one(d.choose(&UNITS).to_string()),
        Dom::Desc => one(d.choose(&DESCS).to_string()),
        Dom::Perm => {
            let n = 2 + d.pick(3);
            let mut idx: Vec<i32> = (1..=n as i32).collect();
            for i in (1..n).rev() {
                let j = d.pick(i + 1);
                idx.swap(i, j);
            }
            Some(idx.iter().map(|i| if d.chance(1, 4) { format!("-{i}") } else { format!("{i}") }).collect())
        }
        Dom::Tri => Some((0..3).map(|_| spell_metres(d, 500, 3)).collect()),
        Dom::Conv => one(d.choose(&["position_vector", "coordinate_frame"]).to_string()),
        Dom::Tide => one(d.choose(&["mean", "zero", "free"]).to_string()),
        Dom::Idx => {
            let n = 1 + d.pick(3);
            Some((0..n).map(|_| format!("{}", 1 + d.pick(4))).collect())
        }
        Dom::FreeNat => one(d.pick(100_000).to_string()),
        Dom::FreeInt => one(format!("{}{}", if d.chance(1, 2) { "-" } else { "" }, d.pick(100_000))),
        Dom::FreeReal => one(match d.pick(3) {
            0 => spell_angle(d, 0, 360, ('N', 'S'), true),
            1 => spell_angle(d, 0, 180, ('E', 'W'), true),
            _ => spell_metres(d, 9_999_999, 6),
        }),
        Dom::FreeSeries => {
            let n = 1 + d.pick(4);
            Some((0..n).map(|_| if d.chance(1, 2) { spell_angle(d, 0, 90, ('N', 'S'), true) } else { spell_metres(d, 1000, 3) }).collect())
        }
        Dom::FreeText => one(d.choose(&WORDS_TXT).to_string()),
        Dom::FreeTexts => {
            let n = 1 + d.pick(3);
            Some((0..n).map(|_| d.choose(&WORDS_TXT).to_string()).collect())
        }
    }
}

// ===================================================================================
// operator table: gamuts transcribed from the documentation / sources
// ===================================================================================

#[derive(Clone, Copy, PartialEq, Debug)]
enum Kind {
    Flag,
    Nat,
    Int,
    Real,
    Series,
    Text,
    Texts,
}

#[derive(Clone, Copy, Debug)]
enum Df {
    Req,
    Absent,
    N(usize),
    I(i64),
    R(f64),
    S(&'static [f64]),
    T(&'static str),
    Ts(&'static [&'static str]),
}

struct KeySpec {
    key: &'static str,
    kind: Kind,
    df: Df,
    dom: Dom,
    /// the constructor leaves the parsed value untouched (so it can be compared)
    check: bool,
}

const fn ks(key: &'static str, kind: Kind, df: Df, dom: Dom) -> KeySpec {
    KeySpec { key, kind, df, dom, check: true }
}
const fn ku(key: &'static str, kind: Kind, df: Df, dom: Dom) -> KeySpec {
    KeySpec { key, kind, df, dom, check: false }
}

struct OpSpec {
    name: &'static str,
    keys: &'static [KeySpec],
    inv_ok: bool,
    pipeline_only: bool,
    /// usable in the typed sections (constructor accepts every combination the generator makes)
    typed: bool,
    /// exactly one of the keys must be given (stack)
    one_of: bool,
}

use Df::*;
use Kind::*;

const ELL: KeySpec = ks("ellps", Text, T("GRS80"), Dom::Ellps);

#[rustfmt::skip]
const OPS: [OpSpec; 20] = [
    OpSpec { name: "c16typed", inv_ok: true, pipeline_only: false, typed: true, one_of: false, keys: &[
        ks("flag_a", Flag, Absent, Dom::Flag), ks("f_1", Flag, Absent, Dom::Flag),
        ks("nat_req", Nat, Req, Dom::FreeNat), ks("nat_opt", Nat, N(7), Dom::FreeNat), ks("n_2", Nat, N(0), Dom::FreeNat),
        ks("int_req", Int, Req, Dom::FreeInt), ks("int_opt", Int, I(-3), Dom::FreeInt), ks("i_6", Int, I(6), Dom::FreeInt),
        ks("real_req", Real, Req, Dom::FreeReal), ks("real_opt", Real, R(1.25), Dom::FreeReal),
        ks("r_1", Real, R(0.5), Dom::FreeReal), ks("r_2", Real, R(-2.0), Dom::FreeReal), ks("r_3", Real, R(0.0), Dom::FreeReal),
        ks("r_4", Real, R(4.0), Dom::FreeReal), ks("lat_1", Real, R(0.25), Dom::FreeReal), ks("k_2", Real, R(2.0), Dom::FreeReal),
        ks("ser_req", Series, Req, Dom::FreeSeries), ks("ser_opt", Series, S(&[1.0, 2.5, 3.0]), Dom::FreeSeries), ks("ser_none", Series, Absent, Dom::FreeSeries),
        ks("txt_req", Text, Req, Dom::FreeText), ks("txt_opt", Text, T("dflt"), Dom::FreeText), ks("t_5", Text, T("five"), Dom::FreeText),
        ks("txts_req", Texts, Req, Dom::FreeTexts), ks("txts_opt", Texts, Ts(&["foo", "bar"]), Dom::FreeTexts), ks("txts_none", Texts, Absent, Dom::FreeTexts),
    ]},
    OpSpec { name: "addone", inv_ok: true, pipeline_only: false, typed: true, one_of: false, keys: &[] },
    OpSpec { name: "noop", inv_ok: true, pipeline_only: false, typed: false, one_of: false, keys: &[] },
    OpSpec { name: "helmert", inv_ok: true, pipeline_only: false, typed: true, one_of: false, keys: &[
        ks("x", Real, R(0.), Dom::Small), ks("y", Real, R(0.), Dom::Small), ks("z", Real, R(0.), Dom::Small), ks("s", Real, R(0.), Dom::Small),
        ks("translation", Series, S(&[0., 0., 0.]), Dom::Tri), ks("exact", Flag, Absent, Dom::Flag),
        ks("convention", Text, T(""), Dom::Conv), ks("t_epoch", Real, R(f64::NAN), Dom::Epoch),
    ]},
    OpSpec { name: "axisswap", inv_ok: true, pipeline_only: false, typed: true, one_of: false, keys: &[ks("order", Series, S(&[1., 2., 3., 4.]), Dom::Perm)] },
    OpSpec { name: "unitconvert", inv_ok: true, pipeline_only: false, typed: true, one_of: false, keys: &[
        ks("xy_in", Text, T("m"), Dom::Unit), ks("xy_out", Text, T("m"), Dom::Unit), ks("z_in", Text, T("m"), Dom::Unit), ks("z_out", Text, T("m"), Dom::Unit),
    ]},
    OpSpec { name: "utm", inv_ok: true, pipeline_only: false, typed: true, one_of: false, keys: &[ks("zone", Nat, Req, Dom::Zone), ks("south", Flag, Absent, Dom::Flag), ELL] },
    OpSpec { name: "butm", inv_ok: true, pipeline_only: false, typed: true, one_of: false, keys: &[ks("zone", Nat, Req, Dom::Zone), ks("south", Flag, Absent, Dom::Flag), ELL] },
    OpSpec { name: "tmerc", inv_ok: true, pipeline_only: false, typed: true, one_of: false, keys: &[
        ks("lat_0", Real, R(0.), Dom::Lat), ks("lon_0", Real, R(0.), Dom::Lon), ks("x_0", Real, R(0.), Dom::Metres), ks("y_0", Real, R(0.), Dom::Metres),
        ks("k_0", Real, R(1.), Dom::Scale), ELL,
    ]},
    OpSpec { name: "btmerc", inv_ok: true, pipeline_only: false, typed: true, one_of: false, keys: &[
        ks("lat_0", Real, R(0.), Dom::Lat), ks("lon_0", Real, R(0.), Dom::Lon), ks("x_0", Real, R(0.), Dom::Metres), ks("y_0", Real, R(0.), Dom::Metres),
        ks("k_0", Real, R(1.), Dom::Scale), ELL,
    ]},
    OpSpec { name: "merc", inv_ok: true, pipeline_only: false, typed: true, one_of: false, keys: &[
        ks("lat_0", Real, R(0.), Dom::Lat), ks("lon_0", Real, R(0.), Dom::Lon), ks("x_0", Real, R(0.), Dom::Metres), ks("y_0", Real, R(0.), Dom::Metres),
        ku("k_0", Real, R(1.), Dom::Scale), ks("lat_ts", Real, R(0.), Dom::Lat), ELL,
    ]},
    OpSpec { name: "laea", inv_ok: true, pipeline_only: false, typed: true, one_of: false, keys: &[
        ks("lat_0", Real, R(0.), Dom::Lat), ks("lon_0", Real, R(0.), Dom::Lon), ks("x_0", Real, R(0.), Dom::Metres), ks("y_0", Real, R(0.), Dom::Metres), ELL,
    ]},
    OpSpec { name: "lcc", inv_ok: true, pipeline_only: false, typed: false, one_of: false, keys: &[
        ku("lat_1", Real, Req, Dom::LatLow), ku("lat_2", Real, R(f64::NAN), Dom::LatHigh), ku("lat_0", Real, R(f64::NAN), Dom::LatLow),
        ku("lon_0", Real, R(0.), Dom::Lon), ku("x_0", Real, R(0.), Dom::Metres), ku("y_0", Real, R(0.), Dom::Metres), ELL,
    ]},
    OpSpec { name: "cart", inv_ok: true, pipeline_only: false, typed: true, one_of: false, keys: &[ELL] },
    OpSpec { name: "molodensky", inv_ok: true, pipeline_only: false, typed: true, one_of: false, keys: &[
        ks("dx", Real, R(0.), Dom::Small), ks("dy", Real, R(0.), Dom::Small), ks("dz", Real, R(0.), Dom::Small), ks("abridged", Flag, Absent, Dom::Flag),
        ks("ellps_0", Text, T("GRS80"), Dom::Ellps), ks("ellps_1", Text, T("GRS80"), Dom::Ellps),
    ]},
    OpSpec { name: "adapt", inv_ok: true, pipeline_only: false, typed: true, one_of: false, keys: &[ks("from", Text, T("enuf"), Dom::Desc), ks("to", Text, T("enuf"), Dom::Desc)] },
    OpSpec { name: "permtide", inv_ok: true, pipeline_only: false, typed: true, one_of: false, keys: &[
        ks("k", Real, R(0.3), Dom::Scale), ks("from", Text, Req, Dom::Tide), ks("to", Text, Req, Dom::Tide), ELL,
    ]},
    OpSpec { name: "stack", inv_ok: false, pipeline_only: true, typed: true, one_of: true, keys: &[
        ks("push", Series, Absent, Dom::Idx), ks("pop", Series, Absent, Dom::Idx), ks("flip", Series, Absent, Dom::Idx),
    ]},
    OpSpec { name: "push", inv_ok: false, pipeline_only: true, typed: true, one_of: false, keys: &[
        ks("v_1", Flag, Absent, Dom::Flag), ks("v_2", Flag, Absent, Dom::Flag), ks("v_3", Flag, Absent, Dom::Flag), ks("v_4", Flag, Absent, Dom::Flag),
    ]},
    OpSpec { name: "pop", inv_ok: false, pipeline_only: true, typed: true, one_of: false, keys: &[
        ks("v_1", Flag, Absent, Dom::Flag), ks("v_2", Flag, Absent, Dom::Flag), ks("v_3", Flag, Absent, Dom::Flag), ks("v_4", Flag, Absent, Dom::Flag),
    ]},
];

fn op_spec(name: &str) -> Option<&'static OpSpec> {
    OPS.iter().find(|o| o.name == name)
}

const MACROS: [&str; 10] = ["geo:in", "geo:out", "gis:in", "gis:out", "neu:in", "neu:out", "enu:in", "enu:out", "c16:one", "c16:shift"];
const JUNK_KEYS: [&str; 8] = ["foo", "bar_1", "zzz", "note", "q_9", "remark", "eggs", "ham_2"];

// ===================================================================================
// AST builders
// ===================================================================================

/// Unknown parameters: ignored by every operator.
fn junk_arg(d: &mut Dice) -> Arg {
    let key = d.choose(&JUNK_KEYS).to_string();
    let val = match d.pick(4) {
        0 => None,
        1 => Some(vec![d.choose(&WORDS_TXT).to_string()]),
        2 => Some(vec![spell_metres(d, 1000, 3)]),
        _ => Some(vec![d.choose(&WORDS_TXT).to_string(), spell_angle(d, 0, 90, ('N', 'S'), true)]),
    };
    Arg { key, val }
}

/// A step over the operator catalogue with sound parameter values.
fn cat_step(d: &mut Dice, multi: bool) -> Step {
    let mut st = Step { name: String::new(), args: vec![], inv: false, omit_fwd: false, omit_inv: false };
    if d.chance(1, 7) {
        st.name = d.choose(&MACROS).to_string();
        if st.name == "c16:shift" {
            if d.chance(1, 2) {
                st.args.push(Arg { key: "shift".into(), val: gen_value(d, Dom::Small) });
            }
            if d.chance(1, 2) {
                st.args.push(Arg { key: "y".into(), val: gen_value(d, Dom::Small) });
            }
        }
        st.inv = d.chance(1, 3);
    } else {
        // (the first draw selects the operator: an exhausted dice gives addone)
        let mut spec = &OPS[(d.pick(OPS.len()) + 1) % OPS.len()];
        if spec.pipeline_only && !multi {
            spec = op_spec("addone").unwrap();
        }
        st.name = spec.name.to_string();
        if spec.one_of {
            let k = &spec.keys[d.pick(spec.keys.len())];
            st.args.push(Arg { key: k.key.to_string(), val: gen_value(d, k.dom) });
        } else {
            for k in spec.keys {
                let required = matches!(k.df, Df::Req);
                if required || d.chance(2, 5) {
                    st.args.push(Arg { key: k.key.to_string(), val: gen_value(d, k.dom) });
                    if d.chance(1, 12) {
                        // repeated key: the last one wins
                        st.args.push(Arg { key: k.key.to_string(), val: gen_value(d, k.dom) });
                    }
                }
            }
            // shuffle the argument order a little
            let n = st.args.len();
            for i in (1..n).rev() {
                if d.chance(1, 2) {
                    let j = d.pick(i + 1);
                    st.args.swap(i, j);
                }
            }
        }
        if spec.inv_ok {
            st.inv = d.chance(1, 3);
        }
        if spec.name == "noop" || d.chance(1, 6) {
            let n = 1 + d.pick(2);
            for _ in 0..n {
                let j = junk_arg(d);
                let at = d.pick(st.args.len() + 1);
                st.args.insert(at, j);
            }
        }
    }
    if multi {
        // omit_* is documented for pipelines only
        st.omit_fwd = d.chance(1, 6);
        st.omit_inv = d.chance(1, 6);
    }
    st
}

fn cat_ast(dice: &[u32]) -> Vec<Step> {
    let mut d = Dice::new(dice);
    let n = [1, 1, 2, 2, 3, 3, 4, 5][d.pick(8)];
    (0..n).map(|_| cat_step(&mut d, n > 1)).collect()
}

const WORDS: [&str; 20] = [
    "foo", "bar", "baz", "bonk", "helmert", "utm", "cart", "x", "lat", "zone", "addone", "noop", "push", "stack", "adapt", "tmerc", "a", "b1", "ellps", "t_epoch",
];
const FREE_ATOMS: [&str; 24] = [
    "1", "-3", "12.5", "1e-3", "55:30:36N", "-0:30", "GRS80", "intl", "a/b", "blå", "é", "x₁", "true", "neuf_deg", "6378137", "298.257", "us-ft", "+5", "0", "A",
    "中文", "1:2", "inv_x", "omit",
];

/// A step with arbitrary names and keys (tokenizer level only).
fn free_step(d: &mut Dice) -> Step {
    let mut name = d.choose(&WORDS).to_string();
    if d.chance(1, 6) {
        name = format!("{}:{}", d.choose(&["geo", "gis", "my", "epsg"]), name);
    }
    let nargs = d.pick(6);
    let mut args = vec![];
    for _ in 0..nargs {
        let mut key = d.choose(&WORDS).to_string();
        if d.chance(1, 3) {
            key = format!("{key}_{}", d.pick(10));
        }
        let val = if d.chance(1, 4) {
            None
        } else {
            let n = [1, 1, 1, 2, 3][d.pick(5)];
            Some((0..n).map(|_| d.choose(&FREE_ATOMS).to_string()).collect())
        };
        args.push(Arg { key, val });
    }
    Step { name, args, inv: d.chance(1, 4), omit_fwd: d.chance(1, 6), omit_inv: d.chance(1, 6) }
}

fn free_ast(dice: &[u32]) -> Vec<Step> {
    let mut d = Dice::new(dice);
    let n = [1, 1, 2, 3, 4, 5][d.pick(6)];
    (0..n).map(|_| free_step(&mut d)).collect()
}

// ===================================================================================
// reference parsers for typed values (written from the documentation)
// ===================================================================================

/// What the documentation says about a value text for a given parameter kind.
#[derive(Clone, Debug, PartialEq)]
enum Want<T> {
    /// well-formed: must be accepted with this value
    Valid(T),
    /// not a value of this kind: must be rejected with an error naming the parameter
    Bad,
    /// outside the documented syntax but conceivably meaningful: accepted (then with this
    /// value, if one is given) or rejected with an error naming the parameter
    Odd(Option<T>),
}

const REL_TOL_SEXA: f64 = 3.0 * f64::EPSILON; // 3 * 2^-52: five roundings of d+(m+s/60)/60 plus input rounding

/// digits ['.' digits] -> (mantissa, number of fraction digits)
fn strict_udec(s: &str) -> Option<(u128, u32)> {
    let (i, f) = match s.split_once('.') {
        Some((i, f)) => (i, Some(f)),
        None => (s, None),
    };
    if i.is_empty() || !i.bytes().all(|b| b.is_ascii_digit()) {
        return None;
    }
    if let Some(f) = f {
        if f.is_empty() || !f.bytes().all(|b| b.is_ascii_digit()) {
            return None;
        }
    }
    let all = format!("{i}{}", f.unwrap_or(""));
    if all.len() > 30 {
        return None;
    }
    Some((all.parse::<u128>().ok()?, f.map(|f| f.len() as u32).unwrap_or(0)))
}

/// mantissa * 10^e10 as the nearest double (exact rational arithmetic where possible)
fn dec_to_f64(mant: u128, e10: i32) -> f64 {
    const P53: u128 = 1 << 53;
    if mant == 0 {
        return 0.0;
    }
    if mant < P53 && e10.abs() <= 22 {
        let p = 10f64.powi(e10.abs()); // exact up to 10^22
        return if e10 >= 0 { mant as f64 * p } else { mant as f64 / p }; // one correctly rounded operation
    }
    // outside the exact range: the standard library's correctly rounded conversion
    format!("{mant}e{e10}").parse::<f64>().unwrap_or(f64::NAN)
}

/// (value, relative tolerance, class)
fn ref_real(text: &str) -> (Want<(f64, f64)>, &'static str) {
    if text.is_empty() {
        return (Want::Bad, "empty");
    }
    if !text.is_ascii() {
        return (Want::Bad, "multi-byte");
    }
    // optional hemisphere letter
    let (body, hemi) = match text.as_bytes()[text.len() - 1] {
        b'N' | b'n' | b'E' | b'e' => (&text[..text.len() - 1], Some(1.0)),
        b'S' | b's' | b'W' | b'w' => (&text[..text.len() - 1], Some(-1.0)),
        _ => (text, None),
    };
    let hs = hemi.unwrap_or(1.0);
    if body.is_empty() {
        return (Want::Bad, "letter-only");
    }
    let comps: Vec<&str> = body.split(':').collect();
    if comps.len() > 3 {
        return (Want::Bad, "too-many-components");
    }
    if comps.iter().any(|c| c.is_empty()) {
        return (Want::Bad, "empty-component");
    }
    // garbage: a component the (trusted) standard parser cannot read as a number at all
    if comps.iter().any(|c| c.parse::<f64>().is_err()) {
        return (Want::Bad, "non-numeric");
    }
    let (neg, first) = match comps[0].strip_prefix('-') {
        Some(r) => (true, r),
        None => (false, comps[0]),
    };
    let sign = if neg { -hs } else { hs };
    if comps.len() == 1 {
        // decimal with optional exponent
        let (m, e) = match first.find(['e', 'E']) {
            Some(p) => (&first[..p], Some(&first[p + 1..])),
            None => (first, None),
        };
        let exp: Option<i32> = match e {
            None => Some(0),
            Some(e) => {
                let digits = e.strip_prefix(['+', '-']).unwrap_or(e);
                if digits.is_empty() || digits.len() > 4 || !digits.bytes().all(|b| b.is_ascii_digit()) {
                    None
                } else {
                    e.parse::<i32>().ok()
                }
            }
        };
        if let (Some((mant, fl)), Some(exp)) = (strict_udec(m), exp) {
            let v = dec_to_f64(mant, exp - fl as i32);
            if !v.is_finite() {
                return (Want::Odd(None), "overflow");
            }
            let class = match (e.is_some(), hemi.is_some(), neg) {
                (false, false, false) => "decimal",
                (false, false, true) => "decimal-neg",
                (true, false, _) => "decimal-exp",
                (_, true, false) => "decimal-hemi",
                (_, true, true) => "decimal-neg-hemi",
            };
            return (Want::Valid((sign * v, 0.0)), class);
        }
        // "+5", ".5", "5.", "inf", "nan" ...: the standard parser reads it, the documentation is silent
        if let Some(rest) = comps[0].strip_prefix('+') {
            if hemi.is_none() {
                if let (Want::Valid(v), _) = ref_real(rest) {
                    if !rest.starts_with(['+', '-']) {
                        return (Want::Odd(Some(v)), "plus-sign");
                    }
                }
            }
        }
        return (Want::Odd(None), "lenient-number");
    }
    // sexagesimal: [-]d:m[:s], components plain decimals, m and s below 60
    let mut parts = vec![];
    for (i, c) in comps.iter().enumerate() {
        let c = if i == 0 { first } else { c };
        match strict_udec(c) {
            Some((m, f)) if f <= 9 && m < 10u128.pow(13) => parts.push((m, f)),
            _ => return (Want::Odd(None), "lenient-sexagesimal"),
        }
    }
    let k = parts.iter().map(|p| p.1).max().unwrap();
    let scale = |p: (u128, u32)| p.0 * 10u128.pow(k - p.1);
    let unit = 10u128.pow(k);
    let d = scale(parts[0]);
    let m = scale(parts[1]);
    let s = if parts.len() == 3 { scale(parts[2]) } else { 0 };
    if m >= 60 * unit || s >= 60 * unit {
        return (Want::Odd(None), "minutes-or-seconds-above-60");
    }
    let num = d * 3600 + m * 60 + s;
    let den = 3600 * unit;
    let exact = num < (1 << 53) && den < (1 << 53);
    let v = num as f64 / den as f64; // exact operands: one correctly rounded division
    let tol = if exact { REL_TOL_SEXA } else { REL_TOL_SEXA + 2.0 * f64::EPSILON };
    let class = match (parts.len() == 3, hemi.is_some(), neg, d == 0) {
        (_, false, true, true) => "sexagesimal-neg-zero-degrees",
        (_, true, true, _) => "sexagesimal-neg-hemi",
        (false, false, false, _) => "sexagesimal-dm",
        (true, false, false, _) => "sexagesimal-dms",
        (_, false, true, false) => "sexagesimal-neg",
        (false, true, false, _) => "sexagesimal-dm-hemi",
        (true, true, false, _) => "sexagesimal-dms-hemi",
    };
    (Want::Valid((sign * v, tol)), class)
}

fn ref_nat(text: &str) -> (Want<usize>, &'static str) {
    let digits = text.strip_prefix('+').unwrap_or(text);
    if digits.is_empty() || !digits.bytes().all(|b| b.is_ascii_digit()) || digits.len() > 38 {
        return (Want::Bad, if text.is_empty() { "empty" } else { "not-a-natural" });
    }
    let v: u128 = digits.parse().unwrap();
    if v > usize::MAX as u128 {
        return (Want::Bad, "overflow");
    }
    if text.starts_with('+') {
        (Want::Odd(Some(v as usize)), "plus-sign")
    } else {
        (Want::Valid(v as usize), "natural")
    }
}

fn ref_int(text: &str) -> (Want<i64>, &'static str) {
    let (neg, plus, digits) = match (text.strip_prefix('-'), text.strip_prefix('+')) {
        (Some(r), _) => (true, false, r),
        (_, Some(r)) => (false, true, r),
        _ => (false, false, text),
    };
    if digits.is_empty() || !digits.bytes().all(|b| b.is_ascii_digit()) || digits.len() > 38 {
        return (Want::Bad, if text.is_empty() { "empty" } else { "not-an-integer" });
    }
    let m: i128 = digits.parse().unwrap();
    let v = if neg { -m } else { m };
    if v > i64::MAX as i128 || v < i64::MIN as i128 {
        return (Want::Bad, "overflow");
    }
    if plus {
        (Want::Odd(Some(v as i64)), "plus-sign")
    } else {
        (Want::Valid(v as i64), if neg { "integer-neg" } else { "integer" })
    }
}

fn ref_series(text: &str) -> (Want<Vec<(f64, f64)>>, &'static str) {
    if text.is_empty() {
        return (Want::Odd(None), "empty");
    }
    let mut out = vec![];
    let mut odd = false;
    let mut class = "series";
    let elems: Vec<&str> = text.split(',').collect();
    for (i, e) in elems.iter().enumerate() {
        if e.is_empty() && i + 1 == elems.len() && elems.len() > 1 {
            // trailing comma: not documented either way
            odd = true;
            class = "trailing-comma";
            continue;
        }
        match ref_real(e) {
            (Want::Valid(v), c) => {
                if c != "decimal" && c != "decimal-neg" {
                    class = "series-spelled";
                }
                out.push(v)
            }
            (Want::Bad, c) => return (Want::Bad, c),
            (Want::Odd(_), c) => {
                odd = true;
                class = c;
            }
        }
    }
    if odd {
        (Want::Odd(None), class)
    } else {
        (Want::Valid(out), class)
    }
}

fn real_matches(lib: f64, want: f64, tol: f64) -> bool {
    if want.is_nan() {
        return lib.is_nan();
    }
    if tol == 0.0 {
        return lib == want; // exact (0 and -0 identified)
    }
    (lib - want).abs() <= tol * want.abs()
}

fn selftest() {
    // examples from the library's own documentation and tests
    let v = |t: &str| match ref_real(t).0 {
        Want::Valid((v, _)) => v,
        other => panic!("reference parser: '{t}' -> {other:?}"),
    };
    assert!((v("1:30:36") - 1.51).abs() < 1e-15 && (v("-1:30:36") + 1.51).abs() < 1e-15);
    assert!((v("1:30:36N") - 1.51).abs() < 1e-15 && (v("1:30:36S") + 1.51).abs() < 1e-15);
    assert!((v("1:30:36e") - 1.51).abs() < 1e-15 && (v("1:30:36w") + 1.51).abs() < 1e-15);
    assert!(v("-0:30") == -0.5 && v("0:30") == 0.5 && v("-0:30S") == 0.5 && v("45:30:36") == 45.51);
    assert!(v("1e3") == 1000.0 && v("125e-1") == 12.5 && v("-2.5E+00") == -2.5 && v("007") == 7.0 && v("12W") == -12.0);
    assert!(v("0.1") == 0.1 && v("1e-3") == 0.001 && v("6378137.0") == 6378137.0 && v("1.5e300") == 1.5e300);
    for bad in ["", "abc", "q1:30:36w", "1:2:3:4", "1::3", "1:", ":1", "--1", "1..2", "1,5", "é5", "N", "1:30NN", "0x10", "NaN", "nan"] {
        assert!(ref_real(bad).0 == Want::Bad, "reference parser: '{bad}' should be Bad, is {:?}", ref_real(bad));
    }
    for odd in ["inf", "-inf", "+5", ".5", "5.", "1:-30", "1:60", "1e1:30", "1e400", "infinity"] {
        assert!(matches!(ref_real(odd).0, Want::Odd(_)), "reference parser: '{odd}' should be Odd, is {:?}", ref_real(odd));
    }
    assert!(ref_nat("007").0 == Want::Valid(7) && ref_nat("-1").0 == Want::Bad && ref_nat("18446744073709551616").0 == Want::Bad);
    assert!(ref_int("-007").0 == Want::Valid(-7) && ref_int("9223372036854775808").0 == Want::Bad && ref_int("-9223372036854775808").0 == Want::Valid(i64::MIN));
    // the renderer with an empty tape is a plain one-liner and the model agrees with the documented example
    let st = Step { name: "foo".into(), args: vec![Arg { key: "bar".into(), val: None }, Arg { key: "baz".into(), val: Some(vec!["bonk".into()]) }], inv: false, omit_fwd: false, omit_inv: false };
    assert_eq!(render(&[st.clone()], &[], 0).text, "foo bar baz=bonk");
    assert_eq!(canon(&[st.clone(), st.clone()]), "foo bar baz=bonk | foo bar baz=bonk");
    assert_eq!(subscripted("lat_0").as_deref(), Some("lat₀"));
    assert_eq!(subscripted("x"), None);
    for e in SER_ELEMS {
        assert!(matches!(ref_real(e).0, Want::Valid(_)), "series default element '{e}' must be well-formed");
    }
}

// ===================================================================================
// typed parameters: case, reference expectation, oracle
// ===================================================================================

#[derive(Clone, Debug, Serialize, Deserialize)]
struct TypedCase {
    op: String,
    /// ordered arguments; None = bare key, Some(text) = key=text
    args: Vec<(String, Option<String>)>,
    /// 0: alone, 1: "| step", 2: "noop | step", 3: "inv step", 4: "step | noop"
    wrap: u8,
    /// write keys ending in _<digit> with a subscript digit
    sub: bool,
    /// number of values of a known defect class replaced by the generator
    excluded: u32,
}

fn typed_text(c: &TypedCase) -> (String, usize) {
    let mut s = c.op.clone();
    for (k, v) in &c.args {
        s.push(' ');
        match (v, if c.sub { subscripted(k) } else { None }) {
            (Some(_), Some(sk)) => s.push_str(&sk),
            _ => s.push_str(k),
        }
        if let Some(v) = v {
            s.push('=');
            s.push_str(v);
        }
    }
    let inv_ok = op_spec(&c.op).map(|o| o.inv_ok).unwrap_or(false);
    match c.wrap {
        1 => (format!("| {s}"), 0),
        2 => (format!("noop | {s}"), 1),
        3 if inv_ok => (format!("inv {s}"), 0),
        4 => (format!("{s} | noop"), 0),
        _ => (s, 0),
    }
}

#[derive(Debug)]
enum Expect {
    Flag(Want<bool>),
    Nat(Want<usize>),
    Int(Want<i64>),
    Real(Want<(f64, f64)>),
    Series(Want<Vec<(f64, f64)>>),
    SeriesAbsent,
    Text(Want<String>),
    Texts(Want<Vec<String>>),
    TextsAbsent,
    MissingRequired,
}

impl Expect {
    fn must_err(&self) -> bool {
        matches!(
            self,
            Expect::MissingRequired
                | Expect::Flag(Want::Bad)
                | Expect::Nat(Want::Bad)
                | Expect::Int(Want::Bad)
                | Expect::Real(Want::Bad)
                | Expect::Series(Want::Bad)
                | Expect::Text(Want::Bad)
                | Expect::Texts(Want::Bad)
        )
    }
    fn may_err(&self) -> bool {
        matches!(
            self,
            Expect::Flag(Want::Odd(_))
                | Expect::Nat(Want::Odd(_))
                | Expect::Int(Want::Odd(_))
                | Expect::Real(Want::Odd(_))
                | Expect::Series(Want::Odd(_))
                | Expect::Text(Want::Odd(_))
                | Expect::Texts(Want::Odd(_))
        )
    }
}

/// Expectation for gamut entry `k` given the effective (last) occurrence of its key.
fn expect_for(k: &KeySpec, given: Option<&Option<String>>) -> (Expect, &'static str) {
    let Some(v) = given else {
        // omitted: documented default, or demanded
        return match (k.kind, k.df) {
            (_, Df::Req) => (Expect::MissingRequired, "missing-required"),
            (Kind::Flag, _) => (Expect::Flag(Want::Valid(false)), "default"),
            (Kind::Nat, Df::N(n)) => (Expect::Nat(Want::Valid(n)), "default"),
            (Kind::Int, Df::I(i)) => (Expect::Int(Want::Valid(i)), "default"),
            (Kind::Real, Df::R(r)) => (Expect::Real(Want::Valid((r, 0.0))), "default"),
            (Kind::Series, Df::S(s)) => (Expect::Series(Want::Valid(s.iter().map(|v| (*v, 0.0)).collect())), "default"),
            (Kind::Series, _) => (Expect::SeriesAbsent, "default"),
            (Kind::Text, Df::T(t)) => (Expect::Text(Want::Valid(t.to_string())), "default"),
            (Kind::Texts, Df::Ts(t)) => (Expect::Texts(Want::Valid(t.iter().map(|s| s.to_string()).collect())), "default"),
            (Kind::Texts, _) => (Expect::TextsAbsent, "default"),
            other => panic!("operator table: inconsistent default {other:?} for {}", k.key),
        };
    };
    // a bare key reads as the text "true"
    let text: &str = v.as_deref().unwrap_or("true");
    match k.kind {
        Kind::Flag => match v {
            None => (Expect::Flag(Want::Valid(true)), "bare"),
            Some(t) if t == "true" => (Expect::Flag(Want::Valid(true)), "equals-true"),
            // a flag is "true if present" (OpParameter::Flag): the explicit empty value `flag=` and
            // the boolean constant in any letter case are spellings of presence, not odd values
            Some(t) if t.is_empty() => (Expect::Flag(Want::Valid(true)), "empty"),
            Some(t) if t.to_lowercase() == "true" => (Expect::Flag(Want::Valid(true)), "true-any-case"),
            Some(_) => (Expect::Flag(Want::Odd(Some(false))), "other-text"),
        },
        Kind::Nat => {
            let (w, c) = ref_nat(text);
            (Expect::Nat(w), c)
        }
        Kind::Int => {
            let (w, c) = ref_int(text);
            (Expect::Int(w), c)
        }
        Kind::Real => {
            let (w, c) = ref_real(text);
            (Expect::Real(w), c)
        }
        Kind::Series => {
            let (w, c) = ref_series(text);
            (Expect::Series(w), c)
        }
        Kind::Text => (Expect::Text(Want::Valid(text.to_string())), if text.is_ascii() { "text" } else { "text-multi-byte" }),
        Kind::Texts => {
            let parts: Vec<String> = text.split(',').map(|s| s.to_string()).collect();
            if parts.iter().any(|p| p.is_empty()) {
                (Expect::Texts(Want::Odd(None)), "empty-element")
            } else {
                (Expect::Texts(Want::Valid(parts)), if text.is_ascii() { "texts" } else { "texts-multi-byte" })
            }
        }
    }
}

fn kind_name(k: Kind) -> &'static str {
    match k {
        Kind::Flag => "flag",
        Kind::Nat => "natural",
        Kind::Int => "integer",
        Kind::Real => "real",
        Kind::Series => "series",
        Kind::Text => "text",
        Kind::Texts => "texts",
    }
}

/// Compare the library's parsed value of key `k` with the expectation. Ok(None) = agrees.
fn compare_value(p: &ParsedParameters, k: &KeySpec, e: &Expect, rec: &mut Rec) -> Option<String> {
    let key = k.key;
    match e {
        Expect::Flag(Want::Valid(b)) | Expect::Flag(Want::Odd(Some(b))) => (p.boolean(key) != *b).then(|| format!("flag {key}: library {}, expected {b}", p.boolean(key))),
        Expect::Nat(Want::Valid(n)) | Expect::Nat(Want::Odd(Some(n))) => match p.natural(key) {
            Ok(v) if v == *n => None,
            other => Some(format!("natural {key}: library {other:?}, expected {n}")),
        },
        Expect::Int(Want::Valid(n)) | Expect::Int(Want::Odd(Some(n))) => match p.integer(key) {
            Ok(v) if v == *n => None,
            other => Some(format!("integer {key}: library {other:?}, expected {n}")),
        },
        Expect::Real(Want::Valid((w, tol))) | Expect::Real(Want::Odd(Some((w, tol)))) => match p.real(key) {
            Ok(v) => {
                if *tol > 0.0 && w.is_finite() && *w != 0.0 && v.is_finite() {
                    rec.metric("worst_sexagesimal_rel_err_in_eps", ((v - w) / w).abs() / f64::EPSILON);
                }
                (!real_matches(v, *w, *tol)).then(|| format!("real {key}: library {v:?}, expected {w:?} (relative tolerance {tol:e})"))
            }
            Err(e) => Some(format!("real {key}: library has no value ({e:?}), expected {w:?}")),
        },
        Expect::Series(Want::Valid(ws)) => match p.series(key) {
            Ok(vs) => {
                if vs.len() != ws.len() || vs.iter().zip(ws).any(|(v, (w, tol))| !real_matches(*v, *w, *tol)) {
                    Some(format!("series {key}: library {vs:?}, expected {:?}", ws.iter().map(|w| w.0).collect::<Vec<_>>()))
                } else {
                    None
                }
            }
            Err(e) => Some(format!("series {key}: library has no value ({e:?}), expected {} elements", ws.len())),
        },
        Expect::SeriesAbsent => p.series(key).is_ok().then(|| format!("series {key}: library {:?}, expected no value (empty default)", p.series(key))),
        Expect::Text(Want::Valid(t)) => match p.text(key) {
            Ok(v) if v == *t => None,
            other => Some(format!("text {key}: library {other:?}, expected {t:?}")),
        },
        Expect::Texts(Want::Valid(ts)) => match p.texts(key) {
            Ok(v) if v == ts => None,
            other => Some(format!("texts {key}: library {other:?}, expected {ts:?}")),
        },
        Expect::TextsAbsent => p.texts(key).is_ok().then(|| format!("texts {key}: library {:?}, expected no value (empty default)", p.texts(key))),
        _ => None,
    }
}

fn check_typed(c: &TypedCase, rec: &mut Rec) -> CaseResult {
    let Some(spec) = op_spec(&c.op) else { vfail!("harness-unknown-operator", "operator {} is not in the table", c.op) };
    let (text, index) = typed_text(c);
    rec.count("excluded_known", c.excluded as u64);
    // effective arguments: the last occurrence of a key wins
    let mut effective: BTreeMap<&str, &Option<String>> = BTreeMap::new();
    let mut occurrences: BTreeMap<&str, Vec<&Option<String>>> = BTreeMap::new();
    for (k, v) in &c.args {
        effective.insert(k.as_str(), v);
        occurrences.entry(k.as_str()).or_default().push(v);
    }
    let mut expects: Vec<(&KeySpec, Expect, &'static str)> = vec![];
    for k in spec.keys {
        let (e, class) = expect_for(k, effective.get(k.key).copied());
        expects.push((k, e, class));
    }
    let must: Vec<&str> = expects.iter().filter(|x| x.1.must_err()).map(|x| x.0.key).collect();
    let may: Vec<&str> = expects.iter().filter(|x| x.1.may_err()).map(|x| x.0.key).collect();
    let mut nontrivial = false;
    for (k, _, class) in &expects {
        if effective.contains_key(k.key) || *class == "missing-required" {
            rec.class(&format!("{}:{}", kind_name(k.kind), class));
            nontrivial |= !["decimal", "decimal-neg", "natural", "integer", "integer-neg", "text", "texts", "bare", "series"].contains(class);
        }
    }
    if occurrences.values().any(|v| v.len() > 1) {
        rec.class("repeated-key");
        nontrivial = true;
    }
    if c.args.iter().any(|(k, _)| !spec.keys.iter().any(|s| s.key == k)) {
        rec.class("unknown-key");
    }

    let mut ctx = new_ctx();
    let op = match try_op(&mut ctx, &text) {
        Err(p) => vfail!(format!("panic-params@{}", panic_kind(&p)), "instantiating '{text}' panics: {} at {}:{}", p.msg, p.file, p.line),
        Ok(r) => r,
    };
    match op {
        Err(e) => {
            rec.class("outcome:rejected");
            let named: Option<String> = match &e {
                Error::BadParam(k, _) | Error::MissingParam(k) => Some(k.clone()),
                _ => None,
            };
            let shown = format!("{e}");
            let names = |k: &str| named.as_deref() == Some(k) || shown.contains(&format!("'{k}'"));
            if must.iter().chain(may.iter()).any(|k| names(k)) {
                // rejected, and the error names an offending parameter
            } else if must.is_empty() && may.is_empty() {
                let which = expects.iter().find(|x| named.as_deref() == Some(x.0.key));
                let tag = match which {
                    Some((k, _, class)) => format!("{}:{}", kind_name(k.kind), class),
                    None => "other".to_string(),
                };
                vfail!(format!("valid-rejected:{tag}"), "'{text}': every parameter is well-formed, yet instantiation fails with {e:?}");
            } else {
                vfail!("error-does-not-name-parameter", "'{text}': expected an error naming one of {:?}{:?}, got {e:?}", must, may);
            }
        }
        Ok(op) => {
            rec.class("outcome:accepted");
            if let Some((k, _, class)) = expects.iter().find(|x| x.1.must_err()) {
                vfail!(
                    format!("accepted:{}:{}", kind_name(k.kind), class),
                    "'{text}': parameter {} ({}) is {} and must be rejected with an error naming it, but the operator was instantiated",
                    k.key,
                    kind_name(k.kind),
                    class
                );
            }
            let p = match guard::guard(|| ctx.params(op, index)) {
                Err(pn) => vfail!(format!("panic-params-access@{}", panic_kind(&pn)), "ctx.params panics on '{text}': {}", pn.msg),
                Ok(Err(e)) => vfail!("params-unavailable", "ctx.params(op, {index}) of '{text}' fails: {e:?}"),
                Ok(Ok(p)) => p,
            };
            vensure!(p.name == spec.name, "parsed-name", "'{text}': parsed name is '{}'", p.name);
            for (k, e, class) in &expects {
                if !k.check {
                    continue;
                }
                if let Some(msg) = compare_value(&p, k, e, rec) {
                    let occ = occurrences.get(k.key).map(|v| v.len()).unwrap_or(0);
                    if occ > 1 {
                        // does an earlier occurrence explain the library's value?
                        for earlier in &occurrences[k.key][..occ - 1] {
                            let (e2, _) = expect_for(k, Some(earlier));
                            if !e2.must_err() && !e2.may_err() && compare_value(&p, k, &e2, rec).is_none() {
                                vfail!("repeated-key-last-does-not-win", "'{text}': {msg}; the library value is that of an earlier occurrence of {}", k.key);
                            }
                        }
                    }
                    vfail!(format!("value:{}:{}", kind_name(k.kind), class), "'{text}': {msg}");
                }
            }
        }
    }
    if nontrivial {
        rec.nontrivial(&text);
    }
    Ok(())
}

// ---- generators for typed cases ------------------------------------------------------

const REAL_ADV: [&str; 62] = [
    "", "abc", "x1", "1x", "q1:30:36w", "1:2:3:4", "1::3", "1:b", "1:2:c", ":1", "--1", "1..2", "1,5", "é5", "5é5", "1:é:3", "−5", "−0:30", "１２x", "N", "S", "NN",
    "1:30NN", "N1:30", "0x10", "1_000", "inf", "-inf", "infinity", "NaN", "nan", ".5", "5.", "1:-30", "1:+30", "1e1:30", "1:60", "1:30:60", "+1:30", "+5", "-0", "0",
    "-0:30", "-0:0:30", "0:0:0", "-0:00:30S", "1e", "12E", "1e5W", "1.5e300", "1e-300", "00:30N", "179:59:59.999W", "-1:30:36S", "1:30:36n", "1:5:5", "1e400",
    // values ending in a multi-byte character
    "5é", "é", "1:30é", "5°", "55°30′",
];
const NAT_ADV: [&str; 17] = ["0", "007", "18446744073709551615", "18446744073709551616", "+5", "-1", "-0", "1.5", "1e3", "", "abc", "٣", "1:30", "5é", "0x10", "1,2", "１"];
const INT_ADV: [&str; 17] = [
    "0", "-0", "+7", "-007", "9223372036854775807", "-9223372036854775808", "9223372036854775808", "-9223372036854775809", "1.5", "-", "+", "", "abc", "1e3", "1:30",
    "−5", "5é",
];
const FLAG_ADV: [&str; 11] = ["true", "TRUE", "false", "0", "yes", "", "True", "tRuE", "FALSE", "1", "no"];
const SERIES_ADV: [&str; 14] = ["1,2,", "1,,2", ",1", "", "a,b", "1,b", "1;2", "1:2:3:4,1", "1,5é5", "0.5,-0:30", "1:30,2:30:36S,-3", "1e3,12W", "7", "1,5é"];
const TEXT_ADV: [&str; 6] = ["", "a,b", "true", "é", "1:30", "6378137,298.25"];
const SURE_BAD: [&str; 7] = ["abc", "1:2:3:4", "", "1::2", "x1", "1..2", "é1"];
const ALPHABET: [char; 17] = ['0', '1', '5', '9', '.', '-', '+', 'e', 'E', ':', 'N', 's', 'W', 'x', ',', 'é', '3'];

fn ends_multibyte(atom: &str) -> bool {
    atom.chars().last().map(|c| !c.is_ascii()).unwrap_or(false)
}

/// A value outside the plain spellings for a parameter of `kind`.
fn adversarial(d: &mut Dice, kind: Kind) -> Option<String> {
    if d.chance(1, 4) {
        let n = d.pick(8);
        return Some((0..n).map(|_| d.choose(&ALPHABET)).collect());
    }
    Some(
        match kind {
            Kind::Flag => d.choose(&FLAG_ADV),
            Kind::Nat => d.choose(&NAT_ADV),
            Kind::Int => d.choose(&INT_ADV),
            Kind::Real => d.choose(&REAL_ADV),
            Kind::Series => d.choose(&SERIES_ADV),
            Kind::Text | Kind::Texts => d.choose(&TEXT_ADV),
        }
        .to_string(),
    )
}

/// Keep a generated value inside what a definition can express (see `assume` texts).
fn sanitize_value(kind: Kind, v: &mut String, ex: Excl, excluded: &mut u32) {
    while v.ends_with(':') {
        v.pop();
    }
    if ex.mb_tail && matches!(kind, Kind::Real | Kind::Series) && v.split(',').any(ends_multibyte) {
        *v = v.split(',').map(|a| if ends_multibyte(a) { format!("{a}0") } else { a.to_string() }).collect::<Vec<_>>().join(",");
        *excluded += 1;
    }
}

fn typed_case(dice: &[u32], ex: Excl, builtin_only: bool) -> TypedCase {
    let mut d = Dice::new(dice);
    let typed: Vec<&OpSpec> = OPS.iter().filter(|o| o.typed && (!builtin_only || o.name != "c16typed") && !(builtin_only && o.keys.is_empty())).collect();
    let spec: &OpSpec = if builtin_only { typed[d.pick(typed.len())] } else { op_spec("c16typed").unwrap() };
    let own = spec.name == "c16typed";
    let mut args: Vec<(String, Option<String>)> = vec![];
    let mut excluded = 0;
    // own operator: 0,1 = every value well-formed, nothing missing; 2 = a few defects; 3 = many
    let mode = if own { d.pick(4) } else { 2 };
    let adv_odds = match (own, mode) {
        (true, 0) | (true, 1) => 0,
        (true, 2) => 1,
        (true, _) => 4,
        _ => 1,
    };
    let mut value_for = |d: &mut Dice, k: &KeySpec| -> Option<String> {
        let adv = d.chance(adv_odds, 12);
        let mut v = if adv && own {
            adversarial(d, k.kind)
        } else if adv && matches!(k.kind, Kind::Nat | Kind::Real | Kind::Series) {
            Some(d.choose(&SURE_BAD).to_string())
        } else {
            gen_value(d, k.dom).map(|atoms| atoms.join(","))
        };
        if let Some(v) = v.as_mut() {
            sanitize_value(k.kind, v, ex, &mut excluded);
        }
        if own && mode >= 2 && k.kind != Kind::Flag && v.is_some() && d.chance(1, 40) {
            v = None; // a bare key where a value is expected
        }
        v
    };
    if spec.one_of {
        let k = &spec.keys[d.pick(spec.keys.len())];
        let v = value_for(&mut d, k);
        args.push((k.key.to_string(), v));
    } else {
        for k in spec.keys {
            let required = matches!(k.df, Df::Req);
            let present = if required { mode < 2 || !d.chance(1, 14) } else { d.chance(2, 5) };
            if !present {
                continue;
            }
            let v = value_for(&mut d, k);
            args.push((k.key.to_string(), v));
            if d.chance(1, 8) {
                let v = value_for(&mut d, k);
                args.push((k.key.to_string(), v));
            }
        }
    }
    if d.chance(1, 4) {
        for _ in 0..1 + d.pick(3) {
            let j = junk_arg(&mut d);
            args.push((j.key, j.val.map(|a| a.join(","))));
        }
    }
    // order
    let n = args.len();
    for i in (1..n).rev() {
        let j = d.pick(i + 1);
        args.swap(i, j);
    }
    // a value that is empty or ends in ',' can only be written at the end of a step
    let mut last: Option<(String, Option<String>)> = None;
    let mut kept = vec![];
    for a in args {
        let tail = a.1.as_deref().map(|v| v.is_empty() || v.ends_with(',')).unwrap_or(false);
        if tail {
            if last.is_none() {
                last = Some(a);
            }
        } else {
            kept.push(a);
        }
    }
    if let Some(a) = last {
        kept.push(a);
    }
    TypedCase { op: spec.name.to_string(), args: kept, wrap: d.pick(5) as u8, sub: d.chance(1, 3), excluded }
}

/// The fixed table: every adversarial spelling for every kind, on the required and the
/// optional key of that kind, in three positions.
fn typed_table(ex: Excl) -> Vec<TypedCase> {
    let base: [(&str, &str); 6] = [("nat_req", "5"), ("int_req", "-4"), ("real_req", "1.5"), ("ser_req", "1,2"), ("txt_req", "abc"), ("txts_req", "a,b")];
    let mut out = vec![];
    let groups: [(Kind, &[&str], &[&str]); 7] = [
        (Kind::Flag, &FLAG_ADV, &["flag_a", "f_1"]),
        (Kind::Nat, &NAT_ADV, &["nat_req", "nat_opt", "n_2"]),
        (Kind::Int, &INT_ADV, &["int_req", "int_opt"]),
        (Kind::Real, &REAL_ADV, &["real_req", "real_opt", "r_1", "lat_1", "k_2"]),
        (Kind::Series, &SERIES_ADV, &["ser_req", "ser_opt", "ser_none"]),
        (Kind::Text, &TEXT_ADV, &["txt_req", "txt_opt"]),
        (Kind::Texts, &TEXT_ADV, &["txts_req", "txts_opt", "txts_none"]),
    ];
    for (kind, values, keys) in groups {
        for key in keys {
            let mut vals: Vec<Option<String>> = values.iter().map(|v| Some(v.to_string())).collect();
            vals.push(None); // bare key
            for v in vals {
                for wrap in [0u8, 2, 4] {
                    let mut excluded = 0;
                    let mut v = v.clone();
                    if let Some(v) = v.as_mut() {
                        sanitize_value(kind, v, ex, &mut excluded);
                    }
                    let mut args: Vec<(String, Option<String>)> =
                        base.iter().filter(|(k, _)| k != key).map(|(k, v)| (k.to_string(), Some(v.to_string()))).collect();
                    args.push((key.to_string(), v));
                    out.push(TypedCase { op: "c16typed".into(), args, wrap, sub: wrap == 2, excluded });
                }
            }
        }
    }
    // omitted required keys, one at a time, and all optional keys omitted
    for (skip, _) in base {
        let args = base.iter().filter(|(k, _)| *k != skip).map(|(k, v)| (k.to_string(), Some(v.to_string()))).collect();
        out.push(TypedCase { op: "c16typed".into(), args, wrap: 0, sub: false, excluded: 0 });
    }
    out.push(TypedCase { op: "c16typed".into(), args: base.iter().map(|(k, v)| (k.to_string(), Some(v.to_string()))).collect(), wrap: 0, sub: false, excluded: 0 });
    for name in ["utm", "butm", "permtide", "tmerc", "helmert", "axisswap", "cart", "unitconvert"] {
        out.push(TypedCase { op: name.into(), args: vec![], wrap: 0, sub: false, excluded: 0 });
    }
    out
}

// ===================================================================================
// layout cases
// ===================================================================================

#[derive(Clone, Debug, Serialize, Deserialize)]
struct LayoutCase {
    steps: Vec<Step>,
    tape_a: Vec<u8>,
    tape_b: Vec<u8>,
    probes: Vec<P4>,
    /// replay files of known findings set this: render exactly as recorded
    #[serde(default)]
    no_exclusion: bool,
}

/// Layout tapes are drawn as 32-bit words (cheap to generate and to shrink) and stored as
/// bytes; small bytes are mapped to 0 so that about 4 in 10 choices are canonical.
fn tape_strategy() -> impl Strategy<Value = Vec<u8>> {
    prop::collection::vec(any::<u32>(), 0..120).prop_map(|w| w.iter().flat_map(|x| x.to_be_bytes()).map(|b| if b < 100 { 0 } else { b }).collect())
}

fn layout_case(build: fn(&[u32]) -> Vec<Step>) -> impl Strategy<Value = LayoutCase> {
    (prop::collection::vec(any::<u32>(), 0..260), tape_strategy(), tape_strategy(), prop::collection::vec(geo_rad(80., 179.), 2..=2))
        .prop_map(move |(dice, tape_a, tape_b, probes)| LayoutCase { steps: build(&dice), tape_a, tape_b, probes, no_exclusion: false })
}

fn record_layout(rec: &mut Rec, steps: &[Step], r: &Rendered) {
    for (bit, name) in DIM_NAMES {
        if r.dims & bit != 0 {
            rec.class(&format!("dim:{name}"));
        }
    }
    rec.class(if is_plain(&r.text) { "text:single-operator" } else { "text:pipeline" });
    rec.class(&format!("steps:{}", steps.len()));
}

fn check_tok(c: &LayoutCase, rec: &mut Rec, ex: Excl) -> CaseResult {
    vensure!(!c.steps.is_empty(), "harness-empty-ast", "empty definition");
    let ex = if c.no_exclusion { Excl::default() } else { Excl { tok: true, ..ex } };
    let mut dims = [0u32; 2];
    let mut texts = vec![];
    for (i, tape) in [&c.tape_a, &c.tape_b].into_iter().enumerate() {
        let (r, n) = render_excl(&c.steps, tape, 0, ex);
        rec.count("excluded_known", n as u64);
        dims[i] = r.dims;
        if let Err((kind, msg)) = tok_eval(&c.steps, &r) {
            let key = if kind.starts_with("panic") {
                kind.clone()
            } else {
                format!("tok-layout:{}", attribute(&c.steps, tape, ex, &r, &|s, r| tok_eval(s, r).is_err()).replace("@plain", ""))
            };
            vfail!(key, "{kind}: {msg}\n  text:      {:?}\n  canonical: {:?}\n  layout dimensions used: {}", r.text, canon(&c.steps), dim_names(r.dims));
        }
        record_layout(rec, &c.steps, &r);
        texts.push(r.text);
    }
    if (dims[0] ^ dims[1]).count_ones() >= 2 {
        rec.nontrivial(&texts);
    }
    Ok(())
}

fn check_beh(c: &LayoutCase, rec: &mut Rec, ex: Excl) -> CaseResult {
    vensure!(!c.steps.is_empty(), "harness-empty-ast", "empty definition");
    let ex = if c.no_exclusion { Excl::default() } else { ex };
    let probes = c4s(&c.probes);
    let ctext = canon(&c.steps);
    let cobs = match observe(&ctext, &probes) {
        Err((k, m)) => vfail!(k, "canonical text '{ctext}': {m}"),
        Ok(Err(e)) => vfail!("canonical-rejected", "the canonical text '{ctext}' (sound parameters) is rejected: {e}"),
        Ok(Ok(o)) => o,
    };
    let mut dims = [0u32; 2];
    let mut texts = vec![];
    for (i, tape) in [&c.tape_a, &c.tape_b].into_iter().enumerate() {
        let (r, n) = render_excl(&c.steps, tape, 0, ex);
        rec.count("excluded_known", n as u64);
        dims[i] = r.dims;
        if let Err((kind, msg)) = beh_eval(&c.steps, &cobs, &r, &probes) {
            let key = if kind.starts_with("panic") {
                kind.clone()
            } else {
                let fails = |s: &[Step], r: &Rendered| -> bool {
                    match observe(&canon(s), &probes) {
                        Ok(Ok(o)) => beh_eval(s, &o, r, &probes).is_err(),
                        _ => false,
                    }
                };
                format!("layout:{}", attribute(&c.steps, tape, ex, &r, &fails))
            };
            vfail!(
                key,
                "{kind}: {msg}\n  text:      {:?}\n  canonical: {:?}\n  probes: {}\n  layout dimensions used: {}",
                r.text,
                ctext,
                probes.iter().map(fmt_c4).collect::<Vec<_>>().join(" "),
                dim_names(r.dims)
            );
        }
        record_layout(rec, &c.steps, &r);
        texts.push(r.text);
    }
    for s in &c.steps {
        rec.class(&format!("op:{}", if s.name.contains(':') { "macro" } else { s.name.as_str() }));
    }
    if cobs.fwd.as_ref().map(|(n, d)| *n == probes.len() && !vec_bits_eq(d, &probes)).unwrap_or(false) {
        rec.class("behaviour:observable-fwd");
    }
    if (dims[0] ^ dims[1]).count_ones() >= 2 {
        rec.nontrivial(&texts);
    }
    Ok(())
}

// ===================================================================================
// histories over user defined gamuts: defaults belong to the gamut of the operator
// ===================================================================================

/// 'static strings for generated gamuts (OpParameter wants &'static str): interned, so the
/// leak is bounded by the number of distinct keys/defaults the generator can produce.
fn intern(s: &str) -> &'static str {
    static POOL: std::sync::Mutex<BTreeMap<String, &'static str>> = std::sync::Mutex::new(BTreeMap::new());
    let mut pool = POOL.lock().unwrap_or_else(|p| p.into_inner());
    if let Some(v) = pool.get(s) {
        return v;
    }
    let leaked: &'static str = Box::leak(s.to_string().into_boxed_str());
    pool.insert(s.to_string(), leaked);
    leaked
}

thread_local! {
    /// name -> gamut of the user operators of the case in flight on this thread
    static HIST_GAMUTS: std::cell::RefCell<BTreeMap<String, Vec<OpParameter>>> = const { std::cell::RefCell::new(BTreeMap::new()) };
}

fn hist_noop(_op: &Op, _ctx: &dyn Context, operands: &mut dyn CoordinateSet) -> usize {
    operands.len()
}

/// One constructor for every generated operator: the gamut is looked up by operator name.
fn hist_new(parameters: &RawParameters, ctx: &dyn Context) -> Result<Op, Error> {
    let name = parameters.definition.split_into_parameters().get("_name").cloned().unwrap_or_default();
    let Some(gamut) = HIST_GAMUTS.with(|g| g.borrow().get(&name).cloned()) else {
        return Err(Error::NotFound(name, ": c16 history registry".to_string()));
    };
    Op::plain(parameters, InnerOp(hist_noop), Some(InnerOp(hist_noop)), &gamut, ctx)
}

#[derive(Clone, Debug, Serialize, Deserialize)]
struct UParam {
    key: String,
    /// 0 flag, 1 natural, 2 integer, 3 real, 4 series, 5 text, 6 texts
    kind: u8,
    required: bool,
    /// the default as text: number for natural/integer/real (real: shortest round-trip form),
    /// the default text itself for series/text/texts ("" = no value); unused for flags
    dflt: String,
}

#[derive(Clone, Debug, Serialize, Deserialize)]
struct UOp {
    name: String,
    params: Vec<UParam>,
}

#[derive(Clone, Debug, Serialize, Deserialize)]
struct HStep {
    op: String,
    args: Vec<(String, Option<String>)>,
}

#[derive(Clone, Debug, Serialize, Deserialize)]
struct HistCase {
    ops: Vec<UOp>,
    /// definitions instantiated one after the other on one context; each has 1..3 steps
    defs: Vec<Vec<HStep>>,
}

fn kind_of(k: u8) -> Kind {
    [Kind::Flag, Kind::Nat, Kind::Int, Kind::Real, Kind::Series, Kind::Text, Kind::Texts][k as usize % 7]
}

/// (key, usual kind): a small pool, so that keys collide across gamuts and with built-in keys
const HIST_KEYS: [(&str, u8); 12] =
    [("order", 4), ("translation", 4), ("weights", 4), ("x", 3), ("lat_0", 3), ("k_0", 3), ("zone", 1), ("n", 2), ("from", 5), ("convention", 5), ("grids", 6), ("south", 0)];
const SER_ELEMS: [&str; 16] = ["1", "2", "3", "-4.5", "0:30", "7", "1e3", "12W", "-0:30", "0.25", "55:30:36N", "9", "0", "2.5e-1", "100", "-1"];
const HIST_WORDS: [&str; 8] = ["foo", "bar", "enuf", "mean", "GRS80", "blå", "position_vector", "m"];
const HIST_BUILTINS: [&str; 4] = ["axisswap", "helmert", "utm", "tmerc"];

fn hist_default(d: &mut Dice, kind: Kind) -> String {
    match kind {
        Kind::Flag => String::new(),
        Kind::Nat => d.pick(1_000_000).to_string(),
        Kind::Int => (d.pick(2_000_001) as i64 - 1_000_000).to_string(),
        Kind::Real => format!("{:?}", (d.pick(2_000_001) as f64 - 1_000_000.0) / 1000.0),
        Kind::Series => {
            if d.chance(1, 8) {
                return String::new();
            }
            let n = 1 + d.pick(3);
            (0..n).map(|_| d.choose(&SER_ELEMS)).collect::<Vec<_>>().join(",")
        }
        Kind::Text => format!("{}-{}", d.choose(&HIST_WORDS), d.pick(1000)),
        Kind::Texts => {
            if d.chance(1, 8) {
                return String::new();
            }
            let n = 1 + d.pick(3);
            (0..n).map(|_| format!("{}{}", d.choose(&HIST_WORDS), d.pick(100))).collect::<Vec<_>>().join(", ")
        }
    }
}

fn free_dom(kind: Kind) -> Dom {
    match kind {
        Kind::Flag => Dom::Flag,
        Kind::Nat => Dom::FreeNat,
        Kind::Int => Dom::FreeInt,
        Kind::Real => Dom::FreeReal,
        Kind::Series => Dom::FreeSeries,
        Kind::Text => Dom::FreeText,
        Kind::Texts => Dom::FreeTexts,
    }
}

fn hist_case(dice: &[u32]) -> HistCase {
    let mut d = Dice::new(dice);
    let n_ops = 2 + d.pick(3);
    let mut ops = vec![];
    for i in 0..n_ops {
        let np = 2 + d.pick(4);
        let mut pool: Vec<(&str, u8)> = HIST_KEYS.to_vec();
        let mut params = vec![];
        for _ in 0..np {
            let (key, usual) = pool.remove(d.pick(pool.len()));
            let kind = if d.chance(3, 10) { d.pick(7) as u8 } else { usual };
            let required = kind != 0 && d.chance(1, 8);
            let dflt = hist_default(&mut d, kind_of(kind));
            params.push(UParam { key: key.to_string(), kind, required, dflt });
        }
        ops.push(UOp { name: format!("hop{i}"), params });
    }
    let n_defs = 2 + d.pick(5);
    let mut defs = vec![];
    for _ in 0..n_defs {
        let ns = [1, 1, 2, 3][d.pick(4)];
        let mut steps = vec![];
        for _ in 0..ns {
            let mut args: Vec<(String, Option<String>)> = vec![];
            let name;
            if d.chance(1, 4) {
                let spec = op_spec(d.choose(&HIST_BUILTINS)).unwrap();
                name = spec.name.to_string();
                for k in spec.keys {
                    if matches!(k.df, Df::Req) || d.chance(1, 4) {
                        args.push((k.key.to_string(), gen_value(&mut d, k.dom).map(|a| a.join(","))));
                    }
                }
            } else {
                let op = &ops[d.pick(ops.len())];
                name = op.name.clone();
                for p in &op.params {
                    if p.required || d.chance(1, 3) {
                        args.push((p.key.clone(), gen_value(&mut d, free_dom(kind_of(p.kind))).map(|a| a.join(","))));
                    }
                }
            }
            if d.chance(1, 6) {
                args.insert(0, ("inv".to_string(), None));
            }
            steps.push(HStep { op: name, args });
        }
        defs.push(steps);
    }
    HistCase { ops, defs }
}

/// Expectation for an omitted parameter of a generated gamut: that gamut's own default.
fn hist_default_expect(p: &UParam) -> Expect {
    match kind_of(p.kind) {
        Kind::Flag => Expect::Flag(Want::Valid(false)),
        Kind::Nat => Expect::Nat(Want::Valid(p.dflt.parse().unwrap_or(0))),
        Kind::Int => Expect::Int(Want::Valid(p.dflt.parse().unwrap_or(0))),
        Kind::Real => Expect::Real(Want::Valid((p.dflt.parse().unwrap_or(f64::NAN), 0.0))),
        Kind::Series => {
            if p.dflt.is_empty() {
                Expect::SeriesAbsent
            } else {
                match ref_series(&p.dflt).0 {
                    Want::Valid(v) => Expect::Series(Want::Valid(v)),
                    _ => Expect::Series(Want::Odd(None)),
                }
            }
        }
        Kind::Text => Expect::Text(Want::Valid(p.dflt.clone())),
        Kind::Texts => {
            if p.dflt.is_empty() {
                Expect::TextsAbsent
            } else {
                Expect::Texts(Want::Valid(p.dflt.split(',').map(|s| s.trim().to_string()).collect()))
            }
        }
    }
}

fn user_gamut(op: &UOp) -> Vec<OpParameter> {
    let mut g = vec![OpParameter::Flag { key: "inv" }];
    for p in &op.params {
        let key = intern(&p.key);
        let opt = !p.required;
        g.push(match kind_of(p.kind) {
            Kind::Flag => OpParameter::Flag { key },
            Kind::Nat => OpParameter::Natural { key, default: opt.then(|| p.dflt.parse().unwrap_or(0)) },
            Kind::Int => OpParameter::Integer { key, default: opt.then(|| p.dflt.parse().unwrap_or(0)) },
            Kind::Real => OpParameter::Real { key, default: opt.then(|| p.dflt.parse().unwrap_or(f64::NAN)) },
            Kind::Series => OpParameter::Series { key, default: opt.then(|| intern(&p.dflt)) },
            Kind::Text => OpParameter::Text { key, default: opt.then(|| intern(&p.dflt)) },
            Kind::Texts => OpParameter::Texts { key, default: opt.then(|| intern(&p.dflt)) },
        });
    }
    g
}

fn check_history(c: &HistCase, rec: &mut Rec) -> CaseResult {
    struct Reset;
    impl Drop for Reset {
        fn drop(&mut self) {
            HIST_GAMUTS.with(|g| g.borrow_mut().clear());
        }
    }
    let _reset = Reset;
    let mut ctx = Minimal::new();
    HIST_GAMUTS.with(|g| {
        let mut g = g.borrow_mut();
        g.clear();
        for op in &c.ops {
            g.insert(op.name.clone(), user_gamut(op));
        }
    });
    for op in &c.ops {
        ctx.register_op(&op.name, OpConstructor(hist_new));
    }
    let describe = || {
        c.ops
            .iter()
            .map(|o| {
                let ps: Vec<String> =
                    o.params.iter().map(|p| format!("{} {}{}", kind_name(kind_of(p.kind)), p.key, if p.required { " (required)".to_string() } else { format!(" default '{}'", p.dflt) })).collect();
                format!("{}: [{}]", o.name, ps.join("; "))
            })
            .collect::<Vec<_>>()
            .join("\n    ")
    };
    // (key, kind) -> defaults already relied upon earlier in this history
    let mut relied: BTreeMap<(String, u8), Vec<String>> = BTreeMap::new();
    let mut history: Vec<String> = vec![];
    let mut collided = false;
    for steps in &c.defs {
        let text = steps
            .iter()
            .map(|s| {
                let mut t = String::new();
                for (k, v) in s.args.iter().filter(|a| a.0 == "inv") {
                    let _ = v;
                    t.push_str(k);
                    t.push(' ');
                }
                t.push_str(&s.op);
                for (k, v) in s.args.iter().filter(|a| a.0 != "inv") {
                    t.push(' ');
                    t.push_str(k);
                    if let Some(v) = v {
                        t.push('=');
                        t.push_str(v);
                    }
                }
                t
            })
            .collect::<Vec<_>>()
            .join(" | ");
        history.push(text.clone());
        let op = match try_op(&mut ctx, &text) {
            Err(p) => vfail!(format!("panic-params@{}", panic_kind(&p)), "instantiating '{text}' panics: {} at {}:{}\n  history: {history:?}", p.msg, p.file, p.line),
            Ok(Err(e)) => vfail!("history-valid-rejected", "'{text}' (all values well-formed, required keys given) is rejected: {e:?}\n  history: {history:?}\n  gamuts:\n    {}", describe()),
            Ok(Ok(op)) => op,
        };
        for (i, s) in steps.iter().enumerate() {
            let p = match guard::guard(|| ctx.params(op, i)) {
                Ok(Ok(p)) => p,
                other => vfail!("params-unavailable", "ctx.params(op, {i}) of '{text}': {:?}", other.map(|r| r.map(|_| ()))),
            };
            let mut effective: BTreeMap<&str, &Option<String>> = BTreeMap::new();
            for (k, v) in &s.args {
                effective.insert(k.as_str(), v);
            }
            if let Some(uop) = c.ops.iter().find(|o| o.name == s.op) {
                rec.class("step:user-operator");
                for up in &uop.params {
                    let kind = kind_of(up.kind);
                    let ks = KeySpec { key: intern(&up.key), kind, df: Df::Absent, dom: Dom::Flag, check: true };
                    let given = effective.get(up.key.as_str()).copied();
                    let e = match given {
                        Some(v) => expect_for(&ks, Some(v)).0,
                        None => hist_default_expect(up),
                    };
                    if given.is_none() && !up.required && kind != Kind::Flag {
                        let seen = relied.entry((up.key.clone(), up.kind)).or_default();
                        if seen.iter().any(|d| *d != up.dflt) {
                            collided = true;
                        }
                        if !seen.contains(&up.dflt) {
                            seen.push(up.dflt.clone());
                        }
                        rec.class(&format!("omitted:{}", kind_name(kind)));
                    }
                    if let Some(msg) = compare_value(&p, &ks, &e, rec) {
                        let key = if given.is_some() { format!("history-value:{}", kind_name(kind)) } else { format!("history-default:{}", kind_name(kind)) };
                        vfail!(
                            key,
                            "step {i} of '{text}': {msg} ({})\n  history on this context: {history:?}\n  gamuts:\n    {}",
                            if given.is_some() { "value given in the definition" } else { "parameter omitted: the default of this operator's own gamut applies" },
                            describe()
                        );
                    }
                }
            } else {
                rec.class(&format!("step:{}", s.op));
                let spec = op_spec(&s.op).unwrap();
                for k in spec.keys {
                    let given = effective.get(k.key).copied();
                    let (e, _) = expect_for(k, given);
                    if !k.check {
                        continue;
                    }
                    if let Some(msg) = compare_value(&p, k, &e, rec) {
                        let key = if given.is_some() { format!("history-builtin-value:{}", kind_name(k.kind)) } else { format!("history-builtin-default:{}", kind_name(k.kind)) };
                        vfail!(key, "step {i} of '{text}' (built-in {}): {msg}\n  history on this context: {history:?}\n  gamuts:\n    {}", s.op, describe());
                    }
                }
                if s.op == "axisswap" && !effective.contains_key("order") && steps.len() == 1 {
                    // the documented default order is the identity
                    let mut data = [Coor4D([1., 2., 3., 4.])];
                    match try_apply(&ctx, op, Fwd, &mut data) {
                        Ok(Ok(1)) if data[0] == Coor4D([1., 2., 3., 4.]) => {}
                        other => vfail!("history-builtin-default:behaviour", "'{text}' (order omitted) maps (1,2,3,4) to {} ({:?})\n  history: {history:?}\n  gamuts:\n    {}", fmt_c4(&data[0]), other.map(|r| r.ok()), describe()),
                    }
                }
            }
        }
    }
    if collided {
        rec.class("same-key-different-defaults-both-omitted");
        rec.nontrivial(&(history, describe()));
    }
    Ok(())
}

// ===================================================================================
// spellings of presence of a flag x every place a flag is read
// ===================================================================================
//
// "A flag is a boolean that is true if present, false if not" (OpParameter::Flag), the
// tokenizer documents `flag` -> `flag=true`, and the property lists the empty value among the
// spellings: bare `key`, `key=true` in any letter case and the explicit empty value `key=`
// are spellings of PRESENCE. The oracle is absolute: every such spelling must behave exactly
// like the bare flag (instantiation, step list, typed parameters, apply both directions), the
// bare flag must do what the documentation says (closed form for addone definitions,
// observable difference from the definition without the flag elsewhere), and the flag must be
// reported as set where it is read. Contrast spellings: `key=false` (rejected with an error
// naming the parameter, or behaves as if the key were absent), other texts (rejected naming the
// parameter, or as absent, or as present - nothing else).

const FPROBES: [[f64; 4]; 2] = [[0.25, 0.96, 10., 2020.], [0.125, -0.5, 100., 2021.]];

const TYPED_ARGS: &str = "nat_req=5 int_req=-4 real_req=1.5 ser_req=1,2 txt_req=abc txts_req=a,b";

/// Macros registered for this section (besides those of Minimal::new()).
const FMACROS: [(&str, &str); 15] = [
    ("c16f:one", "addone"),
    ("c16f:two", "addone | addone"),
    ("c16f:utm", "utm zone=32"),
    ("c16f:outer", "c16f:utm"),
    ("c16f:utmp", "noop | utm zone=$zone(32)"),
    ("c16f:shift", "helmert x=$shift(1) y=(2) | addone"),
    ("c16f:typed", "c16typed nat_req=5 int_req=-4 real_req=1.5 ser_req=1,2 txt_req=abc txts_req=a,b"),
    ("c16f:lat", "latitude"),
    ("c16f:grav", "gravity"),
    ("c16f:pp", "push v_2 | addone | pop v_2"),
    ("c16f:utmd", "utm zone=32 south=$s"),
    ("c16f:omd", "addone | addone omit_fwd=$o(false)"),
    ("c16f:oid", "addone omit_inv=$o(false) | addone"),
    ("c16f:invd", "addone inv=$i"),
    ("c16f:typedd", "c16typed nat_req=5 int_req=-4 real_req=1.5 ser_req=1,2 txt_req=abc txts_req=a,b f_1=$f"),
];

struct FSite {
    label: String,
    /// gamut | inv | omit | macro-inv | macro-omit | macro-global | macro-dollar
    route: &'static str,
    /// alternatives for the steps in front of the step that carries the flag (with separator)
    befores: Vec<&'static str>,
    name: &'static str,
    args: &'static str,
    /// alternatives for what follows the step ("" or text that starts with a step separator)
    posts: Vec<&'static str>,
    key: &'static str,
    /// further parameter names an error may name (the key bound through `$key` in a macro body)
    names: Vec<&'static str>,
    /// (step offset from the number of steps in `before`, key): must be reported as set
    read: Option<(usize, &'static str)>,
    /// the documentation gives the bare flag an effect on apply (or on instantiation)
    observable: bool,
    /// addone definitions: documented change of the first coordinate (forward, inverse) with the flag
    closed: Option<(i32, i32)>,
    /// the composed text is the BODY of a macro, the definition is the invocation of that macro
    in_body: bool,
}

const POSTS_NOOP: [&str; 6] = ["", " | noop", "|noop", "\n| noop", " > noop", " < noop"];
const POSTS_ADDONE: [&str; 3] = [" | addone", "|addone", "\n| addone"];
const B2: [&str; 2] = ["", "noop | "];
const B_ADDONE: [&str; 2] = ["addone | ", "addone|"];
const FTAILS: [&str; 7] = ["", " ", "\n", "\r\n", "\t", " # note\n", "\r"];

fn fsites() -> Vec<FSite> {
    let mut v: Vec<FSite> = vec![];
    let site = |route: &'static str, name: &'static str, args: &'static str, key: &'static str| FSite {
        label: format!("{route}:{name}.{key}"),
        route,
        befores: B2.to_vec(),
        name,
        args,
        posts: POSTS_NOOP.to_vec(),
        key,
        names: vec![],
        read: Some((0, key)),
        observable: false,
        closed: None,
        in_body: false,
    };
    // ---- flags in the gamuts of built-in operators (and of the harness operator)
    let gamut: [(&'static str, &'static str, &[&'static str], bool); 12] = [
        ("utm", "zone=32", &["south"], true),
        ("butm", "zone=32", &["south"], true),
        ("helmert", "x=1 y=2 z=3 rx=1 ry=2 rz=3 convention=position_vector", &["exact"], false),
        ("molodensky", "dx=10 dy=20 dz=30 da=251 df=1.4e-5", &["abridged"], false),
        ("latitude", "", &["geocentric", "reduced", "parametric", "conformal", "authalic", "rectifying"], true),
        ("latitude", "ellps=intl", &["geocentric", "authalic"], true),
        ("gravity", "", &["cassinis", "jeffreys", "grs67", "welmec"], true),
        ("gravity", "", &["grs80", "zero-height"], false),
        ("curvature", "", &["prime", "meridian", "gaussian", "mean", "azimuthal"], true),
        ("geodesic", "", &["reversible"], false),
        ("omerc", "latc=55 lonc=9 alpha=30", &["variant"], false),
        ("c16typed", TYPED_ARGS, &["flag_a"], false),
    ];
    for (name, args, keys, observable) in gamut {
        for key in keys {
            v.push(FSite { observable, ..site("gamut", name, args, key) });
        }
    }
    v.push(FSite { observable: true, ..site("gamut", "c16typed", TYPED_ARGS, "f_1") });
    // the pipeline-only operators
    v.push(FSite { befores: vec!["stack push=1,2 | "], posts: vec![" | stack pop=2,1", "|stack pop=2,1", "\n| stack pop=2,1"], read: Some((0, "swap")), observable: true, ..site("gamut", "stack", "", "swap") });
    v.push(FSite { befores: vec!["stack push=1,2 | "], posts: vec![" | noop", "|noop"], ..site("gamut", "stack", "", "drop") });
    for (key, other) in [("v_1", "v_2"), ("v_2", "v_1"), ("v_3", "v_1"), ("v_4", "v_2")] {
        v.push(FSite { befores: vec![""], posts: vec![" | addone | pop v_1 v_2 v_3 v_4", "|addone|pop v_1 v_2 v_3 v_4"], observable: true, ..site("gamut", "push", other, key) });
        v.push(FSite { befores: vec!["push v_1 v_2 v_3 v_4 | addone | "], observable: true, ..site("gamut", "pop", other, key) });
    }
    // ---- `inv` on elementary operators, alone and as steps of a pipeline
    let inv_ops: [(&'static str, &'static str); 26] = [
        ("addone", ""),
        ("cart", ""),
        ("cart", "ellps=intl"),
        ("utm", "zone=32"),
        ("butm", "zone=32"),
        ("tmerc", "lon_0=9"),
        ("btmerc", "lon_0=9"),
        ("merc", ""),
        ("webmerc", ""),
        ("laea", "lat_0=52 lon_0=10"),
        ("lcc", "lat_1=35 lat_2=45"),
        ("somerc", "lat_0=46.95 lon_0=7.44"),
        ("omerc", "latc=55 lonc=9 alpha=30"),
        ("helmert", "x=1 y=2 z=3"),
        ("molodensky", "dx=10 dy=20 dz=30"),
        ("axisswap", "order=2,3,1"),
        ("unitconvert", "xy_in=deg xy_out=rad"),
        ("adapt", "from=neuf_deg"),
        ("permtide", "from=mean to=zero"),
        ("latitude", "geocentric"),
        ("geodesic", ""),
        ("dm", ""),
        ("dms", ""),
        ("c16typed", TYPED_ARGS),
        ("noop", ""),
        ("noop", "foo=bar"),
    ];
    for (name, args) in inv_ops {
        let addone = name == "addone";
        v.push(FSite { observable: name != "noop", closed: addone.then_some((-1, 1)), read: (name != "noop").then_some((0, "inv")), ..site("inv", name, args, "inv") });
    }
    // ---- omit_fwd / omit_inv on steps of a pipeline
    let omit_ops: [(&'static str, &'static str); 7] =
        [("addone", ""), ("utm", "zone=32"), ("helmert", "x=1 y=2 z=3"), ("cart", ""), ("c16typed", TYPED_ARGS), ("noop", ""), ("unitconvert", "xy_in=deg xy_out=rad")];
    for (name, args) in omit_ops {
        let addone = name == "addone";
        for key in ["omit_fwd", "omit_inv"] {
            let fwd = key == "omit_fwd";
            // last of two steps, and first of two steps
            v.push(FSite { befores: B_ADDONE.to_vec(), observable: name != "noop", closed: addone.then_some(if fwd { (1, -2) } else { (2, -1) }), ..site("omit", name, args, key) });
            v.push(FSite {
                label: format!("omit:{name}.{key}@first"),
                befores: vec![""],
                posts: POSTS_ADDONE.to_vec(),
                observable: name != "noop",
                closed: addone.then_some(if fwd { (1, -2) } else { (2, -1) }),
                ..site("omit", name, args, key)
            });
        }
    }
    // ---- modifiers of a macro invocation (read from the tokenized invocation, not by ParsedParameters)
    let macros: [(&'static str, &'static str, Option<i32>); 8] = [
        ("c16f:one", "", Some(1)),
        ("c16f:two", "", Some(2)),
        ("c16f:two", "note=x", Some(2)),
        ("c16f:utm", "", None),
        ("c16f:outer", "", None),
        ("c16f:shift", "shift=3", None),
        ("c16f:utmp", "zone=33", None),
        ("geo:in", "", None),
    ];
    for (name, args, n) in macros {
        v.push(FSite { read: None, observable: true, closed: n.map(|n| (-n, n)), ..site("macro-inv", name, args, "inv") });
        for key in ["omit_fwd", "omit_inv"] {
            let fwd = key == "omit_fwd";
            v.push(FSite { befores: B_ADDONE.to_vec(), observable: true, closed: n.map(|n| if fwd { (1, -1 - n) } else { (1 + n, -1) }), ..site("macro-omit", name, args, key) });
            v.push(FSite {
                label: format!("macro-omit:{name}.{key}@first"),
                befores: vec![""],
                posts: POSTS_ADDONE.to_vec(),
                observable: true,
                closed: n.map(|n| if fwd { (1, -1 - n) } else { (1 + n, -1) }),
                ..site("macro-omit", name, args, key)
            });
        }
    }
    // ---- flags handed down to the body of a macro through its arguments (globals)
    v.push(FSite { observable: true, ..site("macro-global", "c16f:utm", "", "south") });
    v.push(FSite { observable: true, ..site("macro-global", "c16f:utm", "note=x", "south") });
    v.push(FSite { observable: true, ..site("macro-global", "c16f:outer", "", "south") });
    v.push(FSite { befores: vec![""], posts: vec![""], read: Some((1, "south")), observable: true, ..site("macro-global", "c16f:utmp", "zone=33", "south") });
    v.push(FSite { label: "macro-global:c16f:utmp.south@step".into(), befores: vec![""], posts: POSTS_NOOP[1..].to_vec(), read: None, observable: true, ..site("macro-global", "c16f:utmp", "zone=33", "south") });
    v.push(FSite { befores: vec!["noop | "], read: None, observable: true, ..site("macro-global", "c16f:utmp", "", "south") });
    v.push(FSite { observable: true, ..site("macro-global", "c16f:typed", "", "f_1") });
    v.push(FSite { ..site("macro-global", "c16f:typed", "", "flag_a") });
    v.push(FSite { observable: true, ..site("macro-global", "c16f:lat", "", "geocentric") });
    v.push(FSite { observable: true, ..site("macro-global", "c16f:lat", "ellps=intl", "conformal") });
    v.push(FSite { observable: true, ..site("macro-global", "c16f:grav", "", "welmec") });
    v.push(FSite { befores: vec![""], posts: vec![""], observable: true, ..site("macro-global", "c16f:pp", "", "v_1") });
    v.push(FSite { label: "macro-global:c16f:pp.v_1@step".into(), befores: vec!["noop | "], read: None, observable: true, ..site("macro-global", "c16f:pp", "", "v_1") });
    // ... and bound by name in the body (`flag=$arg`)
    v.push(FSite { names: vec!["south"], read: Some((0, "south")), observable: true, ..site("macro-dollar", "c16f:utmd", "", "s") });
    v.push(FSite { names: vec!["f_1"], read: Some((0, "f_1")), observable: true, ..site("macro-dollar", "c16f:typedd", "", "f") });
    v.push(FSite { befores: vec![""], posts: vec![""], names: vec!["omit_fwd"], read: Some((1, "omit_fwd")), observable: true, closed: Some((1, -2)), ..site("macro-dollar", "c16f:omd", "", "o") });
    v.push(FSite { befores: vec![""], posts: vec![""], names: vec!["omit_inv"], read: Some((0, "omit_inv")), observable: true, closed: Some((2, -1)), ..site("macro-dollar", "c16f:oid", "", "o") });
    v.push(FSite { label: "macro-dollar:c16f:omd.o@step".into(), names: vec!["omit_fwd"], read: None, observable: true, closed: Some((1, -2)), ..site("macro-dollar", "c16f:omd", "", "o") });
    v.push(FSite { names: vec!["inv"], read: Some((0, "inv")), observable: true, closed: Some((-1, 1)), ..site("macro-dollar", "c16f:invd", "", "i") });
    // ---- the same places written in the body of a macro (resource text)
    let bodies: [(&'static str, &'static str, &'static str, &'static str, bool, Option<(i32, i32)>); 9] = [
        ("gamut", "utm", "zone=32", "south", true, None),
        ("gamut", "latitude", "", "geocentric", true, None),
        ("gamut", "c16typed", TYPED_ARGS, "f_1", true, None),
        ("inv", "addone", "", "inv", true, Some((-1, 1))),
        ("inv", "utm", "zone=32", "inv", true, None),
        ("macro-inv", "c16f:two", "", "inv", true, Some((-2, 2))),
        ("macro-global", "c16f:utm", "", "south", true, None),
        ("omit", "addone", "", "omit_fwd", true, Some((1, -2))),
        ("macro-omit", "c16f:two", "", "omit_inv", true, Some((3, -1))),
    ];
    for (route, name, args, key, observable, closed) in bodies {
        let omit = key.starts_with("omit");
        v.push(FSite {
            label: format!("body/{route}:{name}.{key}"),
            befores: if omit { vec!["addone | "] } else { vec![""] },
            read: if route == "macro-inv" { None } else { Some((0, key)) },
            observable,
            closed,
            in_body: true,
            ..site(route, name, args, key)
        });
    }
    v
}

/// (label, class for the failure key, kind: 0 present / 1 false / 2 other, token)
fn fspellings(key: &str) -> Vec<(String, &'static str, u8, String)> {
    let mut v: Vec<(String, &'static str, u8, String)> = vec![
        ("bare".into(), "bare", 0, key.to_string()),
        ("=true".into(), "true", 0, format!("{key}=true")),
        ("=TRUE".into(), "true-any-case", 0, format!("{key}=TRUE")),
        ("=True".into(), "true-any-case", 0, format!("{key}=True")),
        ("=tRuE".into(), "true-any-case", 0, format!("{key}=tRuE")),
        ("=".into(), "empty", 0, format!("{key}=")),
        (" =".into(), "empty", 0, format!("{key} =")),
        (" = true".into(), "true", 0, format!("{key} = true")),
        ("= TRUE".into(), "true-any-case", 0, format!("{key}= TRUE")),
        ("=false".into(), "false", 1, format!("{key}=false")),
        ("=FALSE".into(), "false", 1, format!("{key}=FALSE")),
        ("=False".into(), "false", 1, format!("{key}=False")),
    ];
    for t in ["0", "1", "yes", "no", "truee", "é"] {
        v.push((format!("={t}"), "other", 2, format!("{key}={t}")));
    }
    if let Some(sk) = subscripted(key) {
        v.push(("sub-bare".into(), "subscript", 0, sk.clone()));
        v.push(("sub=".into(), "subscript-empty", 0, format!("{sk}=")));
        v.push(("sub=true".into(), "subscript", 0, format!("{sk}=true")));
        v.push(("sub=false".into(), "false", 1, format!("{sk}=false")));
    }
    v
}

#[derive(Clone, Debug, Serialize, Deserialize)]
struct FDef {
    /// macros registered before instantiation (besides the fixed ones of this section)
    macros: Vec<(String, String)>,
    text: String,
}

#[derive(Clone, Debug, Serialize, Deserialize)]
struct FlagCase {
    site: String,
    route: String,
    /// single | step | body
    place: String,
    key: String,
    names: Vec<String>,
    spelling: String,
    class: String,
    /// 0 present, 1 false, 2 other text, 3 empty value followed by another token (documented glue `k= v` -> `k=v`)
    kind: u8,
    layout: String,
    variant: FDef,
    /// the same definition with the bare flag (kind 3: with the value glued to the key)
    bare: FDef,
    /// the same definition without the flag
    absent: FDef,
    read: Option<(usize, String)>,
    observable: bool,
    closed: Option<(i32, i32)>,
}

/// Compact index of the enumeration: (site, before, spelling, position 0 last / 1 first / 2 glue, tail, post)
type FIdx = (u16, u8, u8, u8, u8, u8);

/// quick tier: every tail in front of the first two `posts` alternatives, the other alternatives
/// directly behind the token; thorough tier: the full product
fn findex(sites: &[FSite], full: bool) -> Vec<FIdx> {
    let mut out = vec![];
    for (si, s) in sites.iter().enumerate() {
        let sp = fspellings(s.key);
        for bi in 0..s.befores.len() {
            for po in 0..s.posts.len() {
                // the spelling is the innermost dimension: neighbours share the bare and the flag-less definition
                for ti in 0..FTAILS.len() {
                    if full || po < 2 || ti == 0 {
                        for pi in 0..sp.len() {
                            out.push((si as u16, bi as u8, pi as u8, 0, ti as u8, po as u8));
                        }
                    }
                }
                if !s.args.is_empty() && (full || po < 2) {
                    // in front of the other arguments (an empty value is then glued to the next token)
                    for (pi, (_, _, _, token)) in sp.iter().enumerate() {
                        out.push((si as u16, bi as u8, pi as u8, if token.ends_with('=') { 2 } else { 1 }, 0, po as u8));
                    }
                }
            }
        }
    }
    out
}

fn fcompose(s: &FSite, before: &str, token: Option<&str>, pos: u8, tail: &str, post: &str, glued: bool) -> FDef {
    let mut t = String::from(before);
    t.push_str(s.name);
    if pos != 0 {
        if let Some(tok) = token {
            t.push(' ');
            t.push_str(tok);
            if glued {
                t.push_str(s.args);
            }
        }
    }
    if !s.args.is_empty() && !(glued && pos != 0) {
        t.push(' ');
        t.push_str(s.args);
    }
    if pos == 0 {
        if let Some(tok) = token {
            t.push(' ');
            t.push_str(tok);
        }
    }
    t.push_str(tail);
    t.push_str(post);
    if s.in_body {
        FDef { macros: vec![("c16f:body".to_string(), t)], text: "c16f:body".to_string() }
    } else {
        FDef { macros: vec![], text: t }
    }
}

fn flag_case(sites: &[FSite], ix: FIdx) -> FlagCase {
    let (si, bi, pi, pos, ti, po) = ix;
    let s = &sites[si as usize];
    let sp = fspellings(s.key);
    let (label, class, kind, token) = &sp[pi as usize];
    let before = s.befores[bi as usize];
    let tail = FTAILS[ti as usize];
    let post = s.posts[po as usize];
    let variant = fcompose(s, before, Some(token), pos, tail, post, false);
    let (kind, bare) = if pos == 2 {
        (3u8, fcompose(s, before, Some(token), pos, tail, post, true))
    } else {
        (*kind, fcompose(s, before, Some(s.key), pos, tail, post, false))
    };
    let absent = fcompose(s, before, None, pos, tail, post, false);
    let nbefore = before.matches(['|', '<', '>']).count();
    let place = if s.in_body {
        "body"
    } else if before.is_empty() && post.is_empty() {
        "single"
    } else {
        "step"
    };
    let mut names: Vec<String> = vec![s.key.to_string()];
    names.extend(s.names.iter().map(|n| n.to_string()));
    FlagCase {
        site: s.label.clone(),
        route: s.route.to_string(),
        place: place.to_string(),
        key: s.key.to_string(),
        names,
        spelling: label.clone(),
        class: class.to_string(),
        kind,
        layout: format!("pos{pos}/tail{:?}/post{:?}", tail, post),
        variant,
        bare,
        absent,
        read: s.read.map(|(off, k)| (nbefore + off, k.to_string())),
        observable: s.observable,
        closed: s.closed,
    }
}

struct FObs {
    /// (name, keys) of every reported step
    steps: Vec<(String, Vec<String>)>,
    /// typed content of every parameter set (the raw `given` texts left out)
    params: Vec<String>,
    booleans: Vec<Vec<String>>,
    fwd: Result<(usize, Vec<Coor4D>), String>,
    inv: Result<(usize, Vec<Coor4D>), String>,
}

impl FObs {
    fn same(&self, o: &FObs) -> Option<String> {
        if self.steps != o.steps {
            return Some(format!("step lists differ: {:?} vs {:?}", self.steps, o.steps));
        }
        if self.params != o.params {
            for (i, (a, b)) in self.params.iter().zip(&o.params).enumerate() {
                if a != b {
                    return Some(format!("parameters of step {i} differ:\n     {a}\n  vs {b}"));
                }
            }
            return Some(format!("{} parameter sets vs {}", self.params.len(), o.params.len()));
        }
        if !same_result(&self.fwd, &o.fwd) {
            return Some(format!("forward results differ: {} vs {}", fmt_result(&self.fwd), fmt_result(&o.fwd)));
        }
        if !same_result(&self.inv, &o.inv) {
            return Some(format!("inverse results differ: {} vs {}", fmt_result(&self.inv), fmt_result(&o.inv)));
        }
        None
    }
    /// the same operator, whatever the step texts say (typed parameters and behaviour)
    fn same_op(&self, o: &FObs) -> bool {
        self.params == o.params && self.same_behaviour(o)
    }
    fn same_behaviour(&self, o: &FObs) -> bool {
        same_result(&self.fwd, &o.fwd) && same_result(&self.inv, &o.inv)
    }
}

/// Outer Err = panic; inner Err = the instantiation error.
fn fobserve(d: &FDef) -> Result<Result<FObs, Error>, Fail2> {
    let mut ctx = Minimal::new();
    ctx.register_op("c16typed", OpConstructor(typed_new));
    for (n, b) in FMACROS {
        ctx.register_resource(n, b);
    }
    for (n, b) in &d.macros {
        ctx.register_resource(n, b);
    }
    let text = d.text.as_str();
    let op = match try_op(&mut ctx, text) {
        Err(p) => return Err((format!("panic-instantiate@{}", panic_kind(&p)), format!("instantiation panics: {} at {}:{}", p.msg, p.file, p.line))),
        Ok(Err(e)) => return Ok(Err(e)),
        Ok(Ok(op)) => op,
    };
    let step_texts = match guard::guard(|| ctx.steps(op).map(|s| s.clone())) {
        Err(p) => return Err((format!("panic-steps@{}", panic_kind(&p)), format!("ctx.steps panics: {}", p.msg))),
        Ok(Err(e)) => return Err(("steps-error".into(), format!("ctx.steps returns {e:?}"))),
        Ok(Ok(s)) => s,
    };
    let mut steps = vec![];
    for st in &step_texts {
        let m = match guard::guard(|| st.split_into_parameters()) {
            Ok(m) => m,
            Err(p) => return Err((format!("panic-split_into_parameters@{}", panic_kind(&p)), format!("split_into_parameters('{st}') panics: {}", p.msg))),
        };
        let name = m.get("_name").cloned().unwrap_or_default();
        steps.push((name, m.keys().filter(|k| *k != "_name").cloned().collect()));
    }
    let mut params = vec![];
    let mut booleans = vec![];
    for i in 0..24 {
        match guard::guard(|| ctx.params(op, i)) {
            Err(p) => return Err((format!("panic-params-access@{}", panic_kind(&p)), format!("ctx.params panics: {}", p.msg))),
            Ok(Err(_)) => break,
            Ok(Ok(p)) => {
                params.push(format!(
                    "{:?} flags {:?} naturals {:?} integers {:?} reals {:?} series {:?} texts {:?} {:?} coefficients {:?}",
                    p.name, p.boolean, p.natural, p.integer, p.real, p.series, p.text, p.texts, p.fourier_coefficients
                ));
                booleans.push(p.boolean.iter().map(|b| b.to_string()).collect());
            }
        }
    }
    let probes: Vec<Coor4D> = FPROBES.iter().map(|p| Coor4D(*p)).collect();
    let run = |fwd: bool| -> Result<Result<(usize, Vec<Coor4D>), String>, Fail2> {
        let mut data = probes.clone();
        match try_apply(&ctx, op, dir_of(fwd), &mut data) {
            Err(p) => Err((format!("panic-apply@{}", panic_kind(&p)), format!("apply ({}) panics: {} at {}:{}", if fwd { "fwd" } else { "inv" }, p.msg, p.file, p.line))),
            Ok(Err(e)) => Ok(Err(format!("{e:?}"))),
            Ok(Ok(n)) => Ok(Ok((n, data))),
        }
    };
    let fwd = run(true)?;
    let inv = run(false)?;
    Ok(Ok(FObs { steps, params, booleans, fwd, inv }))
}

thread_local! {
    /// the last few observations of reference definitions (bare flag, no flag) on this thread:
    /// neighbouring cases of the enumeration share them; an observation is a pure function of
    /// the definition, so the cache cannot change any verdict
    static FCACHE: std::cell::RefCell<Vec<(String, Result<std::rc::Rc<FObs>, String>)>> = const { std::cell::RefCell::new(Vec::new()) };
}

fn fobserve_ref(d: &FDef) -> Result<Result<std::rc::Rc<FObs>, String>, Fail2> {
    let key = format!("{:?}\u{1}{}", d.macros, d.text);
    if let Some(hit) = FCACHE.with(|c| c.borrow().iter().find(|e| e.0 == key).map(|e| e.1.clone())) {
        return Ok(hit);
    }
    let o = fobserve(d)?.map(std::rc::Rc::new).map_err(|e| format!("{e:?}"));
    FCACHE.with(|c| {
        let mut c = c.borrow_mut();
        if c.len() >= 6 {
            let _ = c.remove(0);
        }
        c.push((key, o.clone()));
    });
    Ok(o)
}

fn error_names(e: &Error, names: &[String]) -> bool {
    let named: Option<&String> = match e {
        Error::BadParam(k, _) | Error::MissingParam(k) => Some(k),
        _ => None,
    };
    let shown = format!("{e}");
    names.iter().any(|n| named == Some(n) || shown.contains(&format!("'{n}'")))
}

fn fdef_show(d: &FDef) -> String {
    if d.macros.is_empty() {
        format!("{:?}", d.text)
    } else {
        format!("{:?} with {}", d.text, d.macros.iter().map(|(n, b)| format!("{n} = {b:?}")).collect::<Vec<_>>().join(", "))
    }
}

fn check_flag(c: &FlagCase, rec: &mut Rec) -> CaseResult {
    let show = |what: &str| format!("{what}\n  site {} ({}, {}), key {}, spelling '{}', layout {}\n  definition: {}\n  bare flag:  {}\n  no flag:    {}", c.site, c.route, c.place, c.key, c.spelling, c.layout, fdef_show(&c.variant), fdef_show(&c.bare), fdef_show(&c.absent));
    let variant = match fobserve(&c.variant) {
        Ok(o) => o,
        Err((k, m)) => return Err(Failure { key: k, msg: show(&format!("{}: {m}", fdef_show(&c.variant))) }),
    };
    let obs_ref = |d: &FDef| -> Result<Result<std::rc::Rc<FObs>, String>, Failure> {
        match fobserve_ref(d) {
            Ok(o) => Ok(o),
            Err((k, m)) => Err(Failure { key: k, msg: show(&format!("{}: {m}", fdef_show(d))) }),
        }
    };
    let bare = obs_ref(&c.bare)?;
    let absent = obs_ref(&c.absent)?;
    rec.class(&format!("route:{}", c.route));
    rec.class(&format!("place:{}", c.place));
    rec.class(&format!("spelling:{}", c.class));
    rec.class(["kind:present", "kind:false", "kind:other-text", "kind:empty-then-token"][c.kind.min(3) as usize]);
    let tag = format!("{}:{}", c.class, c.route);

    if c.kind == 3 {
        // documented normalisation rule 1: `key= value` is `key=value`
        match (&variant, &bare) {
            (Ok(a), Ok(b)) => {
                if let Some(d) = a.same(b) {
                    vfail!(format!("flag-presence:glue:{}", c.route), "{}", show(&format!("'key= value' and 'key=value' instantiate differently: {d}")));
                }
                rec.class("glue:both-accepted");
            }
            (Err(_), Err(_)) => rec.class("glue:both-rejected"),
            (a, b) => vfail!(
                format!("flag-presence:glue:{}", c.route),
                "{}",
                show(&format!("'key= value' gives {:?}, 'key=value' gives {:?}", a.as_ref().map(|_| "an operator").map_err(|e| format!("{e:?}")), b.as_ref().map(|_| "an operator")))
            ),
        }
        return Ok(());
    }

    // the reference itself: the bare flag is accepted and does what the documentation says
    let bare = match bare {
        Ok(b) => b,
        Err(e) => vfail!(format!("flag-presence:bare:{}:rejected", c.route), "{}", show(&format!("the definition with the bare flag is rejected: {e}"))),
    };
    if let Some((i, k)) = &c.read {
        let set = bare.booleans.get(*i).map(|b| b.contains(k)).unwrap_or(false);
        vensure!(set, format!("flag-presence:bare:{}:not-set", c.route), "{}", show(&format!("bare flag: ctx.params(op, {i}).boolean({k:?}) is false; flags {:?}", bare.booleans)));
    }
    let closed = |o: &FObs, who: &str| -> Result<(), String> {
        let Some((df, di)) = c.closed else { return Ok(()) };
        for (res, d, dir) in [(&o.fwd, df, "forward"), (&o.inv, di, "inverse")] {
            match res {
                Ok((n, data)) if *n == FPROBES.len() && data.iter().zip(FPROBES.iter()).all(|(g, p)| g[0] == p[0] + d as f64 && g[1] == p[1] && g[2] == p[2] && g[3] == p[3]) => {}
                other => return Err(format!("{who}: {dir} must add {d} to the first coordinate of {:?}, got {}", FPROBES, fmt_result(other))),
            }
        }
        Ok(())
    };
    if let Err(m) = closed(&bare, "bare flag") {
        vfail!(format!("flag-presence:bare:{}:behaviour", c.route), "{}", show(&m));
    }
    if c.observable {
        let differs = match &absent {
            Err(_) => true,
            Ok(a) => !a.same_behaviour(&bare),
        };
        vensure!(differs, format!("flag-presence:bare:{}:no-effect", c.route), "{}", show("the bare flag has no effect: same behaviour as the definition without it"));
        rec.class("bare-differs-from-absent");
    }

    match c.kind {
        0 => {
            let v = match variant {
                Ok(v) => v,
                Err(e) => vfail!(format!("flag-presence:{tag}:rejected"), "{}", show(&format!("a flag is true when present, but this spelling of presence is rejected: {e:?}"))),
            };
            if let Some((i, k)) = &c.read {
                let set = v.booleans.get(*i).map(|b| b.contains(k)).unwrap_or(false);
                vensure!(set, format!("flag-presence:{tag}:not-set"), "{}", show(&format!("the flag is present but ctx.params(op, {i}).boolean({k:?}) is false; flags {:?}, with the bare flag {:?}", v.booleans, bare.booleans)));
            }
            if let Err(m) = closed(&v, "this spelling") {
                vfail!(format!("flag-presence:{tag}:behaviour"), "{}", show(&m));
            }
            if let Some(d) = v.same(&bare) {
                let as_absent = absent.as_ref().map(|a| a.same_op(&v)).unwrap_or(false);
                vfail!(format!("flag-presence:{tag}:behaviour"), "{}", show(&format!("the flag is present but the operator differs from the one with the bare flag{}: {d}", if as_absent { " (it equals the one WITHOUT the flag)" } else { "" })));
            }
            if c.spelling != "bare" {
                rec.nontrivial(&(&c.variant.text, &c.variant.macros));
            }
        }
        1 | 2 => match variant {
            Err(e) => {
                vensure!(error_names(&e, &c.names), format!("flag-presence:{tag}:error-does-not-name-parameter"), "{}", show(&format!("rejected with {e:?}, which names none of {:?}", c.names)));
                rec.class(if c.kind == 1 { "false:rejected" } else { "other-text:rejected" });
            }
            Ok(v) => {
                let as_absent = absent.as_ref().map(|a| a.same_op(&v)).unwrap_or(false);
                let as_bare = v.same_op(&bare);
                if c.kind == 1 {
                    vensure!(as_absent, format!("flag-presence:{tag}:accepted-not-as-absent"), "{}", show(&format!("key=false is accepted, but the operator is not the one without the flag{}", if as_bare { " (it equals the one WITH the flag)" } else { "" })));
                    rec.class("false:as-absent");
                } else {
                    vensure!(as_absent || as_bare, format!("flag-presence:{tag}:neither-present-nor-absent"), "{}", show("the value is accepted, but the operator is neither the one with the bare flag nor the one without the flag"));
                    rec.class(if as_absent { "other-text:as-absent" } else { "other-text:as-present" });
                }
                rec.nontrivial(&(&c.variant.text, &c.variant.macros));
            }
        },
        _ => vfail!("harness-flag-kind", "kind {}", c.kind),
    }
    Ok(())
}

// ===================================================================================
// Part 4: the typed-parameter clauses under every modifier context of the step
// ===================================================================================

/// (step text, parameter the error must name; None = well-formed twin, error kind)
const MSTEPS: [(&str, Option<&str>, &str); 13] = [
    ("utm", Some("zone"), "missing-required-natural"),
    ("c16typed int_req=-4 real_req=1.5 ser_req=1,2 txt_req=abc txts_req=a,b", Some("nat_req"), "missing-required-natural"),
    ("c16typed nat_req=5 int_req=-4 ser_req=1,2 txt_req=abc txts_req=a,b", Some("real_req"), "missing-required-real"),
    ("helmert x=abc", Some("x"), "non-numeric-real"),
    ("c16typed nat_req=5 int_req=-4 real_req=abc ser_req=1,2 txt_req=abc txts_req=a,b", Some("real_req"), "non-numeric-real"),
    ("helmert x=1:2:3:4", Some("x"), "four-element-sexagesimal"),
    ("utm zone=-3", Some("zone"), "negative-natural"),
    ("c16typed nat_req=-1 int_req=-4 real_req=1.5 ser_req=1,2 txt_req=abc txts_req=a,b", Some("nat_req"), "negative-natural"),
    ("c16typed nat_req=5 int_req=-4 real_req=1.5 ser_req=1,b txt_req=abc txts_req=a,b", Some("ser_req"), "bad-series-element"),
    ("c16typed nat_req=5 int_req=1.5 real_req=1.5 ser_req=1,2 txt_req=abc txts_req=a,b", Some("int_req"), "fractional-integer"),
    ("utm zone=32", None, "well-formed"),
    ("helmert x=3", None, "well-formed"),
    ("c16typed nat_req=5 int_req=-4 real_req=1.5 ser_req=1,2 txt_req=abc txts_req=a,b", None, "well-formed"),
];

const MPOSITIONS: [&str; 8] = ["stand-alone", "first-of-2", "middle-of-3", "last-of-2", "macro-body-middle:invoked-alone", "macro-body-middle:invoked-as-last-step", "behind-modified-invocation:single-step-body", "behind-modified-invocation:pipeline-body"];
const MSPELLINGS: [&str; 5] = ["suffix-words", "prefix-words", "sugar->+suffix", "sugar-<+prefix", "=true-suffix"];
const M_INV: u8 = 1;
const M_OFWD: u8 = 2;
const M_OINV: u8 = 4;

#[derive(Clone, Debug, Serialize, Deserialize)]
struct ModCase {
    step: String,
    expect: Option<String>,
    kind: String,
    mods: u8,
    spelling: u8,
    position: u8,
    def: FDef,
    /// the unmodified stand-alone step
    reference: FDef,
}

fn mods_name(m: u8) -> String {
    if m == 0 {
        return "none".into();
    }
    [(M_INV, "inv"), (M_OFWD, "omit_fwd"), (M_OINV, "omit_inv")].iter().filter(|(b, _)| m & b != 0).map(|(_, n)| *n).collect::<Vec<_>>().join("+")
}

/// (step, mods, spelling, position) of every meaningful combination
fn mod_index() -> Vec<(u8, u8, u8, u8)> {
    let mut v = vec![];
    for s in 0..MSTEPS.len() as u8 {
        for pos in 0..MPOSITIONS.len() as u8 {
            for mods in 0..8u8 {
                // omit_* is documented for pipeline steps only
                if pos == 0 && mods & (M_OFWD | M_OINV) != 0 {
                    continue;
                }
                for sp in 0..MSPELLINGS.len() as u8 {
                    let has_pred = !matches!(pos, 0 | 1);
                    let ok = match sp {
                        0 => true,
                        1 | 4 => mods != 0,
                        2 => has_pred && mods & M_OINV != 0,
                        3 => has_pred && mods & M_OFWD != 0,
                        _ => false,
                    };
                    if ok {
                        v.push((s, mods, sp, pos));
                    }
                }
            }
        }
    }
    v
}

fn mod_case(ix: (u8, u8, u8, u8)) -> ModCase {
    let (s, mods, sp, pos) = ix;
    let (step, expect, kind) = MSTEPS[s as usize];
    // the modified item: the step itself, or the invocation of the macro that holds it
    let item = if pos >= 6 { "c16m:t" } else { step };
    let mut m = mods;
    let sep = match sp {
        2 => {
            m &= !M_OINV;
            " > "
        }
        3 => {
            m &= !M_OFWD;
            " < "
        }
        _ => " | ",
    };
    let words: Vec<&str> = [(M_INV, "inv"), (M_OFWD, "omit_fwd"), (M_OINV, "omit_inv")].iter().filter(|(b, _)| m & b != 0).map(|(_, n)| *n).collect();
    let modified = match sp {
        0 | 2 => std::iter::once(item.to_string()).chain(words.iter().map(|w| w.to_string())).collect::<Vec<_>>().join(" "),
        1 | 3 => words.iter().map(|w| w.to_string()).chain(std::iter::once(item.to_string())).collect::<Vec<_>>().join(" "),
        _ => std::iter::once(item.to_string()).chain(words.iter().rev().map(|w| format!("{w}=true"))).collect::<Vec<_>>().join(" "),
    };
    let mac = |body: String| vec![("c16m:t".to_string(), body)];
    let (macros, text) = match pos {
        0 => (vec![], modified),
        1 => (vec![], format!("{modified} | helmert y=2")),
        2 => (vec![], format!("helmert y=2{sep}{modified} | helmert z=3")),
        3 => (vec![], format!("helmert y=2{sep}{modified}")),
        4 => (mac(format!("helmert y=2{sep}{modified} | helmert z=3")), "c16m:t".to_string()),
        5 => (mac(format!("helmert y=2{sep}{modified} | helmert z=3")), "helmert z=1 | c16m:t".to_string()),
        6 => (mac(step.to_string()), format!("helmert z=1{sep}{modified}")),
        _ => (mac(format!("helmert y=2 | {step}")), format!("helmert z=1{sep}{modified} | helmert z=3")),
    };
    ModCase { step: step.into(), expect: expect.map(|e| e.to_string()), kind: kind.into(), mods, spelling: sp, position: pos, def: FDef { macros, text }, reference: FDef { macros: vec![], text: step.into() } }
}

/// (variant name of the error, parameter it names)
fn error_shape(e: &Error) -> (String, Option<String>) {
    let d = format!("{e:?}");
    let variant = d.split(['(', ' ', '{']).next().unwrap_or("").to_string();
    let named = match e {
        Error::BadParam(k, _) | Error::MissingParam(k) => Some(k.clone()),
        _ => None,
    };
    (variant, named)
}

fn check_mod(c: &ModCase, rec: &mut Rec) -> CaseResult {
    let show = |what: &str| format!("{what}\n  step {:?} ({}), modifiers {}, spelling {}, position {}\n  definition: {}", c.step, c.kind, mods_name(c.mods), MSPELLINGS[c.spelling as usize], MPOSITIONS[c.position as usize], fdef_show(&c.def));
    let tag = format!("typed-under-modifiers:{}", c.kind);
    let obs = |d: &FDef| fobserve(d).map_err(|(k, m)| Failure { key: k, msg: show(&format!("{}: {m}", fdef_show(d))) });
    let reference = obs(&c.reference)?;
    let variant = obs(&c.def)?;
    rec.class(&format!("kind:{}", c.kind));
    rec.class(&format!("modifiers:{}", mods_name(c.mods)));
    rec.class(&format!("modifier-spelling:{}", MSPELLINGS[c.spelling as usize]));
    rec.class(&format!("position:{}", MPOSITIONS[c.position as usize]));
    if c.mods & (M_OFWD | M_OINV) == (M_OFWD | M_OINV) {
        rec.nontrivial(&(&c.def.text, &c.def.macros));
    }
    match &c.expect {
        Some(p) => {
            // absolute: the plain step is rejected naming the parameter
            let want = match reference {
                Err(e) => {
                    let sh = error_shape(&e);
                    vensure!(sh.1.as_deref() == Some(p.as_str()), format!("{tag}:reference-error-does-not-name-parameter"), "{}", show(&format!("the plain step is rejected with {e:?}, which does not name {p:?}")));
                    sh
                }
                Ok(_) => vfail!(format!("{tag}:reference-accepted"), "{}", show(&format!("the plain stand-alone step is accepted although {p:?} is missing or malformed"))),
            };
            match variant {
                Ok(o) => vfail!(format!("{tag}:accepted"), "{}", show(&format!("accepted (steps {:?}), although the plain step is rejected with {want:?}: the parameters of a step are typed whatever its modifiers", o.steps))),
                Err(e) => {
                    let got = error_shape(&e);
                    vensure!(got == want, format!("{tag}:different-error"), "{}", show(&format!("rejected with {e:?}, the plain step with {want:?}")));
                    rec.class("rejected-as-the-plain-step");
                }
            }
        }
        None => {
            vensure!(reference.is_ok(), format!("{tag}:reference-rejected"), "{}", show(&format!("the plain step is rejected: {:?}", reference.as_ref().err())));
            let o = match variant {
                Ok(o) => o,
                Err(e) => vfail!(format!("{tag}:rejected"), "{}", show(&format!("a well-formed step is rejected under these modifiers: {e:?}"))),
            };
            // ctx.steps and ctx.params(op, i) describe the same steps
            vensure!(o.steps.len() == o.params.len(), format!("{tag}:steps-params-count"), "{}", show(&format!("ctx.steps lists {} steps {:?}, ctx.params(op, i) exists for {} indices", o.steps.len(), o.steps, o.params.len())));
            for (i, (st, p)) in o.steps.iter().zip(&o.params).enumerate() {
                // a macro invocation is listed under the macro's name, its parameters under the name of the body's operator
                vensure!(st.0.contains(':') || p.starts_with(&format!("{:?} flags", st.0)), format!("{tag}:steps-params-name"), "{}", show(&format!("step {i} is {:?} but ctx.params(op, {i}) is {p}", st.0)));
            }
            let expected = match c.position {
                0 => Some((1usize, 0usize)),
                1 => Some((2, 0)),
                2 => Some((3, 1)),
                3 => Some((2, 1)),
                _ => None,
            };
            if let Some((n, k)) = expected {
                vensure!(o.steps.len() == n, format!("{tag}:step-count"), "{}", show(&format!("{n} steps written, ctx.steps lists {:?}", o.steps)));
                let name = c.step.split(' ').next().unwrap_or("");
                vensure!(o.steps[k].0 == name, format!("{tag}:step-name"), "{}", show(&format!("step {k} must be {name:?}: {:?}", o.steps)));
                for (b, w) in [(M_INV, "inv"), (M_OFWD, "omit_fwd"), (M_OINV, "omit_inv")] {
                    vensure!(o.steps[k].1.iter().any(|x| x == w) == (c.mods & b != 0), format!("{tag}:step-modifiers"), "{}", show(&format!("modifier {w} of step {k}: {:?}", o.steps)));
                }
            }
            rec.class("steps-and-params-aligned");
        }
    }
    Ok(())
}

// ===================================================================================
// main
// ===================================================================================

fn main() {
    let mut run = Run::init("C16");
    selftest();
    let known = known_keys(&run.root);
    let ex = Excl::from_known(&known);

    run.assume("well-formed definition = steps that start with a name (modifiers may precede it), key=value pairs without blanks inside values except around ',' and ':', flags; a one-way delimiter < or > is directly followed by its step (an empty one-way step such as 'a > > b' is outside the statement)");
    run.assume("a continuation colon is the first character of a line; a value that is empty or ends in ',' is only written as the last token of a step, values never end in ':' (the documented normalisation glues 'k= v', 'k=a, b' and 'a: b')");
    run.assume("omit_fwd/omit_inv and the stack operators (stack, push, pop) are generated only in definitions of two or more steps (documented as pipeline-only)");
    run.assume("typed values: a plain or exponent decimal must give the correctly rounded double (bit-exact, 0 = -0); a sexagesimal value must be within 3*2^-52 relative of the exact rational d+m/60+s/3600 times the product of the signs (the documented formula has five roundings); spellings the documentation is silent about (leading '+', '.5', 'inf', minutes >= 60, trailing comma, flag=<text other than the empty text or true in any letter case>) may be accepted or rejected, but a rejection must name the parameter");
    run.assume("garbage for a real = a component the Rust standard parser cannot read as a number; the standard parser is trusted for that decision and for decimal conversions outside |mantissa| < 2^53, |exponent| <= 22");
    run.assume("generated gamuts never use the keys inv, omit_fwd, omit_inv, ellps (modifiers / context global); an omitted parameter of a generated gamut must take that gamut's default whatever was instantiated before, in this or any other context of the process");
    run.assume("contexts: geodesy::Minimal with the harness operator 'c16typed' and two macros registered; the Plain context shares the same Op::new path and is not exercised here");

    let excl_note: Vec<&str> = RULES.iter().enumerate().filter(|(i, _)| ex.rules & (1 << i) != 0).map(|(_, r)| r.key).collect();
    run.note("known_classes_excluded_by_construction", serde_json::json!({"layout_rules": excl_note, "multibyte_tail_values": ex.mb_tail}));

    // 1. tokenizer level, arbitrary names
    let n = run.scale(120_000, 3_000_000);
    run.section(
        "tokenizer-layout",
        "ASTs of 1..5 steps with arbitrary names, macro names, indexed keys, flags, value lists (multi-byte atoms included) and modifiers; each rendered twice from independent layout tapes; split_into_steps/split_into_parameters of every rendering must equal the reference map computed from the AST, reported steps are fixed points of normalize, normalize is idempotent on comment-free renderings and agrees with the step list; non-trivial = the two renderings differ in >= 2 layout dimensions",
        n,
        || layout_case(free_ast),
        move |c: &LayoutCase, rec: &mut Rec| check_tok(c, rec, ex),
    );

    // 2. context level: steps, parsed parameters, behaviour
    let n = run.scale(40_000, 1_000_000);
    run.section(
        "behaviour-layout",
        "ASTs of 1..5 steps over 20 real operators (sound parameter values in every spelling, repeated and unknown keys), built-in and registered macros, modifiers; two independent renderings each compared with the canonical one-line text on fresh contexts: instantiation outcome, ctx.steps (count, per-step parameter maps, also against the AST), ctx.params of every step (Debug-identical), apply forward and inverse on 2 probe tuples (bit-identical, counts); non-trivial = the two renderings differ in >= 2 layout dimensions",
        n,
        || layout_case(cat_ast),
        move |c: &LayoutCase, rec: &mut Rec| check_beh(c, rec, ex),
    );

    // 3. fixed table of spellings per parameter kind
    let table = typed_table(ex);
    let nt = table.len();
    run.enumerate(
        "typed-table",
        "every listed spelling (valid, odd, invalid, multi-byte, empty, bare key) for each of the seven parameter kinds on required and optional keys of the harness operator, alone / inside a pipeline; omitted required keys one at a time; built-in operators without arguments (required demanded, defaults)",
        nt,
        move |i| table[i].clone(),
        check_typed,
    );

    // 4. random typed definitions for the harness operator
    let n = run.scale(100_000, 2_500_000);
    run.section(
        "typed-values",
        "definitions of the harness operator (gamut with all seven kinds, required and optional keys, indexed keys that shadow implicit defaults): values in generated spellings (decimal, exponent, d:m:s, hemisphere, signs), listed adversarial texts and random strings over a numeric alphabet; repeated keys, unknown keys, omitted keys, bare keys, subscript keys, five positions; ctx.params compared with the reference parser; non-trivial = some value is not a plain decimal/integer/text",
        n,
        move || prop::collection::vec(any::<u32>(), 0..260).prop_map(move |d| typed_case(&d, ex, false)),
        check_typed,
    );

    // 5. built-in gamuts
    let n = run.scale(50_000, 1_000_000);
    run.section(
        "builtin-gamuts",
        "17 built-in operators (helmert, axisswap, unitconvert, utm, butm, tmerc, btmerc, merc, laea, cart, molodensky, adapt, permtide, stack, push, pop): parameters from their documented domains in every spelling or surely invalid texts; typed values, defaults of omitted keys and demanded required keys compared with the gamut table transcribed into the harness",
        n,
        move || prop::collection::vec(any::<u32>(), 0..200).prop_map(move |d| typed_case(&d, ex, true)),
        check_typed,
    );

    // 6. histories over generated user gamuts
    let n = run.scale(25_000, 600_000);
    run.section(
        "gamut-histories",
        "2..4 operators registered with register_op (constructor Op::plain) whose gamuts are generated: every OpParameter kind, keys from a pool of 12 (colliding across gamuts and with built-in keys such as order, translation, zone, from), generated defaults (distinct per gamut, drawn from large sets so that no other case can mask a leak); 2..6 definitions of 1..3 steps (user operators and axisswap/helmert/utm/tmerc) instantiated one after the other on one context with most parameters omitted; every parsed value of every step = the given value or the default of that operator's own gamut; axisswap without order is the identity; non-trivial = two gamuts share a key and kind with different defaults and both relied on the default",
        n,
        || prop::collection::vec(any::<u32>(), 0..240).prop_map(|d| hist_case(&d)),
        check_history,
    );

    // 7. spellings of presence of a flag x places where a flag is read
    let sites = fsites();
    let index = findex(&sites, run.is_thorough());
    let nf = index.len();
    run.enumerate(
        "flag-presence",
        "every flag of every built-in gamut that needs no grid (utm/butm south, helmert exact, molodensky abridged, latitude x6, gravity x6, curvature x5, geodesic reversible, omerc variant, stack swap/drop, push/pop v_1..v_4) and of the harness operator, `inv` on 24 invertible operators, omit_fwd/omit_inv on pipeline steps (first and last), inv/omit_fwd/omit_inv on macro invocations (single, pipeline and nested bodies, built-in geo:in), flags handed to macro bodies through arguments (globals, nested, `flag=$arg`), and the same places written inside a macro body; alone, as pipeline step and in front of </> sugar; crossed with the spellings bare, =true, =TRUE/True/tRuE, the explicit EMPTY value (`key=`, `key =`) as last token before end of text / blank / LF / CRLF / CR / tab / comment / `|` / `<` / `>`, blanks around '=', subscript digit keys, in front of the other arguments; contrast spellings =false (3 cases), 6 other texts, empty value followed by a token. Oracle (absolute): the bare flag is accepted, reported set by ctx.params where it is read, gives the documented closed form for addone definitions (exact) and differs from the definition without the flag where the documentation gives it an effect; every spelling of presence must equal the bare flag in step list (names, keys), typed parameters of every step and apply results both directions (bit-identical) on fresh contexts; =false: rejected naming the parameter or identical to the definition without the flag; other text: rejected naming the parameter, or identical to absent or to present; `key= value` identical to `key=value`; non-trivial = a spelling other than the bare flag",
        nf,
        move |i| flag_case(&sites, index[i]),
        check_flag,
    );

    // 8. typed-parameter clauses x modifier contexts x positions
    let mindex = mod_index();
    let nm = mindex.len();
    run.enumerate(
        "typed-errors-under-modifiers",
        "10 ill-formed steps (missing required natural / real, non-numeric real, 4-element sexagesimal, negative natural, bad series element, fractional integer; utm, helmert and the harness operator) and 3 well-formed twins x every subset of the modifiers inv, omit_fwd, omit_inv x 5 spellings (suffix words, prefix words, `>` sugar + suffix, `<` sugar + prefix, =true) x 8 positions (stand-alone [none/inv only], first of 2, middle of 3, last of 2, middle of a macro body invoked alone / as last step, behind a macro invocation that carries the modifiers with a single-step / pipeline body). Oracle (absolute): the plain stand-alone step is rejected with an error naming the parameter, and the definition is rejected with the same error variant naming the same parameter under every modifier context; the well-formed twin is accepted, ctx.steps and ctx.params(op, i) have the same count and the same names step by step, and (elementary positions) the written number of steps, the step name and exactly the written modifiers are reported; non-trivial = the step carries both omit_fwd and omit_inv",
        nm,
        move |i| mod_case(mindex[i]),
        check_mod,
    );

    run.finish("definition ASTs rendered with independent layouts judged against a reference tokenizer model and the canonical rendering (steps, parsed parameters, bit-identical behaviour); typed parameter values judged against a reference parser written from the documentation (exact rational arithmetic for sexagesimal values); every spelling of presence of a flag (bare, =true in any case, explicit empty value) at every place a flag is read must equal the bare flag, whose documented effect is checked absolutely");
}

