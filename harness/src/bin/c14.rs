//! C14 — independent implementations of the same quantity agree.
//!
//! Differential oracles between two routes the library itself offers (and, for the
//! series-based auxiliary latitudes / meridian arcs, between the library and closed
//! forms / Gauss-Legendre quadrature from `vcore::refmath`):
//!
//!  * tmerc (Engsager/Poder series) vs btmerc (Bowring closed form), |dlon| <= 3 deg, central
//!    meridians anywhere incl. at / near / beyond the +-180 deg cut, every point under the raw
//!    longitudes a caller may write for it (`REPS`: wrapped either way, a turn up / down, exactly
//!    +-180) and under the longitudes the inverse routes themselves return
//!  * `cart` operator vs `Ellipsoid::cartesian` / `Ellipsoid::geographic`
//!  * latitude / curvature / geodesic / gravity operators vs the Ellipsoid trait methods
//!  * axisswap vs adapt (pure signed permutations), unitconvert vs adapt (deg/gon <-> rad)
//!  * Minimal vs Plain vs GridCtx (a user Context) on a catalogue of built-in definitions
//!  * series based auxiliary latitudes / rectifying-series meridian arc vs closed forms / quadrature
//!
//! All 47 built-in ellipsoids (hook `verif_hooks::ellipsoid_table`) take part in every pair.

use geodesy::authoring::*;
use proptest::prelude::*;
use serde::{Deserialize, Serialize};
use std::f64::consts::{FRAC_PI_2, PI};
use std::sync::OnceLock;
use vcore::geo::*;
use vcore::gridctx::GridCtx;
use vcore::guard::guard;
use vcore::refmath::{wrap_pi, El};
use vcore::*;

// ---------------------------------------------------------------------------------
// common helpers
// ---------------------------------------------------------------------------------

static ELLS: OnceLock<Vec<String>> = OnceLock::new();
fn ells() -> &'static Vec<String> {
    ELLS.get_or_init(|| geodesy::verif_hooks::ellipsoid_table().iter().map(|e| e.0.to_string()).collect())
}
fn ell_name() -> BoxedStrategy<String> {
    prop_oneof![
        8 => any::<u16>().prop_map(|i| ells()[pick(i, ells().len())].clone()),
        // the "semimajor axis, reciprocal flattening" form, inside the range of the table (1/191 .. 1/334.3)
        1 => (prop_oneof![Just(6378388.0f64), (6_370_000_000i64..6_400_000_000).prop_map(|mm| mm as f64 / 1000.0)], prop_oneof![Just(297.0f64), (190_000i64..400_000).prop_map(|k| k as f64 / 1000.0)])
            .prop_map(|(a, rf)| format!("{},{}", num(a), num(rf))),
    ]
    .boxed()
}
fn ell_class(name: &str) -> &str {
    if name.contains(',') {
        "(a,rf pair)"
    } else {
        name
    }
}

// ---- routes by which an operator can be told its ellipsoid --------------------------------------

const ROUTES: [&str; 6] = [
    "local ellps=X",
    "macro argument, body without ellps",
    "macro body ellps=$ellps",
    "macro body ellps=$e(GRS80), argument e=X",
    "macro with argument as a pipeline step",
    "nested macro, argument given to the outer one",
];

struct Routed {
    regs: Vec<(String, String)>,
    invoke: String,
    /// text for messages
    show: String,
}

/// `base` is the operator definition without any ellps parameter
fn routed(base: &str, ell: &str, explicit: bool, route: u8) -> Routed {
    let m = "c14r:op";
    let (regs, invoke): (Vec<(String, String)>, String) = match route % 6 {
        0 => (vec![], if explicit || ell != "GRS80" { format!("{base} ellps={ell}") } else { base.to_string() }),
        1 => (vec![(m.into(), base.into())], format!("{m} ellps={ell}")),
        2 => (vec![(m.into(), format!("{base} ellps=$ellps"))], format!("{m} ellps={ell}")),
        3 => (vec![(m.into(), format!("{base} ellps=$e(GRS80)"))], format!("{m} e={ell}")),
        4 => (vec![(m.into(), base.into())], format!("noop | {m} ellps={ell}")),
        _ => (vec![(m.into(), base.into()), ("c14r:outer".into(), m.into())], format!("c14r:outer ellps={ell}")),
    };
    let show = if regs.is_empty() {
        invoke.clone()
    } else {
        format!("{invoke} [with {}]", regs.iter().map(|(n, b)| format!("{n} := '{b}'")).collect::<Vec<_>>().join(", "))
    };
    Routed { regs, invoke, show }
}

fn apply_routed(r: &Routed, fwd: bool, input: &[Coor4D]) -> Result<(Vec<Coor4D>, usize), Failure> {
    let mut ctx = Minimal::new();
    for (n, b) in &r.regs {
        ctx.register_resource(n, b);
    }
    let op = mk_op(&mut ctx, &r.invoke).map_err(|f| Failure { key: f.key, msg: format!("{} ({})", f.msg, r.show) })?;
    let mut data = input.to_vec();
    let n = run_op(&ctx, op, fwd, &mut data, &r.show)?;
    Ok((data, n))
}

/// The library ellipsoid of that name (guarded) and the reference `El` built from its public (a, f)
fn lib_ell(name: &str) -> Result<(Ellipsoid, El), Failure> {
    match guard(|| Ellipsoid::named(name)) {
        Err(p) => fail(format!("panic-ellipsoid-named@{}", p.sig()), format!("Ellipsoid::named({name:?}) panics: {} at {}:{}", p.msg, p.file, p.line)),
        Ok(Err(e)) => fail("ellipsoid-named-error", format!("Ellipsoid::named({name:?}) of a table name fails: {e:?}")),
        Ok(Ok(e)) => Ok((e, El::new(e.semimajor_axis(), e.flattening()))),
    }
}

fn mk_op<C: Context>(ctx: &mut C, def: &str) -> Result<OpHandle, Failure> {
    match try_op(ctx, def) {
        Err(p) => fail(format!("panic-instantiate@{}", p.sig()), format!("instantiating '{def}' panics: {} at {}:{}", p.msg, p.file, p.line)),
        Ok(Err(e)) => fail(
            format!("instantiate-error@{}", def.split_whitespace().next().unwrap_or("")),
            format!("well-formed definition '{def}' rejected: {e:?}"),
        ),
        Ok(Ok(op)) => Ok(op),
    }
}

fn run_op<C: Context>(ctx: &C, op: OpHandle, fwd: bool, data: &mut Vec<Coor4D>, def: &str) -> Result<usize, Failure> {
    match try_apply(ctx, op, dir_of(fwd), data) {
        Err(p) => fail(
            format!("panic-apply@{}", p.sig()),
            format!("applying '{def}' ({}) panics: {} at {}:{}", if fwd { "Fwd" } else { "Inv" }, p.msg, p.file, p.line),
        ),
        Ok(Err(e)) => fail(format!("apply-error@{}", def.split_whitespace().next().unwrap_or("")), format!("apply of '{def}' returned an error: {e:?}")),
        Ok(Ok(n)) => Ok(n),
    }
}

/// one fresh Minimal, instantiate, apply to a copy
fn apply_def(def: &str, fwd: bool, input: &[Coor4D]) -> Result<(Vec<Coor4D>, usize), Failure> {
    let mut ctx = Minimal::new();
    let op = mk_op(&mut ctx, def)?;
    let mut data = input.to_vec();
    let n = run_op(&ctx, op, fwd, &mut data, def)?;
    Ok((data, n))
}

fn dirname(fwd: bool) -> &'static str {
    if fwd {
        "Fwd"
    } else {
        "Inv"
    }
}

/// ulps distance where two NaNs count as equal
fn ulps_nan(a: f64, b: f64) -> u64 {
    if a.is_nan() && b.is_nan() {
        0
    } else {
        ulps(a, b)
    }
}

/// 0.25 degree cell of an angle given in degrees (for distinctness fingerprints)
fn cell(deg: f64) -> i32 {
    (deg * 4.0).floor().clamp(-4000.0, 4000.0) as i32
}

fn lat_deg_strategy() -> BoxedStrategy<f64> {
    prop_oneof![
        10 => -89.9f64..89.9,
        1 => Just(0.0f64),
        1 => 89.9f64..90.0,
        1 => -90.0f64..-89.9,
        1 => prop_oneof![Just(90.0f64), Just(-90.0f64)],
        1 => -1e-6f64..1e-6,
    ]
    .boxed()
}

fn lon_deg_strategy() -> BoxedStrategy<f64> {
    prop_oneof![
        10 => -180.0f64..180.0,
        1 => prop_oneof![Just(0.0f64), Just(90.0f64), Just(-90.0f64), Just(180.0f64), Just(-180.0f64)],
        1 => -1e-6f64..1e-6,
    ]
    .boxed()
}

/// Longitudes anywhere a caller may write them: the customary range, the cut at +-180 deg from
/// both sides and exactly, and raw values up to one and a half turns outside the range
fn lon_deg_wide_strategy() -> BoxedStrategy<f64> {
    prop_oneof![
        12 => lon_deg_strategy(),
        2 => 180.0f64..540.0,
        2 => -540.0f64..-180.0,
        1 => (any::<bool>(), -1e-7f64..1e-7).prop_map(|(e, d)| if e { 180.0 + d } else { -180.0 + d }),
        1 => prop_oneof![Just(181.0f64), Just(-183.0f64), Just(360.0f64), Just(-360.0f64), Just(540.0f64), Just(-540.0f64), Just(179.5f64), Just(-179.5f64)],
    ]
    .boxed()
}

// ---- raw longitudes under which one and the same meridian can be presented ----------------------

/// The ways in which the longitude of a point `dlon` degrees from the central meridian `lon_0` is
/// written down by a caller. All denote the same meridian; every route that takes a longitude must
/// give the same result for each of them (to the rounding of the presentation).
const REPS: [&str; 10] = [
    "lon_0 + dlon as computed",
    "wrapped into [-180, 180)",
    "wrapped into (-180, 180]",
    "wrapped into [0, 360)",
    "one turn up (+360)",
    "one turn down (-360)",
    "exactly +180 where that meridian is within 3 deg of the central one (else as [-180, 180))",
    "exactly -180 where that meridian is within 3 deg of the central one (else as (-180, 180])",
    "two turns up (+720)",
    "two turns down (-720)",
];

/// into [-180, 180)
fn wrap180(x: f64) -> f64 {
    x - 360.0 * ((x + 180.0) / 360.0).floor()
}

/// Raw longitude in degrees of the point `dlon` degrees (|dlon| <= 3) from the meridian `lon_0`,
/// in the presentation `rep`
fn raw_lon(lon_0: f64, dlon: f64, rep: u8) -> f64 {
    let l = lon_0 + dlon;
    let r = rep as usize % REPS.len();
    match r {
        0 => l,
        1 => wrap180(l),
        2 => -wrap180(-l),
        3 => {
            let w = wrap180(l);
            if w < 0.0 {
                w + 360.0
            } else {
                w
            }
        }
        4 => l + 360.0,
        5 => l - 360.0,
        8 => l + 720.0,
        9 => l - 720.0,
        _ => {
            // the antimeridian itself, under both of its names
            let off = wrap180(180.0 - lon_0);
            if off.abs() <= 3.0 {
                if r == 6 {
                    180.0
                } else {
                    -180.0
                }
            } else if r == 6 {
                wrap180(l)
            } else {
                -wrap180(-l)
            }
        }
    }
}

/// Bookkeeping for a raw longitude handed to a route with central meridian `lon_0` (degrees):
/// which way (if any) the plain difference `lon - lon_0` leaves [-180, 180)
fn note_wrap(rec: &mut Rec, lon: f64, lon_0: f64) -> i32 {
    let d = lon - lon_0;
    if lon.abs() == 180.0 {
        rec.count("points_exactly_at_+-180", 1);
    } else if lon.abs() > 180.0 {
        rec.count("points_with_raw_longitude_outside_+-180", 1);
    }
    if d < -180.0 {
        rec.count("points_with_lon-lon_0_below_-180", 1);
        -1
    } else if d >= 180.0 {
        rec.count("points_with_lon-lon_0_at_or_above_+180", 1);
        1
    } else {
        rec.count("points_with_lon-lon_0_in_range", 1);
        0
    }
}

fn lon_0_class(lon_0: f64) -> &'static str {
    if lon_0.abs() > 180.0 {
        "lon_0 outside [-180, 180]"
    } else if lon_0.abs() == 180.0 {
        "lon_0 = +-180"
    } else if lon_0.abs() >= 177.0 {
        "lon_0 within 3 deg of the antimeridian"
    } else {
        "lon_0 elsewhere"
    }
}

// ---------------------------------------------------------------------------------
// 1. tmerc vs btmerc
// ---------------------------------------------------------------------------------

#[derive(Clone, Debug, Serialize, Deserialize)]
struct TmCase {
    ell: String,
    lat_0: F,
    lon_0: F,
    k_0: F,
    x_0: F,
    y_0: F,
    /// (longitude offset from lon_0 in degrees, |.| <= 3; latitude in degrees)
    pts: Vec<[F; 2]>,
    /// per point: index into REPS, the presentation of its raw longitude (missing = 0)
    #[serde(default)]
    reps: Vec<u8>,
}

const TM_TOL: f64 = 1.0e-3; // "sub-millimetre", ground metres: the level the property states (cap)
/// Calibrated model of the weaker route (Bowring): forward differences are dominated by Bowring's
/// meridian arc (measured <= 0.40 a n^4 over all table ellipsoids), inverse differences by the
/// truncation of the closed form in the second eccentricity (measured 6.6e-5 .. 7.2e-5 a e'^6).
/// Margin 3.5x; never looser than TM_TOL.
fn tm_tol(el: &El, fwd: bool) -> f64 {
    let t = if fwd { 1.5 * el.a * el.n3().powi(4) } else { 2.5e-4 * el.a * el.e2s().powi(3) };
    (t + 2.0e-6).min(TM_TOL)
}

fn tm_defs(c: &TmCase, lat_0: f64) -> (String, String) {
    let tail = format!(
        "ellps={} lat_0={} lon_0={} k_0={} x_0={} y_0={}",
        c.ell,
        num(lat_0),
        num(c.lon_0.0),
        num(c.k_0.0),
        num(c.x_0.0),
        num(c.y_0.0)
    );
    (format!("tmerc {tail}"), format!("btmerc {tail}"))
}

/// Central meridians at, near and beyond the +-180 deg cut
fn lon_0_antimeridian_strategy() -> BoxedStrategy<f64> {
    prop_oneof![
        3 => 177.0f64..180.0,
        3 => -180.0f64..-177.0,
        2 => prop_oneof![Just(180.0f64), Just(-180.0f64), Just(177.0f64), Just(-177.0f64), Just(179.0f64), Just(-179.0f64), Just(179.999999f64), Just(-179.999999f64)],
        // outside the customary range: the same meridians (and others) written with one or two extra turns
        2 => prop_oneof![Just(181.0f64), Just(-183.0f64), Just(183.0f64), Just(-181.0f64), Just(360.0f64), Just(-360.0f64), Just(540.0f64), Just(-540.0f64), Just(537.0f64), Just(-537.0f64), Just(369.0f64)],
        2 => prop_oneof![180.0f64..720.0, -720.0f64..-180.0],
    ]
    .boxed()
}

/// `antimeridian`: the section that concentrates on central meridians at / near / beyond +-180 deg
/// and on all presentations of the raw longitudes; otherwise those classes take part with a small weight
fn tm_strategy(with_lat_0: bool, antimeridian: bool) -> BoxedStrategy<TmCase> {
    let lat_0 = if with_lat_0 {
        prop_oneof![4 => -80.0f64..80.0, 1 => prop_oneof![Just(49.0f64), Just(-33.0), Just(0.5), Just(1e-3)]].boxed()
    } else {
        Just(0.0f64).boxed()
    };
    let lon_0 = if antimeridian {
        prop_oneof![12 => lon_0_antimeridian_strategy(), 1 => -180.0f64..180.0].boxed()
    } else {
        prop_oneof![2 => Just(0.0f64), 2 => (-30i32..=30).prop_map(|z| 6.0 * z as f64 + 3.0), 4 => -180.0f64..180.0, 2 => lon_0_antimeridian_strategy()].boxed()
    };
    let k_0 = prop_oneof![2 => Just(1.0f64), 2 => Just(0.9996f64), 3 => 0.9f64..1.1];
    let x_0 = prop_oneof![2 => Just(0.0f64), 2 => Just(500_000.0f64), 2 => -1.0e7f64..1.0e7];
    let y_0 = prop_oneof![2 => Just(0.0f64), 1 => Just(10_000_000.0f64), 2 => -1.0e7f64..1.0e7];
    let dlon = prop_oneof![8 => -3.0f64..3.0, 1 => Just(0.0f64), 1 => prop_oneof![Just(3.0f64), Just(-3.0f64)], 1 => -1e-5f64..1e-5];
    let rep = if antimeridian { (0u8..REPS.len() as u8).boxed() } else { prop_oneof![5 => Just(0u8), 4 => 0u8..REPS.len() as u8].boxed() };
    let pts = prop::collection::vec((dlon, lat_deg_strategy(), rep), 1..=48);
    (ell_name(), lat_0, lon_0, k_0, x_0, y_0, pts)
        .prop_map(|(ell, lat_0, lon_0, k_0, x_0, y_0, raw)| {
            let pts = raw.iter().map(|(a, b, _)| [F(*a), F(*b)]).collect();
            let reps = raw.iter().map(|(_, _, r)| *r).collect();
            TmCase { ell, lat_0: F(lat_0), lon_0: F(lon_0), k_0: F(k_0), x_0: F(x_0), y_0: F(y_0), pts, reps }
        })
        .boxed()
}

/// Ground distance of the forward results of the two routes at one point, per unit of k_0
fn tm_fwd_dist(t: &Coor4D, b: &Coor4D, k_0: f64) -> f64 {
    (t[0] - b[0]).hypot(t[1] - b[1]) / k_0
}

fn tm_check(c: &TmCase, rec: &mut Rec) -> CaseResult {
    let (_, el) = lib_ell(&c.ell)?;
    let lat_0 = c.lat_0.0;
    let (tdef, bdef) = tm_defs(c, lat_0);
    // lat_0 != 0 was the btmerc defect "lat_0 added to the latitude" (fixed in the repository by
    // commit a7dda43); a relapse is reported under its own key
    let known_class = lat_0 != 0.0;
    let lon_0 = c.lon_0.0.to_radians();
    // the raw longitude of each point in its presentation (REPS); all presentations denote the
    // same meridian, at most 3 deg from the central one
    let rep_of = |i: usize| c.reps.get(i).copied().unwrap_or(0) % REPS.len() as u8;
    let raw_deg: Vec<f64> = c.pts.iter().enumerate().map(|(i, p)| raw_lon(c.lon_0.0, p[0].0, rep_of(i))).collect();
    let geo: Vec<Coor4D> = c
        .pts
        .iter()
        .enumerate()
        .map(|(i, p)| Coor4D([if rep_of(i) == 0 { lon_0 + p[0].0.to_radians() } else { raw_deg[i].to_radians() }, p[1].0.to_radians(), 0.0, 0.0]))
        .collect();
    let n = geo.len();

    // coverage bookkeeping first, so that cases ending in a listed finding are still described
    rec.class(ell_class(&c.ell));
    rec.class(lon_0_class(c.lon_0.0));
    let mut wrap_dir = vec![0i32; n];
    for i in 0..n {
        wrap_dir[i] = note_wrap(rec, raw_deg[i], c.lon_0.0);
        rec.count(&format!("points presented as: {}", REPS[rep_of(i) as usize]), 1);
        if c.pts[i][1].0.abs() == 90.0 {
            rec.count("points_at_a_pole", 1);
        }
    }
    for p in &c.pts {
        let (dl, la) = (p[0].0, p[1].0);
        if dl != 0.0 && la != 0.0 && la.abs() < 90.0 {
            rec.nontrivial(&("tm", &c.ell, cell(dl), cell(la), known_class));
        }
    }

    // ---- forward
    let (tf, tn) = apply_def(&tdef, true, &geo)?;
    let (bf, bn) = apply_def(&bdef, true, &geo)?;
    vensure!(tn == n && bn == n, "tmerc-btmerc-count",
        "forward success counts inside the 3 degree strip: '{tdef}' -> {tn}, '{bdef}' -> {bn}, expected {n} each");
    for i in 0..n {
        let d = (tf[i][0] - bf[i][0]).hypot(tf[i][1] - bf[i][1]) / c.k_0.0;
        rec.metric("worst_fwd_m", d);
        if el.f > 0.0 {
            rec.metric("worst_fwd_over_a_n4", d / (el.a * el.n3().powi(4)));
        }
        let tol = tm_tol(&el, true);
        if !(d <= tol) {
            let msg = format!(
                "forward: '{tdef}' and '{bdef}' at (lon, lat) = ({:?}, {:?}) rad [raw longitude {:?} deg = {} deg from the central meridian, {}; lat {} deg]: tmerc ({:?}, {:?}), btmerc ({:?}, {:?}), distance {d:.3e} m > {tol:.3e} m",
                geo[i][0], geo[i][1], raw_deg[i], wrap180(raw_deg[i] - c.lon_0.0), REPS[rep_of(i) as usize], c.pts[i][1].0, tf[i][0], tf[i][1], bf[i][0], bf[i][1]
            );
            if known_class {
                // signature of the registered defect: lat_0 is added to the latitude (instead of
                // subtracting the meridian arc of lat_0 from the northing)
                let (_, b0def) = tm_defs(c, 0.0);
                let shifted = [Coor4D([geo[i][0], geo[i][1] + lat_0.to_radians(), 0.0, 0.0])];
                let (b0, _) = apply_def(&b0def, true, &shifted)?;
                let sig = (b0[0][0] - bf[i][0]).hypot(b0[0][1] - bf[i][1]);
                if sig < 1e-6 {
                    vfail!("btmerc-lat_0-added-to-latitude", "{msg}\n(btmerc lat_0=L at latitude B equals btmerc lat_0=0 at latitude B+L to {sig:.2e} m)");
                }
            }
            if wrap_dir[i] != 0 {
                vfail!("tmerc-btmerc-fwd-disagree-wrapped-longitude", "{msg}\n(the plain difference lon - lon_0 lies {} [-180, 180) deg: the routes must treat the longitude modulo a full turn)", if wrap_dir[i] < 0 { "below" } else { "above" });
            }
            vfail!("tmerc-btmerc-fwd-disagree", "{msg}");
        }
    }

    // ---- inverse: projected input taken from tmerc, rounded to a 1 mm lattice
    let prj: Vec<Coor4D> = tf.iter().map(|p| Coor4D([(p[0] * 1000.0).round() / 1000.0, (p[1] * 1000.0).round() / 1000.0, 0.0, 0.0])).collect();
    let (ti, tn) = apply_def(&tdef, false, &prj)?;
    let (bi, bn) = apply_def(&bdef, false, &prj)?;
    vensure!(tn == n && bn == n, "tmerc-btmerc-count",
        "inverse success counts inside the 3 degree strip: '{tdef}' -> {tn}, '{bdef}' -> {bn}, expected {n} each");
    for i in 0..n {
        let lat = ti[i][1];
        let dlon = wrap_pi(ti[i][0] - bi[i][0]);
        let dlat = ti[i][1] - bi[i][1];
        let d = (dlon * el.n(lat) * lat.cos()).hypot(dlat * el.m(lat));
        rec.metric("worst_inv_m", d);
        if el.f > 0.0 {
            rec.metric("worst_inv_over_a_eps3", d / (el.a * el.e2s().powi(3)));
        }
        let tol = tm_tol(&el, false);
        if !(d <= tol) {
            let msg = format!(
                "inverse: '{tdef}' and '{bdef}' at (E, N) = ({:?}, {:?}): tmerc (lon, lat) = ({:?}, {:?}) rad, btmerc ({:?}, {:?}) rad, ground distance {d:.3e} m > {tol:.3e} m",
                prj[i][0], prj[i][1], ti[i][0], ti[i][1], bi[i][0], bi[i][1]
            );
            if known_class {
                let (_, b0def) = tm_defs(c, 0.0);
                let (b0, _) = apply_def(&b0def, false, &prj[i..=i])?;
                let sig = (b0[0][1] + lat_0.to_radians() - bi[i][1]).abs() * el.a;
                if sig < 1e-6 {
                    vfail!("btmerc-lat_0-added-to-latitude", "{msg}\n(btmerc inv lat_0=L equals btmerc inv lat_0=0 plus L to {sig:.2e} m)");
                }
            }
            vfail!("tmerc-btmerc-inv-disagree", "{msg}");
        }
    }

    // ---- forward once more, at the longitudes the two inverse routes hand back (tmerc: wrapped
    // into [-pi, pi), btmerc: lon_0 + offset as it comes): the presentations the library itself
    // produces, e.g. for feeding the next zone's projection
    let strip = 3.001f64.to_radians();
    for (who, back) in [("tmerc", &ti), ("btmerc", &bi)] {
        let (tf2, tn2) = apply_def(&tdef, true, back)?;
        let (bf2, bn2) = apply_def(&bdef, true, back)?;
        let tol = tm_tol(&el, true);
        let mut inside = 0usize;
        for i in 0..n {
            // Near a pole the 1 mm lattice moves the longitude by any amount: outside the strip the
            // property claims nothing
            if !(wrap_pi(back[i][0] - lon_0).abs() <= strip) {
                rec.count("inverse_outputs_outside_the_strip_(near_pole)_not_reprojected", 1);
                continue;
            }
            inside += 1;
            let dir = note_wrap(rec, back[i][0].to_degrees(), c.lon_0.0);
            let d = tm_fwd_dist(&tf2[i], &bf2[i], c.k_0.0);
            rec.metric("worst_fwd_m_at_inverse_outputs", d);
            if !(d <= tol) {
                let msg = format!(
                    "forward at a longitude returned by the inverse of {who}: '{tdef}' and '{bdef}' at (lon, lat) = ({:?}, {:?}) rad [= the {who} inverse of (E, N) = ({:?}, {:?})]: tmerc ({:?}, {:?}), btmerc ({:?}, {:?}), distance {d:.3e} m > {tol:.3e} m",
                    back[i][0], back[i][1], prj[i][0], prj[i][1], tf2[i][0], tf2[i][1], bf2[i][0], bf2[i][1]
                );
                if known_class {
                    let (_, b0def) = tm_defs(c, 0.0);
                    let shifted = [Coor4D([back[i][0], back[i][1] + lat_0.to_radians(), 0.0, 0.0])];
                    let (b0, _) = apply_def(&b0def, true, &shifted)?;
                    let sig = (b0[0][0] - bf2[i][0]).hypot(b0[0][1] - bf2[i][1]);
                    if sig < 1e-6 {
                        vfail!("btmerc-lat_0-added-to-latitude", "{msg}\n(btmerc lat_0=L at latitude B equals btmerc lat_0=0 at latitude B+L to {sig:.2e} m)");
                    }
                }
                if dir != 0 {
                    vfail!("tmerc-btmerc-fwd-disagree-wrapped-longitude", "{msg}\n(the plain difference lon - lon_0 lies outside [-180, 180) deg)");
                }
                vfail!("tmerc-btmerc-fwd-disagree", "{msg}");
            }
        }
        let _ = (tn2, bn2, inside);
        rec.count("comparisons", inside as u64);
    }

    rec.count("comparisons", 2 * n as u64);
    Ok(())
}

// ---------------------------------------------------------------------------------
// 1b. utm vs butm vs the explicit tmerc / btmerc: every zone, both hemispheres (exhaustive)
// ---------------------------------------------------------------------------------

#[derive(Clone, Debug, Serialize, Deserialize)]
struct ZoneCase {
    /// 0 ..= 61; 1 ..= 60 are the UTM zones, 0 and 61 must be refused by every route
    zone: u32,
    south: bool,
    /// "" = no ellps parameter (default), else a table name
    ell: String,
    /// (longitude offset from the central meridian in degrees, |.| <= 3; latitude in degrees)
    pts: Vec<[F; 2]>,
}

fn zone_points(seed: u64, idx: u64) -> Vec<[F; 2]> {
    let mut v = vec![];
    let dl = [-3.0, -2.2, -1.0, -1e-5, 0.0, 0.7, 1.9, 3.0];
    let la = [-80.0, -45.0, -0.5, 0.0, 33.0, 55.0, 72.0, 84.0];
    for k in 0..8 {
        v.push([F(dl[k]), F(la[(k * 3 + idx as usize) % 8])]);
        // and a seeded point anywhere in the zone
        v.push([F(-3.0 + 6.0 * unit_f(seed, idx, 2 * k as u64)), F(-89.0 + 178.0 * unit_f(seed, idx, 2 * k as u64 + 1))]);
    }
    v
}

fn zone_inst(def: &str) -> Result<Result<(Minimal, OpHandle), String>, Failure> {
    let mut ctx = Minimal::new();
    match try_op(&mut ctx, def) {
        Err(p) => fail(format!("panic-instantiate@{}", p.sig()), format!("instantiating '{def}' panics: {} at {}:{}", p.msg, p.file, p.line)),
        Ok(Err(e)) => Ok(Err(format!("{e:?}"))),
        Ok(Ok(op)) => Ok(Ok((ctx, op))),
    }
}

fn zone_check(c: &ZoneCase, rec: &mut Rec) -> CaseResult {
    let ellname = if c.ell.is_empty() { "GRS80" } else { &c.ell };
    let (_, el) = lib_ell(ellname)?;
    let e = if c.ell.is_empty() { String::new() } else { format!(" ellps={}", c.ell) };
    let s = if c.south { " south" } else { "" };
    let lon_0 = 6.0 * c.zone as f64 - 183.0;
    let y_0 = if c.south { "10000000" } else { "0" };
    let defs = [
        format!("utm zone={}{s}{e}", c.zone),
        format!("butm zone={}{s}{e}", c.zone),
        format!("tmerc lat_0=0 lon_0={} k_0=0.9996 x_0=500000 y_0={y_0}{e}", num(lon_0)),
        format!("btmerc lat_0=0 lon_0={} k_0=0.9996 x_0=500000 y_0={y_0}{e}", num(lon_0)),
    ];
    let utm = zone_inst(&defs[0])?;
    let butm = zone_inst(&defs[1])?;
    let valid = (1..=60).contains(&c.zone);
    // the two routes must agree on whether the definition exists at all ...
    vensure!(utm.is_ok() == butm.is_ok(), "routes-disagree-on-validity",
        "'{}' -> {}, but '{}' -> {}: one route refuses a definition the other accepts",
        defs[0], utm.as_ref().map(|_| "Ok").unwrap_or_else(|e| e.as_str()), defs[1], butm.as_ref().map(|_| "Ok").unwrap_or_else(|e| e.as_str()));
    // ... and with the documentation: zones 1..60 exist, 0 and 61 do not
    if !valid {
        vensure!(utm.is_err(), "utm-invalid-zone-accepted", "'{}' and '{}' are accepted, zones are 1..60", defs[0], defs[1]);
        rec.class("zone refused by both (0, 61)");
        return Ok(());
    }
    let (Ok((uctx, uop)), Ok((bctx, bop))) = (utm, butm) else {
        vfail!("routes-disagree-on-validity", "'{}' and '{}' are both refused, but zone {} exists and the explicit '{}' is the same projection", defs[0], defs[1], c.zone, defs[2]);
    };
    let (tctx, top) = match zone_inst(&defs[2])? {
        Ok(x) => x,
        Err(e) => vfail!("routes-disagree-on-validity", "'{}' is refused ({e}) but '{}' is accepted", defs[2], defs[0]),
    };
    let (xctx, xop) = match zone_inst(&defs[3])? {
        Ok(x) => x,
        Err(e) => vfail!("routes-disagree-on-validity", "'{}' is refused ({e}) but '{}' is accepted", defs[3], defs[1]),
    };
    // every point in every presentation of its raw longitude (REPS; index = point * REPS.len() + presentation)
    let nrep = REPS.len();
    let raw_deg: Vec<f64> = c.pts.iter().flat_map(|p| (0..nrep).map(move |r| raw_lon(lon_0, p[0].0, r as u8))).collect();
    let geo: Vec<Coor4D> = raw_deg.iter().enumerate().map(|(j, l)| Coor4D([l.to_radians(), c.pts[j / nrep][1].0.to_radians(), 0.0, 0.0])).collect();
    let n = geo.len();
    let wrap_dir: Vec<i32> = raw_deg.iter().map(|l| note_wrap(rec, *l, lon_0)).collect();
    let run4 = |fwd: bool, input: &[Coor4D]| -> Result<[(Vec<Coor4D>, usize); 4], Failure> {
        let mut out: Vec<(Vec<Coor4D>, usize)> = vec![];
        for (ctx, op, def) in [(&uctx, uop, &defs[0]), (&bctx, bop, &defs[1]), (&tctx, top, &defs[2]), (&xctx, xop, &defs[3])] {
            let mut d = input.to_vec();
            let k = run_op(ctx, op, fwd, &mut d, def)?;
            out.push((d, k));
        }
        Ok(out.try_into().map_err(|_| ()).unwrap())
    };
    // forward
    let f = run4(true, &geo)?;
    for (k, def) in defs.iter().enumerate() {
        vensure!(f[k].1 == n, "tmerc-btmerc-count", "'{def}' Fwd inside the zone reports {} successes of {n}", f[k].1);
    }
    let tol = tm_tol(&el, true);
    for i in 0..n {
        let d = (f[0].0[i][0] - f[1].0[i][0]).hypot(f[0].0[i][1] - f[1].0[i][1]) / 0.9996;
        rec.metric("worst_fwd_m", d);
        vensure!(d <= tol, if wrap_dir[i] != 0 { "utm-butm-fwd-disagree-wrapped-longitude" } else { "utm-butm-fwd-disagree" },
            "'{}' and '{}' Fwd at (lon, lat) = ({:?}, {:?}) rad [raw longitude {:?} deg, central meridian {lon_0} deg, {}]: ({:?}, {:?}) vs ({:?}, {:?}), {d:.3e} m apart (> {tol:.3e})",
            defs[0], defs[1], geo[i][0], geo[i][1], raw_deg[i], REPS[i % nrep], f[0].0[i][0], f[0].0[i][1], f[1].0[i][0], f[1].0[i][1]);
        // utm is tmerc, butm is btmerc, with the zone's parameters
        for (a, b) in [(0usize, 2usize), (1, 3)] {
            let d = (f[a].0[i][0] - f[b].0[i][0]).hypot(f[a].0[i][1] - f[b].0[i][1]);
            rec.metric("worst_zone_vs_explicit_m", d);
            vensure!(d <= 1e-9, "utm-vs-explicit-tmerc", "'{}' and '{}' Fwd at (lon, lat) = ({:?}, {:?}) rad: ({:?}, {:?}) vs ({:?}, {:?}), {d:.3e} m apart (same projection, > 1e-9)",
                defs[a], defs[b], geo[i][0], geo[i][1], f[a].0[i][0], f[a].0[i][1], f[b].0[i][0], f[b].0[i][1]);
        }
    }
    // inverse, from the utm coordinates rounded to 1 mm
    let prj: Vec<Coor4D> = f[0].0.iter().map(|p| Coor4D([(p[0] * 1000.0).round() / 1000.0, (p[1] * 1000.0).round() / 1000.0, 0.0, 0.0])).collect();
    let b = run4(false, &prj)?;
    for (k, def) in defs.iter().enumerate() {
        vensure!(b[k].1 == n, "tmerc-btmerc-count", "'{def}' Inv inside the zone reports {} successes of {n}", b[k].1);
    }
    let tol = tm_tol(&el, false);
    let ground = |p: &Coor4D, q: &Coor4D| -> f64 {
        let lat = p[1];
        (wrap_pi(p[0] - q[0]) * el.n(lat) * lat.cos()).hypot((p[1] - q[1]) * el.m(lat))
    };
    for i in 0..n {
        let d = ground(&b[0].0[i], &b[1].0[i]);
        rec.metric("worst_inv_m", d);
        vensure!(d <= tol, "utm-butm-inv-disagree", "'{}' and '{}' Inv at (E, N) = ({:?}, {:?}): ({:?}, {:?}) vs ({:?}, {:?}) rad, {d:.3e} m apart on the ground (> {tol:.3e}; longitudes compared modulo 2 pi)",
            defs[0], defs[1], prj[i][0], prj[i][1], b[0].0[i][0], b[0].0[i][1], b[1].0[i][0], b[1].0[i][1]);
        for (x, y) in [(0usize, 2usize), (1, 3)] {
            let d = ground(&b[x].0[i], &b[y].0[i]);
            vensure!(d <= 1e-9, "utm-vs-explicit-tmerc", "'{}' and '{}' Inv at (E, N) = ({:?}, {:?}): ({:?}, {:?}) vs ({:?}, {:?}) rad, {d:.3e} m apart (same projection, > 1e-9)",
                defs[x], defs[y], prj[i][0], prj[i][1], b[x].0[i][0], b[x].0[i][1], b[y].0[i][0], b[y].0[i][1]);
        }
    }
    // forward once more, at the longitudes the inverse routes hand back (utm: wrapped into
    // [-pi, pi), butm: lon_0 + offset as it comes)
    let tol = tm_tol(&el, true);
    let strip = 3.001f64.to_radians();
    for (who, k) in [("utm", 0usize), ("butm", 1usize)] {
        let back = &b[k].0;
        let f2 = run4(true, back)?;
        for i in 0..n {
            if !(wrap_pi(back[i][0] - lon_0.to_radians()).abs() <= strip) {
                rec.count("inverse_outputs_outside_the_strip_(near_pole)_not_reprojected", 1);
                continue;
            }
            let dir = note_wrap(rec, back[i][0].to_degrees(), lon_0);
            let d = (f2[0].0[i][0] - f2[1].0[i][0]).hypot(f2[0].0[i][1] - f2[1].0[i][1]) / 0.9996;
            rec.metric("worst_fwd_m_at_inverse_outputs", d);
            vensure!(d <= tol, if dir != 0 { "utm-butm-fwd-disagree-wrapped-longitude" } else { "utm-butm-fwd-disagree" },
                "'{}' and '{}' Fwd at the longitude returned by '{}' Inv, (lon, lat) = ({:?}, {:?}) rad [central meridian {lon_0} deg]: ({:?}, {:?}) vs ({:?}, {:?}), {d:.3e} m apart (> {tol:.3e})",
                defs[0], defs[1], defs[k], back[i][0], back[i][1], f2[0].0[i][0], f2[0].0[i][1], f2[1].0[i][0], f2[1].0[i][1]);
            rec.count("comparisons", 1);
        }
        let _ = who;
    }
    rec.class(&format!("zone {:02}{}", c.zone, if c.south { " south" } else { "" }));
    rec.class(lon_0_class(lon_0));
    rec.count("comparisons", 6 * n as u64);
    for p in &c.pts {
        if p[0].0 != 0.0 && p[1].0 != 0.0 {
            rec.nontrivial(&("zone", c.zone, c.south, &c.ell, cell(p[0].0), cell(p[1].0)));
        }
    }
    Ok(())
}

// ---------------------------------------------------------------------------------
// 2. cart operator vs Ellipsoid::cartesian / geographic
// ---------------------------------------------------------------------------------

#[derive(Clone, Debug, Serialize, Deserialize)]
struct CartCase {
    ell: String,
    /// explicit `ellps=` in the definition (false only for GRS80: the default route)
    explicit: bool,
    /// how the operator is told its ellipsoid, index into ROUTES
    #[serde(default)]
    route: u8,
    /// (lon deg, lat deg, height as a fraction of the semimajor axis, t)
    pts: Vec<P4>,
    /// colatitudes (rad, signed: negative = southern) of additional near-axis points
    near_axis: Vec<[F; 3]>,
}

const CART_INV_TOL: f64 = 1.0e-3; // the level the property states (cap)
/// Bowring's non-iterative `geographic` is the weaker route: measured 4.42e-5 .. 4.45e-5 a e'^6
/// over all table ellipsoids for heights up to 100 km; margin 3.4x, never looser than 1 mm.
fn cart_tol(el: &El) -> f64 {
    (1.5e-4 * el.a * el.e2s().powi(3) + 1.0e-6).min(CART_INV_TOL)
}

fn route_strategy() -> BoxedStrategy<u8> {
    prop_oneof![5 => Just(0u8), 7 => 1u8..6].boxed()
}

fn cart_strategy() -> BoxedStrategy<CartCase> {
    // heights -10 km .. 100 km on an Earth sized ellipsoid, scaled with a for the unit sphere
    let eta = prop_oneof![3 => Just(0.0f64), 6 => -0.00157f64..0.0157, 1 => Just(0.0157f64), 1 => Just(-0.00157f64)];
    let t = prop_oneof![Just(0.0f64), 1990.0f64..2030.0, Just(f64::NAN)];
    let pts = prop::collection::vec((lon_deg_wide_strategy(), lat_deg_strategy(), eta.clone(), t).prop_map(|(a, b, c, d)| p4(a, b, c, d)), 1..=48);
    let near = prop::collection::vec(
        ((-16.0f64..-2.5), any::<bool>(), lon_deg_wide_strategy(), eta).prop_map(|(u, south, lon, eta)| {
            let colat = 10f64.powf(u);
            [F(if south { -colat } else { colat }), F(lon), F(eta)]
        }),
        0..=8,
    );
    (ell_name(), prop::bool::weighted(0.9), route_strategy(), pts, near)
        .prop_map(|(ell, explicit, route, pts, near_axis)| {
            let explicit = explicit || ell != "GRS80";
            CartCase { ell, explicit, route, pts, near_axis }
        })
        .boxed()
}

fn cart_check(c: &CartCase, rec: &mut Rec) -> CaseResult {
    let (e, el) = lib_ell(&c.ell)?;
    let rt = routed("cart", &c.ell, c.explicit, c.route);
    let def = rt.show.clone();
    rec.class(ROUTES[c.route as usize % 6]);
    let mut geo: Vec<Coor4D> = c.pts.iter().map(|p| Coor4D([p[0].0.to_radians(), p[1].0.to_radians(), p[2].0 * el.a, p[3].0])).collect();
    for q in &c.near_axis {
        let lat = if q[0].0 < 0.0 { -FRAC_PI_2 - q[0].0 } else { FRAC_PI_2 - q[0].0 };
        geo.push(Coor4D([q[1].0.to_radians(), lat, q[2].0 * el.a, 0.0]));
    }
    let n = geo.len();

    // forward: identical
    let (cf, _) = apply_routed(&rt, true, &geo)?;
    for i in 0..n {
        let m = match guard(|| e.cartesian(&geo[i])) {
            Ok(m) => m,
            Err(p) => vfail!(format!("panic-cartesian@{}", p.sig()), "Ellipsoid::cartesian({}) on {} panics: {}", fmt_c4(&geo[i]), c.ell, p.msg),
        };
        vensure!(c4_bits_eq(&cf[i], &m), "cart-fwd-not-identical",
            "'{def}' Fwd on {} gives {} but Ellipsoid::named({:?}).cartesian gives {} (must be identical)", fmt_c4(&geo[i]), fmt_c4(&cf[i]), c.ell, fmt_c4(&m));
    }

    // inverse: sub-millimetre
    let (ci, _) = apply_routed(&rt, false, &cf)?;
    for i in 0..n {
        let m = match guard(|| e.geographic(&cf[i])) {
            Ok(m) => m,
            Err(p) => vfail!(format!("panic-geographic@{}", p.sig()), "Ellipsoid::geographic({}) on {} panics: {}", fmt_c4(&cf[i]), c.ell, p.msg),
        };
        let lat = geo[i][1];
        let h = geo[i][2];
        let dlon = wrap_pi(ci[i][0] - m[0]) * (el.n(lat) + h) * lat.cos();
        let dlat = (ci[i][1] - m[1]) * (el.m(lat) + h);
        let dh = ci[i][2] - m[2];
        let d = (dlon * dlon + dlat * dlat + dh * dh).sqrt();
        rec.metric("worst_inv_m", d);
        if el.f > 0.0 {
            rec.metric("worst_inv_over_a_eps3", d / (el.a * el.e2s().powi(3)));
        }
        rec.metric(if i >= c.pts.len() { "worst_inv_m_near_axis" } else { "worst_inv_m_generic" }, d);
        let tol = cart_tol(&el);
        vensure!(d <= tol, "cart-inv-vs-geographic",
            "'{def}' Inv on {} gives {} but Ellipsoid::geographic gives {}: {d:.3e} m apart (> {tol:.3e} m); generating point {}",
            fmt_c4(&cf[i]), fmt_c4(&ci[i]), fmt_c4(&m), fmt_c4(&geo[i]));
        vensure!(bits_eq(ci[i][3], m[3]), "cart-inv-time", "'{def}' Inv: 4th element {:?} vs {:?} from Ellipsoid::geographic", ci[i][3], m[3]);
    }

    rec.class(ell_class(&c.ell));
    rec.count("comparisons", 2 * n as u64);
    rec.count("near_axis_points", c.near_axis.len() as u64);
    for p in &c.pts {
        let (lo, la) = (p[0].0, p[1].0);
        if lo.abs() == 180.0 {
            rec.count("points_exactly_at_+-180", 1);
        } else if lo > 180.0 {
            rec.count("points_with_raw_longitude_above_+180", 1);
        } else if lo < -180.0 {
            rec.count("points_with_raw_longitude_below_-180", 1);
        } else if lo.abs() > 179.9 {
            rec.count("points_within_0.1_deg_of_the_antimeridian", 1);
        }
        if la.abs() == 90.0 {
            rec.count("points_at_a_pole", 1);
        }
        if la != 0.0 && la.abs() < 90.0 && (lo / 90.0).fract() != 0.0 {
            rec.nontrivial(&("cart", &c.ell, cell(lo), cell(la)));
        }
    }
    Ok(())
}

// ---------------------------------------------------------------------------------
// 3. thin wrappers: latitude / curvature / geodesic / gravity vs the trait methods
// ---------------------------------------------------------------------------------

const WRAP_ULPS: u64 = 4;

#[derive(Clone, Debug, Serialize, Deserialize)]
struct WrapCase {
    ell: String,
    explicit: bool,
    /// 0 latitude, 1 curvature, 2 geodesic, 3 gravity
    family: u8,
    kind: u8,
    flag: bool,
    /// how the operator is told its ellipsoid, index into ROUTES
    #[serde(default)]
    route: u8,
    /// meaning depends on the family, see `wrap_check`
    pts: Vec<P4>,
}

const LAT_KINDS: [&str; 6] = ["geocentric", "reduced", "parametric", "conformal", "rectifying", "authalic"];
const CURV_KINDS: [&str; 5] = ["prime", "meridian", "gaussian", "mean", "azimuthal"];
const GRAV_KINDS: [&str; 6] = ["", "grs80", "grs67", "welmec", "jeffreys", "cassinis"];

fn wrap_strategy() -> BoxedStrategy<WrapCase> {
    let azi = prop_oneof![6 => -360.0f64..360.0, 1 => prop_oneof![Just(0.0f64), Just(90.0f64), Just(180.0f64), Just(-90.0f64)]];
    // distance as a fraction of the semimajor axis: 1 m .. 19 000 km on an Earth sized ellipsoid
    let dist = prop_oneof![5 => 1.6e-7f64..2.98, 2 => 1.6e-7f64..1.6e-3, 1 => Just(0.0f64)];
    let height = prop_oneof![2 => Just(0.0f64), 5 => -500.0f64..9000.0];
    let pts = prop::collection::vec((lat_deg_strategy(), lon_deg_wide_strategy(), azi, dist, height).prop_map(|(la, lo, az, s, h)| (la, lo, az, s, h)), 1..=32);
    (ell_name(), prop::bool::weighted(0.9), 0u8..4, any::<u16>(), any::<bool>(), route_strategy(), pts)
        .prop_map(|(ell, explicit, family, k, flag, route, raw)| {
            let explicit = explicit || ell != "GRS80";
            let kind = match family {
                0 => pick(k, LAT_KINDS.len()),
                1 => pick(k, CURV_KINDS.len()),
                2 => 0,
                _ => pick(k, GRAV_KINDS.len()),
            } as u8;
            let pts = raw
                .into_iter()
                .map(|(la, lo, az, s, h)| match family {
                    0 => p4(lo, la, h, 0.0),                    // (lon deg, lat deg, h, t): converted to radians in the check
                    1 => p4(la, if kind == 4 { az } else { lo }, h, 0.0), // (lat deg, lon or azimuth deg)
                    2 => p4(la, lo, az, s),                     // (lat deg, lon deg, azimuth deg, distance / a)
                    _ => p4(la, h, lo, 0.0),                    // (lat deg, height m)
                })
                .collect();
            WrapCase { ell, explicit, family, kind, flag, route, pts }
        })
        .boxed()
}

fn cmp_ulps(rec: &mut Rec, metric: &str, key: &str, what: &str, lib: f64, expect: f64) -> CaseResult {
    let u = ulps_nan(lib, expect);
    rec.metric(metric, if u == u64::MAX { f64::INFINITY } else { u as f64 });
    vensure!(u <= WRAP_ULPS, key, "{what}: operator gives {lib:?}, method route gives {expect:?} ({} ulp apart, tolerance {WRAP_ULPS})",
        if u == u64::MAX { "inf".to_string() } else { u.to_string() });
    Ok(())
}

fn wrap_check(c: &WrapCase, rec: &mut Rec) -> CaseResult {
    let (e, el) = lib_ell(&c.ell)?;
    let n = c.pts.len();
    rec.class(ROUTES[c.route as usize % 6]);
    match c.family {
        0 => {
            let kind = LAT_KINDS[c.kind as usize % LAT_KINDS.len()];
            let rt = routed(&format!("latitude {kind}"), &c.ell, c.explicit, c.route);
            let def = rt.show.clone();
            let input: Vec<Coor4D> = c.pts.iter().map(|p| Coor4D([p[0].0.to_radians(), p[1].0.to_radians(), p[2].0, p[3].0])).collect();
            let (f, _) = apply_routed(&rt, true, &input)?;
            let (b, _) = apply_routed(&rt, false, &f)?;
            let conformal = e.coefficients_for_conformal_latitude_computations();
            let authalic = e.coefficients_for_authalic_latitude_computations();
            let rectifying = e.coefficients_for_rectifying_latitude_computations();
            for i in 0..n {
                let phi = input[i][1];
                let (ef, eb) = match kind {
                    "geocentric" => (e.latitude_geographic_to_geocentric(phi), e.latitude_geocentric_to_geographic(f[i][1])),
                    "reduced" | "parametric" => (e.latitude_geographic_to_reduced(phi), e.latitude_reduced_to_geographic(f[i][1])),
                    "conformal" => (e.latitude_geographic_to_conformal(phi, &conformal), e.latitude_conformal_to_geographic(f[i][1], &conformal)),
                    "rectifying" => (e.latitude_geographic_to_rectifying(phi, &rectifying), e.latitude_rectifying_to_geographic(f[i][1], &rectifying)),
                    _ => (e.latitude_geographic_to_authalic(phi, &authalic), e.latitude_authalic_to_geographic(f[i][1], &authalic)),
                };
                cmp_ulps(rec, "worst_ulps_latitude", "latitude-op-vs-method", &format!("'{def}' Fwd at latitude {phi:?} rad"), f[i][1], ef)?;
                cmp_ulps(rec, "worst_ulps_latitude", "latitude-op-vs-method", &format!("'{def}' Inv at latitude {:?} rad", f[i][1]), b[i][1], eb)?;
                if phi != 0.0 && phi.abs() < FRAC_PI_2 {
                    rec.nontrivial(&("latitude", kind, &c.ell, cell(c.pts[i][1].0)));
                }
                if c.pts[i][1].0.abs() == 90.0 {
                    rec.count("latitude_points_at_a_pole", 1);
                }
                if c.pts[i][0].0.abs() >= 180.0 {
                    rec.count("latitude_points_with_longitude_at_or_beyond_+-180", 1);
                }
            }
            rec.class(&format!("latitude {kind}"));
        }
        1 => {
            let kind = CURV_KINDS[c.kind as usize % CURV_KINDS.len()];
            let rt = routed(&format!("curvature {kind}"), &c.ell, c.explicit, c.route);
            let def = rt.show.clone();
            let input: Vec<Coor4D> = c.pts.iter().map(c4).collect();
            let (f, _) = apply_routed(&rt, true, &input)?;
            for i in 0..n {
                let lat = input[i][0].to_radians();
                let m = e.meridian_radius_of_curvature(lat);
                let nn = e.prime_vertical_radius_of_curvature(lat);
                let expect = match kind {
                    "prime" => nn,
                    "meridian" => m,
                    "gaussian" => (nn * m).sqrt(),
                    "mean" => 2.0 / (1.0 / nn + 1.0 / m),
                    _ => {
                        let (s, co) = input[i][1].to_radians().sin_cos();
                        1.0 / (co * co / m + s * s / nn)
                    }
                };
                cmp_ulps(rec, "worst_ulps_curvature", "curvature-op-vs-method", &format!("'{def}' at (lat, second) = ({:?}, {:?}) deg", input[i][0], input[i][1]), f[i][0], expect)?;
                if input[i][0] != 0.0 && input[i][0].abs() < 90.0 {
                    rec.nontrivial(&("curvature", kind, &c.ell, cell(input[i][0])));
                }
                if input[i][0].abs() == 90.0 {
                    rec.count("curvature_points_at_a_pole", 1);
                }
            }
            rec.class(&format!("curvature {kind}"));
        }
        2 => {
            let reversible = c.flag;
            let rt = routed(&format!("geodesic{}", if reversible { " reversible" } else { "" }), &c.ell, c.explicit, c.route);
            let def = rt.show.clone();
            let input: Vec<Coor4D> = c.pts.iter().map(|p| Coor4D([p[0].0, p[1].0, p[2].0, p[3].0 * el.a])).collect();
            // forward (direct problem): (lat1, lon1, azimuth, distance) -> (lat2, lon2, lat1, lon1), all degrees
            let (f, _) = apply_routed(&rt, true, &input)?;
            let mut inv_in = vec![];
            for i in 0..n {
                let a = &input[i];
                let origin = Coor2D::geo(a[0], a[1]);
                let m = e.geodesic_fwd(&origin, a[2].to_radians(), a[3]);
                let expect = if m[3] > 990.0 { [f64::NAN; 4] } else { [m[1].to_degrees(), m[0].to_degrees(), a[0], a[1]] };
                for k in 0..4 {
                    cmp_ulps(rec, "worst_ulps_geodesic", "geodesic-op-vs-method", &format!("'{def}' Fwd on {} element {k}", fmt_c4(a)), f[i][k], expect[k])?;
                }
                // inverse problem between origin and the destination just computed
                // the second point's longitude as returned, wrapped into [-180, 180), or a turn up / down:
                // the pair then straddles the +-180 cut with raw longitudes of either sign
                let (la2, lo2) = if expect[0].is_nan() { (-a[0] * 0.5, a[1] + 33.0) } else { (expect[0], expect[1]) };
                let lo2 = match i % 4 {
                    0 => lo2,
                    1 => wrap180(lo2),
                    2 => lo2 + 360.0,
                    _ => lo2 - 360.0,
                };
                if (lo2 - a[1]).abs() > 180.0 {
                    rec.count("geodesic_inverse_pairs_with_raw_longitude_difference_beyond_180", 1);
                }
                if a[1].abs() > 180.0 {
                    rec.count("geodesic_origins_with_raw_longitude_outside_+-180", 1);
                } else if a[1].abs() == 180.0 {
                    rec.count("geodesic_origins_exactly_at_+-180", 1);
                }
                if a[0].abs() == 90.0 {
                    rec.count("geodesic_origins_at_a_pole", 1);
                }
                inv_in.push(Coor4D([a[0], a[1], la2, lo2]));
            }
            let (b, _) = apply_routed(&rt, false, &inv_in)?;
            for i in 0..n {
                let a = &inv_in[i];
                let from = Coor2D::raw(a[1].to_radians(), a[0].to_radians());
                let to = Coor2D::raw(a[3].to_radians(), a[2].to_radians());
                let m = e.geodesic_inv(&from, &to);
                let expect = if m[3] > 990.0 {
                    rec.count("geodesic_inv_not_converged", 1);
                    [f64::NAN; 4]
                } else {
                    let (a1, a2, s) = (m[0].to_degrees(), m[1].to_degrees(), m[2]);
                    let ret = (a2 + 180.0) % 360.0;
                    if reversible {
                        [a[2], a[3], ret, s]
                    } else {
                        [a1, a2, s, ret]
                    }
                };
                for k in 0..4 {
                    cmp_ulps(rec, "worst_ulps_geodesic", "geodesic-op-vs-method", &format!("'{def}' Inv on {} element {k}", fmt_c4(a)), b[i][k], expect[k])?;
                }
                let p = &input[i];
                if p[0] != 0.0 && p[0].abs() < 90.0 && p[3] > 0.0 && (p[2] / 90.0).fract() != 0.0 {
                    rec.nontrivial(&("geodesic", reversible, &c.ell, cell(p[0]), cell(p[2])));
                }
            }
            rec.class(if reversible { "geodesic reversible" } else { "geodesic" });
        }
        _ => {
            let kind = GRAV_KINDS[c.kind as usize % GRAV_KINDS.len()];
            let zero_height = c.flag;
            let rt = routed(&format!("gravity{}{}", if kind.is_empty() { String::new() } else { format!(" {kind}") }, if zero_height { " zero-height" } else { "" }), &c.ell, c.explicit, c.route);
            let def = rt.show.clone();
            let input: Vec<Coor4D> = c.pts.iter().map(c4).collect();
            let (f, _) = apply_routed(&rt, true, &input)?;
            for i in 0..n {
                let lat = input[i][0].to_radians();
                let h = input[i][1];
                let expect = match kind {
                    "welmec" => e.welmec(lat, if zero_height { 0.0 } else { h }),
                    "grs67" => e.grs67_gravity(lat) - if zero_height { 0.0 } else { e.grs67_height_correction(lat, h) },
                    "jeffreys" => e.jeffreys_gravity_1948(lat) - if zero_height { 0.0 } else { e.cassinis_height_correction(h, 2800.0) },
                    "cassinis" => e.cassinis_gravity_1930(lat) - if zero_height { 0.0 } else { e.cassinis_height_correction(h, 2800.0) },
                    _ => e.grs80_gravity(lat) - if zero_height { 0.0 } else { e.grs67_height_correction(lat, h) },
                };
                cmp_ulps(rec, "worst_ulps_gravity", "gravity-op-vs-method", &format!("'{def}' at (lat deg, h) = ({:?}, {:?})", input[i][0], h), f[i][0], expect)?;
                if input[i][0] != 0.0 && input[i][0].abs() < 90.0 {
                    rec.nontrivial(&("gravity", kind, zero_height, &c.ell, cell(input[i][0])));
                }
                if input[i][0].abs() == 90.0 {
                    rec.count("gravity_points_at_a_pole", 1);
                }
            }
            rec.class(&format!("gravity {}", if kind.is_empty() { "(default)" } else { kind }));
        }
    }
    rec.count("comparisons", n as u64);
    Ok(())
}

// ---------------------------------------------------------------------------------
// 4. axisswap vs adapt: all signed permutations (exhaustive)
// ---------------------------------------------------------------------------------

#[derive(Clone, Debug, Serialize, Deserialize)]
struct SwapCase {
    /// the `order` argument of axisswap as written: 0..=4 indices, a signed permutation of the
    /// first k axes (the remaining axes stay in place)
    order: Vec<i32>,
    /// angular unit suffix of the descriptor: 0 none, 1 `_deg`, 2 `_gon`
    unit: u8,
    /// 0 `adapt from=D`, 1 `adapt to=D`, 2 `adapt inv from=D`, 3 `adapt inv to=D`
    route: u8,
    fwd: bool,
    probes: Vec<P4>,
}

/// All signed partial permutations: orders of k = 1, 2, 3, 4 indices over 1..=k with any signs
/// (2 + 8 + 48 + 384 = 442), preceded by the empty order (axisswap without `order`).
fn all_orders() -> Vec<Vec<i32>> {
    fn perms(items: &[i32]) -> Vec<Vec<i32>> {
        if items.len() <= 1 {
            return vec![items.to_vec()];
        }
        let mut out = vec![];
        for i in 0..items.len() {
            let mut rest = items.to_vec();
            let head = rest.remove(i);
            for mut p in perms(&rest) {
                p.insert(0, head);
                out.push(p);
            }
        }
        out
    }
    let mut out = vec![vec![]];
    for k in 1..=4usize {
        let items: Vec<i32> = (1..=k as i32).collect();
        for p in perms(&items) {
            for m in 0..(1usize << k) {
                out.push(p.iter().enumerate().map(|(i, v)| if m & (1 << i) != 0 { -v } else { *v }).collect());
            }
        }
    }
    out
}

fn swap_probes(i: usize) -> Vec<P4> {
    let b = i as f64;
    vec![
        p4(11.5 + b, -22.25, 33.125, 2044.0625),
        p4(-1.0e-3, 7.0e6 + b, -0.75, 1.5),
        p4(0.0, -0.0, 1.0, -1.0),
        p4(f64::NAN, 2.0, f64::INFINITY, -3.0),
        p4(0.1, 0.2, 0.3, 0.7),
        p4(57.29577951308232 + b / 7.0, -63.66197723675813, 199.99999999999997, 1e-300),
    ]
}

fn swap_check(c: &SwapCase, rec: &mut Rec) -> CaseResult {
    // Complete the partial order to four axes (documented: "postfix nonconsequential axis indices
    // may be left out") ...
    let k = c.order.len();
    let mut order = [1i32, 2, 3, 4];
    let mut seen = [false; 4];
    for (j, &o) in c.order.iter().enumerate() {
        let a = o.unsigned_abs() as usize;
        vensure!(k <= 4 && a >= 1 && a <= k && !seen[a - 1], "harness-bad-swap-case", "order {:?} is not a signed permutation of 1..={k}", c.order);
        seen[a - 1] = true;
        order[j] = o;
    }
    // ... and turn it into the adapt descriptor of the same mapping.
    // Documented meaning of a descriptor D: external position i holds the internal axis perm[i],
    // reversed if neg[i], the horizontal axes (e/n/w/s) in the stated angular unit.
    // `from=D`: internal[perm[i]] = s_i * ext[i] (then unit -> rad), i.e. the axisswap order o with
    // o[perm[i]] = s_i * (i+1) followed by unitconvert; `to=D` is the inverse mapping;
    // `adapt inv from=D` == `adapt to=D`.
    let mut perm = [0u8; 4];
    let mut neg = [false; 4];
    for j in 0..4 {
        let i = order[j].unsigned_abs() as usize - 1;
        perm[i] = j as u8;
        neg[i] = order[j] < 0;
    }
    let letters_pos = ['e', 'n', 'u', 'f'];
    let letters_neg = ['w', 's', 'd', 'p'];
    let mut desc: String = (0..4).map(|i| if neg[i] { letters_neg[perm[i] as usize] } else { letters_pos[perm[i] as usize] }).collect();
    desc.push_str(["", "_deg", "_gon"][c.unit as usize % 3]);
    let mut sdef = if k == 0 {
        "axisswap".to_string()
    } else {
        format!("axisswap order={}", c.order.iter().map(|o| o.to_string()).collect::<Vec<_>>().join(","))
    };
    match c.unit % 3 {
        1 => sdef.push_str(" | unitconvert xy_in=deg xy_out=rad"),
        2 => sdef.push_str(" | unitconvert xy_in=grad xy_out=rad"),
        _ => {}
    }
    let (adef, like_from) = match c.route {
        0 => (format!("adapt from={desc}"), true),
        1 => (format!("adapt to={desc}"), false),
        2 => (format!("adapt inv from={desc}"), false),
        _ => (format!("adapt inv to={desc}"), true),
    };
    // direction in which the axisswap route has to run to mirror the adapt route
    let swap_fwd = like_from == c.fwd;
    let input = c4s(&c.probes);
    let (a, an) = apply_def(&adef, c.fwd, &input)?;
    let (s, sn) = apply_def(&sdef, swap_fwd, &input)?;
    vensure!(an == sn, "axisswap-adapt-count", "'{adef}' {} reports {an} successes, '{sdef}' {} {sn}", dirname(c.fwd), dirname(swap_fwd));
    for i in 0..input.len() {
        for k in 0..4 {
            // elements carrying a converted angle: internal positions 0, 1 when the output is
            // internal, else the external positions holding a horizontal axis
            let angular = c.unit % 3 != 0 && if swap_fwd { k < 2 } else { perm[k] < 2 };
            let tol = if angular { 2 } else { 0 };
            let d = if tol == 0 && !bits_eq(a[i][k], s[i][k]) { u64::MAX } else { ulps_nan(a[i][k], s[i][k]) };
            if angular {
                rec.metric("worst_ulps_angular", if d == u64::MAX { f64::INFINITY } else { d as f64 });
            }
            vensure!(d <= tol, "axisswap-adapt-disagree",
                "'{adef}' {} and '{sdef}' {} differ on {} in element {k}: adapt -> {}, axisswap route -> {} (tolerance {tol} ulp)",
                dirname(c.fwd), dirname(swap_fwd), fmt_c4(&input[i]), fmt_c4(&a[i]), fmt_c4(&s[i]));
        }
    }
    rec.class(&format!("{}{}", ["adapt from", "adapt to", "adapt inv from", "adapt inv to"][c.route as usize % 4], ["", " _deg", " _gon"][c.unit as usize % 3]));
    rec.class(&format!("order of {k} indices"));
    rec.count("comparisons", input.len() as u64);
    if perm != [0, 1, 2, 3] || neg.iter().any(|&b| b) {
        rec.nontrivial(&(&sdef, &desc, c.route, c.fwd));
    }
    Ok(())
}

// ---------------------------------------------------------------------------------
// 5. unitconvert vs adapt (and the built-in macros) for angular units
// ---------------------------------------------------------------------------------

#[derive(Clone, Debug, Serialize, Deserialize)]
struct UnitCase {
    pair: u8,
    fwd: bool,
    pts: Vec<P4>,
}

/// (adapt-ish definition, unitconvert-ish definition, tolerance in ulps on the two horizontal elements)
///
/// Tolerances: the two routes multiply by constants that are defined separately
/// (`PI/180` computed vs the literal 0.017453292519943296; `1/c` vs division by c; a quotient of
/// two constants vs a product of one constant and a reciprocal). With constants agreeing to
/// k ulp the products agree to k+1 ulp after rounding; see `unit_check`.
const UNIT_PAIRS: [(&str, &str, u64); 12] = [
    ("adapt from=enuf_deg", "unitconvert xy_in=deg xy_out=rad", 2),
    ("adapt from=enuf_gon", "unitconvert xy_in=grad xy_out=rad", 2),
    ("adapt to=enuf_deg", "unitconvert xy_in=rad xy_out=deg", 2),
    ("adapt to=enuf_gon", "unitconvert xy_in=rad xy_out=grad", 2),
    ("adapt from=enuf_deg to=enuf_gon", "unitconvert xy_in=deg xy_out=grad", 4),
    ("adapt from=enuf_gon to=enuf_deg", "unitconvert xy_in=grad xy_out=deg", 4),
    ("adapt from=neuf_deg", "axisswap order=2,1 | unitconvert xy_in=deg xy_out=rad", 2),
    ("adapt to=neuf_deg", "unitconvert xy_in=rad xy_out=deg | axisswap order=2,1", 2),
    ("geo:in", "axisswap order=2,1 | unitconvert xy_in=deg xy_out=rad", 2),
    ("geo:out", "unitconvert xy_in=rad xy_out=deg | axisswap order=2,1", 2),
    ("gis:in", "unitconvert xy_in=deg xy_out=rad", 2),
    ("gis:out", "unitconvert xy_in=rad xy_out=deg", 2),
];

fn unit_strategy() -> BoxedStrategy<UnitCase> {
    let v = || {
        prop_oneof![
            6 => -400.0f64..400.0,
            4 => -7.0f64..7.0,
            1 => prop_oneof![Just(0.0f64), Just(-0.0f64), Just(90.0f64), Just(180.0f64), Just(200.0f64), Just(PI), Just(FRAC_PI_2), Just(1.0f64)],
            1 => prop_oneof![Just(f64::NAN), Just(f64::INFINITY), Just(1e-300f64), Just(1e300f64)],
            1 => any::<u64>().prop_map(|b| {
                let x = f64::from_bits(b);
                if x.is_finite() && x.abs() > 1e-290 && x.abs() < 1e290 { x } else { 57.29577951308232 }
            }),
        ]
    };
    let pts = prop::collection::vec((v(), v(), -1000.0f64..9000.0, 1990.0f64..2030.0).prop_map(|(a, b, c, d)| p4(a, b, c, d)), 1..=64);
    (0u8..UNIT_PAIRS.len() as u8, any::<bool>(), pts).prop_map(|(pair, fwd, pts)| UnitCase { pair, fwd, pts }).boxed()
}

fn unit_check(c: &UnitCase, rec: &mut Rec) -> CaseResult {
    let (adef, udef, tol) = UNIT_PAIRS[c.pair as usize % UNIT_PAIRS.len()];
    let input = c4s(&c.pts);
    let (a, an) = apply_def(adef, c.fwd, &input)?;
    let (u, un) = apply_def(udef, c.fwd, &input)?;
    vensure!(an == un, "unitconvert-adapt-count", "'{adef}' reports {an} successes, '{udef}' {un} ({})", dirname(c.fwd));
    for i in 0..input.len() {
        for k in 0..4 {
            let d = if k >= 2 && !bits_eq(a[i][k], u[i][k]) { u64::MAX } else { ulps_nan(a[i][k], u[i][k]) };
            if k < 2 {
                rec.metric(&format!("worst_ulps_pair{:02}", c.pair), if d == u64::MAX { f64::INFINITY } else { d as f64 });
            }
            let t = if k < 2 { tol } else { 0 };
            vensure!(d <= t, "unitconvert-adapt-disagree",
                "'{adef}' vs '{udef}' ({}) on {}: element {k}: {:?} vs {:?} ({} ulp apart, tolerance {t})",
                dirname(c.fwd), fmt_c4(&input[i]), a[i][k], u[i][k], if d == u64::MAX { "inf".into() } else { d.to_string() });
        }
        let p = &input[i];
        if p[0].is_finite() && p[1].is_finite() && p[0] != 0.0 && p[1] != 0.0 && p[0] != p[1] {
            rec.nontrivial(&(c.pair, c.fwd, p[0].to_bits() >> 20, p[1].to_bits() >> 20));
        }
    }
    rec.class(adef);
    rec.count("comparisons", input.len() as u64);
    Ok(())
}

// ---------------------------------------------------------------------------------
// 6. Minimal == Plain == GridCtx on a catalogue of built-in definitions
// ---------------------------------------------------------------------------------

#[derive(Clone, Copy, Debug, Serialize, Deserialize, PartialEq)]
enum Dom {
    GeoRad,
    GeoDeg,
    Cartesian,
    Plane,
    Geodesic,
    Any,
}

#[derive(Clone, Debug, Serialize, Deserialize)]
struct CtxCase {
    def: String,
    dom: Dom,
    pts: Vec<P4>,
}

/// Templates: `{E}` is replaced by "" and by " ellps=<name>" for each of the 47 names.
fn ctx_templates() -> Vec<(&'static str, Dom)> {
    use Dom::*;
    vec![
        ("adapt from=neuf_deg", GeoDeg),
        ("adapt to=neuf_deg", GeoRad),
        ("adapt from=neuf_deg to=wndf_gon", GeoDeg),
        ("adapt from=enuf", Any),
        ("adapt inv from=sedf_gon", GeoRad),
        ("adapt from=pass", Any),
        ("addone", Any),
        ("addone inv", Any),
        ("axisswap", Any),
        ("axisswap order=2,1", Any),
        ("axisswap order=2,-1,4,3", Any),
        ("axisswap order=-3,1,2", Any),
        ("btmerc lon_0=9 k_0=0.9996 x_0=500000{E}", GeoRad),
        ("btmerc lat_0=49 lon_0=-2 k_0=0.9996012717 x_0=400000 y_0=-100000{E}", GeoRad),
        ("butm zone=32{E}", GeoRad),
        ("butm zone=5 south{E}", GeoRad),
        ("cart{E}", GeoRad),
        ("cart inv{E}", GeoRad),
        ("curvature prime{E}", GeoDeg),
        ("curvature meridian{E}", GeoDeg),
        ("curvature gaussian{E}", GeoDeg),
        ("curvature mean{E}", GeoDeg),
        ("curvature azimuthal{E}", GeoDeg),
        ("dm", GeoDeg),
        ("dms", GeoDeg),
        ("dm inv", GeoRad),
        ("geodesic{E}", Geodesic),
        ("geodesic reversible{E}", Geodesic),
        ("gravity{E}", GeoDeg),
        ("gravity grs67{E}", GeoDeg),
        ("gravity welmec zero-height", GeoDeg),
        ("gravity jeffreys{E}", GeoDeg),
        ("gravity cassinis", GeoDeg),
        ("helmert x=-87 y=-96 z=-120", Cartesian),
        ("helmert translation=-87,-96,-120 rotation=0.1,-0.2,0.3 s=1.5 convention=position_vector", Cartesian),
        ("helmert convention=coordinate_frame x=0.06155 rx=-0.0394924 y=-0.01087 ry=-0.0327221 z=-0.04019 rz=-0.0328979 s=-0.009994 exact", Cartesian),
        ("helmert exact convention=coordinate_frame drx=0.00150379 dry=0.00118346 drz=0.00120716 t_epoch=2020.0", Cartesian),
        ("helmert x=1 dx=0.1 t_epoch=2000 t_obs=2010 convention=position_vector", Cartesian),
        ("laea lat_0=52 lon_0=10 x_0=4321000 y_0=3210000{E}", GeoRad),
        ("laea lat_0=90{E}", GeoRad),
        ("laea lon_0=-30{E}", GeoRad),
        ("latitude geocentric{E}", GeoRad),
        ("latitude reduced{E}", GeoRad),
        ("latitude parametric{E}", GeoRad),
        ("latitude conformal{E}", GeoRad),
        ("latitude rectifying{E}", GeoRad),
        ("latitude authalic{E}", GeoRad),
        ("lcc lat_1=57 lon_0=12{E}", GeoRad),
        ("lcc lat_1=33 lat_2=45 lat_0=35 lon_0=10 x_0=12345 y_0=67890 k_0=0.99{E}", GeoRad),
        ("merc{E}", GeoRad),
        ("merc lat_ts=56 lon_0=9 x_0=1000 y_0=-2000{E}", GeoRad),
        ("webmerc{E}", GeoRad),
        ("molodensky ellps_0=WGS84 ellps_1=intl dx=-87 dy=-96 dz=-120", GeoRad),
        ("molodensky ellps_0=WGS84 ellps_1=intl dx=-87 dy=-96 dz=-120 abridged", GeoRad),
        ("molodensky dx=-87 dy=-96 dz=-120 da=-251 df=-0.000014192702{E}", GeoRad),
        ("omerc variant x_0=590476.87 y_0=442857.65 latc=4 lonc=115 k_0=0.99984 alpha=53:18:56.9537 gamma_c=53:07:48.3685 ellps=evrstSS", GeoRad),
        ("omerc latc=4 lonc=115 k_0=0.99984 alpha=53.3158204722 gamma_c=53.1301023611{E}", GeoRad),
        ("permtide from=mean to=zero{E}", GeoRad),
        ("permtide from=mean to=free k=0.29{E}", GeoRad),
        ("permtide from=zero to=mean inv{E}", GeoRad),
        ("somerc lat_0=46.9524055555556 lon_0=7.43958333333333 k_0=1 x_0=2600000 y_0=1200000 ellps=bessel", GeoRad),
        ("somerc lat_0=46 lon_0=8{E}", GeoRad),
        ("tmerc lon_0=9 k_0=0.9996 x_0=500000{E}", GeoRad),
        ("tmerc lat_0=49 lon_0=-2 k_0=0.9996012717 x_0=400000 y_0=-100000{E}", GeoRad),
        ("utm zone=32{E}", GeoRad),
        ("utm zone=60 south{E}", GeoRad),
        ("unitconvert xy_in=deg xy_out=rad", GeoDeg),
        ("unitconvert xy_in=us-ft z_in=ft xy_out=km", Plane),
        ("unitconvert", Any),
        ("noop", Any),
        ("longlat", Any),
        ("latlon", Any),
        ("latlong", Any),
        ("lonlat", Any),
        ("geo:in", GeoDeg),
        ("geo:out", GeoRad),
        ("gis:in", GeoDeg),
        ("gis:out", GeoRad),
        ("neu:in", Any),
        ("neu:out", Any),
        ("enu:in", Any),
        ("enu:out", Any),
        ("geo:in | cart{E} | helmert x=-87 y=-96 z=-120 | cart inv ellps=intl | geo:out", GeoDeg),
        ("gis:in | utm zone=32{E} | neu:out", GeoDeg),
        ("cart{E} | helmert rx=0.1 s=2 convention=coordinate_frame omit_inv | cart inv{E}", GeoRad),
        ("geo:in | utm inv zone=33{E} omit_fwd | tmerc lon_0=15{E}", GeoDeg),
        ("push v_2 v_1 | addone | pop v_1 | pop v_2", Any),
        ("stack push=1,2 | addone | stack pop=2,1", Any),
        ("stack push=1,2,3 | stack roll=3,1 | stack pop=1,2,3 | addone", Any),
        ("stack push=1 | stack push=2 | stack swap | addone | stack pop=1,2", Any),
        ("pipeline", Any),
        ("c14:shift dx=5", GeoRad),
        ("c14:shift ell=intl", GeoRad),
        ("c14:nested k=3", GeoRad),
        ("inv c14:shift", GeoRad),
        ("c14:shift inv", GeoRad),
        ("gridshift grids=@null", GeoRad),
        ("gridshift grids=@c14-absent.gsb, @null", GeoRad),
        ("gridshift grids=@c14-absent.datum", GeoRad),
        // definitions that must be rejected by every context
        ("gridshift grids=c14-absent.gsb", GeoRad),
        ("deformation dt=1 grids=c14-absent.deformation", Cartesian),
        ("deflection grids=c14-absent.geoid", GeoRad),
        ("c14:absent", Any),
        ("nosuchoperator x=1", Any),
        ("tmerc lat_0=abc", GeoRad),
        ("utm zone=61", GeoRad),
        ("utm", GeoRad),
        ("curvature", GeoDeg),
        ("latitude conformal authalic", GeoRad),
        ("axisswap order=1,1", Any),
        ("adapt from=nnuf", Any),
        ("unitconvert xy_in=parsec", Any),
        ("permtide from=cheese to=zero", GeoRad),
        ("stack push=5 | noop", Any),
    ]
}

/// every (template x ellipsoid variant)
fn ctx_catalogue() -> Vec<(String, Dom)> {
    let mut out = vec![];
    for (t, dom) in ctx_templates() {
        if t.contains("{E}") {
            out.push((t.replace("{E}", ""), dom));
            for e in ells() {
                out.push((t.replace("{E}", &format!(" ellps={e}")), dom));
            }
        } else {
            out.push((t.to_string(), dom));
        }
    }
    out
}

fn mix(mut x: u64) -> u64 {
    x = x.wrapping_add(0x9E3779B97F4A7C15);
    x = (x ^ (x >> 30)).wrapping_mul(0xBF58476D1CE4E5B9);
    x = (x ^ (x >> 27)).wrapping_mul(0x94D049BB133111EB);
    x ^ (x >> 31)
}
/// deterministic value in [0, 1) from (seed, index, stream)
fn unit_f(seed: u64, i: u64, k: u64) -> f64 {
    (mix(seed ^ mix(i.wrapping_mul(0x51ED27).wrapping_add(k))) >> 11) as f64 / (1u64 << 53) as f64
}

fn ctx_points(dom: Dom, seed: u64, idx: u64, n: usize) -> Vec<P4> {
    let mut v = vec![];
    for j in 0..n as u64 {
        let r = |k: u64| unit_f(seed, idx * 64 + j, k);
        let lon = -180.0 + 360.0 * r(0);
        let lat = -89.0 + 178.0 * r(1);
        let h = -100.0 + 9000.0 * r(2);
        let t = 1990.0 + 40.0 * r(3);
        v.push(match dom {
            Dom::GeoRad => p4((lon / 12.0 + 9.0).to_radians(), lat.to_radians(), h, t),
            Dom::GeoDeg => p4(lat, lon / 12.0 + 9.0, h, t),
            Dom::Cartesian => {
                let e = El::grs80().cartesian(lon.to_radians(), lat.to_radians(), h);
                p4(e[0], e[1], e[2], t)
            }
            Dom::Plane => p4(-1.0e6 + 2.0e6 * r(0), -9.0e6 + 1.8e7 * r(1), h, t),
            Dom::Geodesic => p4(lat, lon, 360.0 * r(2), 1.0 + 1.5e7 * r(3)),
            Dom::Any => p4(-1000.0 + 2000.0 * r(0), -1000.0 + 2000.0 * r(1), -1000.0 + 2000.0 * r(2), -1000.0 + 2000.0 * r(3)),
        });
    }
    // a few shared hard cases: origin, pole, antimeridian, non-finite
    v.push(p4(0.0, 0.0, 0.0, 0.0));
    v.push(p4(PI, FRAC_PI_2, 0.0, 2000.0));
    v.push(p4(-179.5, 89.5, 12.0, f64::NAN));
    v.push(p4(f64::NAN, 1.0, 2.0, 3.0));
    v.push(p4(1.0, f64::INFINITY, 2.0, 3.0));
    v
}

struct CtxOut {
    inst: Result<(), String>,
    steps: Vec<String>,
    fwd: Option<(Vec<Coor4D>, usize)>,
    inv: Option<(Vec<Coor4D>, usize)>,
}

fn ctx_eval<C: Context>(mut ctx: C, who: &str, c: &CtxCase) -> Result<CtxOut, Failure> {
    ctx.register_resource("c14:shift", "cart ellps=$ell(GRS80) | helmert x=$dx(1) y=2 z=-3 | cart inv");
    ctx.register_resource("c14:nested", "c14:shift dx=$k | addone");
    let op = match try_op(&mut ctx, &c.def) {
        Err(p) => vfail!(format!("panic-instantiate@{}", p.sig()), "{who}: instantiating '{}' panics: {} at {}:{}", c.def, p.msg, p.file, p.line),
        Ok(Err(e)) => return Ok(CtxOut { inst: Err(format!("{e:?}")), steps: vec![], fwd: None, inv: None }),
        Ok(Ok(op)) => op,
    };
    let steps = ctx.steps(op).map(|s| s.clone()).unwrap_or_default();
    let input = c4s(&c.pts);
    let mut f = input.clone();
    let nf = run_op(&ctx, op, true, &mut f, &c.def)?;
    let mut b = input;
    let nb = run_op(&ctx, op, false, &mut b, &c.def)?;
    Ok(CtxOut { inst: Ok(()), steps, fwd: Some((f, nf)), inv: Some((b, nb)) })
}

fn ctx_check(c: &CtxCase, rec: &mut Rec) -> CaseResult {
    let m = ctx_eval(Minimal::new(), "Minimal", c)?;
    let p = ctx_eval(Plain::new(), "Plain", c)?;
    let g = ctx_eval(GridCtx::new(), "GridCtx", c)?;
    for (who, o) in [("Plain", &p), ("GridCtx (user Context)", &g)] {
        vensure!(m.inst.is_ok() == o.inst.is_ok(), "context-instantiation-differs",
            "'{}': Minimal {:?} but {who} {:?}", c.def, m.inst, o.inst);
        if m.inst.is_err() {
            continue;
        }
        vensure!(m.steps == o.steps, "context-steps-differ", "'{}': steps in Minimal {:?}, in {who} {:?}", c.def, m.steps, o.steps);
        for (dir, a, b) in [("Fwd", &m.fwd, &o.fwd), ("Inv", &m.inv, &o.inv)] {
            let (a, b) = (a.as_ref().unwrap(), b.as_ref().unwrap());
            if let Some(i) = first_bits_diff(&a.0, &b.0) {
                vfail!("context-results-differ", "'{}' {dir} on {}: Minimal gives {}, {who} gives {} (must be bit-identical)",
                    c.def, fmt_c4(&c4(&c.pts[i])), fmt_c4(&a.0[i]), fmt_c4(&b.0[i]));
            }
            vensure!(a.1 == b.1, "context-counts-differ", "'{}' {dir}: Minimal reports {} successes, {who} {}", c.def, a.1, b.1);
        }
    }
    let name = c.def.split_whitespace().next().unwrap_or("").to_string();
    if m.inst.is_ok() {
        rec.class(&format!("ok {}", if c.def.contains('|') { "(pipeline)" } else { &name }));
        // non-trivial: the definition does something to a generic probe
        let f = &m.fwd.as_ref().unwrap().0;
        let inp = c4s(&c.pts);
        if first_bits_diff(f, &inp).is_some() || name == "noop" {
            rec.nontrivial(&c.def);
        }
    } else {
        rec.class("rejected by all three");
        rec.count("rejected_everywhere", 1);
    }
    rec.count("comparisons", 4 * c.pts.len() as u64);
    Ok(())
}

// ---------------------------------------------------------------------------------
// 6b. the operator routes over every container kind the library offers
// ---------------------------------------------------------------------------------
//
// Every elementary operator must give, on any CoordinateSet, what it gives on a Vec<Coor4D>
// holding the tuples that the container documents for get_coord (Coor2D: height 0, epoch NaN;
// Coor3D: epoch NaN; Coor32: f32 values, 0, NaN; (set, h, t): the fixed height and epoch;
// (set, t): the fixed epoch), stored back into what the container can hold. For `cart` forward
// the expectation is additionally taken straight from Ellipsoid::cartesian.

trait Elem: Copy {
    const NAME: &'static str;
    fn from4(p: [f64; 4]) -> Self;
    /// what get_coord documents for an element holding p
    fn seen(p: [f64; 4]) -> [f64; 4];
    fn stored(&self) -> Vec<f64>;
    /// what the element holds after set_coord(r)
    fn keep(r: [f64; 4]) -> Vec<f64>;
}
impl Elem for Coor4D {
    const NAME: &'static str = "Coor4D";
    fn from4(p: [f64; 4]) -> Self {
        Coor4D(p)
    }
    fn seen(p: [f64; 4]) -> [f64; 4] {
        p
    }
    fn stored(&self) -> Vec<f64> {
        self.0.to_vec()
    }
    fn keep(r: [f64; 4]) -> Vec<f64> {
        r.to_vec()
    }
}
impl Elem for Coor3D {
    const NAME: &'static str = "Coor3D";
    fn from4(p: [f64; 4]) -> Self {
        Coor3D([p[0], p[1], p[2]])
    }
    fn seen(p: [f64; 4]) -> [f64; 4] {
        [p[0], p[1], p[2], f64::NAN]
    }
    fn stored(&self) -> Vec<f64> {
        self.0.to_vec()
    }
    fn keep(r: [f64; 4]) -> Vec<f64> {
        r[..3].to_vec()
    }
}
impl Elem for Coor2D {
    const NAME: &'static str = "Coor2D";
    fn from4(p: [f64; 4]) -> Self {
        Coor2D([p[0], p[1]])
    }
    fn seen(p: [f64; 4]) -> [f64; 4] {
        [p[0], p[1], 0.0, f64::NAN]
    }
    fn stored(&self) -> Vec<f64> {
        self.0.to_vec()
    }
    fn keep(r: [f64; 4]) -> Vec<f64> {
        r[..2].to_vec()
    }
}
impl Elem for Coor32 {
    const NAME: &'static str = "Coor32";
    fn from4(p: [f64; 4]) -> Self {
        Coor32([p[0] as f32, p[1] as f32])
    }
    fn seen(p: [f64; 4]) -> [f64; 4] {
        [p[0] as f32 as f64, p[1] as f32 as f64, 0.0, f64::NAN]
    }
    fn stored(&self) -> Vec<f64> {
        vec![self.0[0] as f64, self.0[1] as f64]
    }
    fn keep(r: [f64; 4]) -> Vec<f64> {
        vec![r[0] as f32 as f64, r[1] as f32 as f64]
    }
}

const CONT_N: usize = 8;
const SHAPES: [&str; 3] = ["Vec", "array", "&mut slice"];
const WRAPS: [&str; 3] = ["", "(set, h, t)", "(set, t)"];

struct ContOut {
    label: String,
    seen: Vec<[f64; 4]>,
    stored: Vec<Vec<f64>>,
    count: usize,
}

fn cont_apply(ctx: &Minimal, op: OpHandle, fwd: bool, def: &str, set: &mut dyn CoordinateSet) -> Result<usize, Failure> {
    match try_apply(ctx, op, dir_of(fwd), set) {
        Err(p) => fail(format!("panic-apply@{}", p.sig()), format!("applying '{def}' ({}) panics: {} at {}:{}", dirname(fwd), p.msg, p.file, p.line)),
        Ok(Err(e)) => fail("apply-error-container", format!("apply of '{def}' returned an error: {e:?}")),
        Ok(Ok(n)) => Ok(n),
    }
}

#[allow(clippy::too_many_arguments)]
fn cont_run<T: Elem>(ctx: &Minimal, op: OpHandle, fwd: bool, def: &str, shape: usize, wrap: usize, pts: &[[f64; 4]], h: f64, t: f64) -> Result<ContOut, Failure>
where
    Vec<T>: CoordinateSet,
    [T; CONT_N]: CoordinateSet,
    for<'a> &'a mut [T]: CoordinateSet,
{
    let mut elems: Vec<T> = pts.iter().map(|p| T::from4(*p)).collect();
    let seen: Vec<[f64; 4]> = pts
        .iter()
        .map(|p| {
            let b = T::seen(*p);
            match wrap {
                1 => [b[0], b[1], h, t],
                2 => [b[0], b[1], b[2], t],
                _ => b,
            }
        })
        .collect();
    let count;
    match shape {
        0 => match wrap {
            1 => {
                let mut w = (elems, h, t);
                count = cont_apply(ctx, op, fwd, def, &mut w)?;
                elems = w.0;
            }
            2 => {
                let mut w = (elems, t);
                count = cont_apply(ctx, op, fwd, def, &mut w)?;
                elems = w.0;
            }
            _ => count = cont_apply(ctx, op, fwd, def, &mut elems)?,
        },
        1 => {
            let mut a: [T; CONT_N] = match elems[..].try_into() {
                Ok(a) => a,
                Err(_) => vfail!("harness-bad-container-case", "a container case needs exactly {CONT_N} points"),
            };
            match wrap {
                1 => {
                    let mut w = (a, h, t);
                    count = cont_apply(ctx, op, fwd, def, &mut w)?;
                    a = w.0;
                }
                2 => {
                    let mut w = (a, t);
                    count = cont_apply(ctx, op, fwd, def, &mut w)?;
                    a = w.0;
                }
                _ => count = cont_apply(ctx, op, fwd, def, &mut a)?,
            }
            elems = a.to_vec();
        }
        _ => {
            let mut sl: &mut [T] = &mut elems[..];
            match wrap {
                1 => {
                    let mut w = (sl, h, t);
                    count = cont_apply(ctx, op, fwd, def, &mut w)?;
                }
                2 => {
                    let mut w = (sl, t);
                    count = cont_apply(ctx, op, fwd, def, &mut w)?;
                }
                _ => count = cont_apply(ctx, op, fwd, def, &mut sl)?,
            }
        }
    }
    let label = if wrap == 0 { format!("{} of {}", SHAPES[shape], T::NAME) } else { format!("{} of {} in {}", SHAPES[shape], T::NAME, WRAPS[wrap]) };
    Ok(ContOut { label, seen, stored: elems.iter().map(|e| e.stored()).collect(), count })
}

#[derive(Clone, Copy, Debug, Serialize, Deserialize, PartialEq)]
enum CDom {
    Geo,
    GeoStrip,
    Cartesian,
    Plane,
    LatDegLon,
    LatDegHeight,
    Geodesic,
    GeodesicInv,
    Any,
}

/// (definition template, direction, input domain); `{E}` = "" or " ellps=<name>"
fn cont_ops() -> Vec<(&'static str, bool, CDom)> {
    use CDom::*;
    let mut v = vec![
        ("cart{E}", true, Geo),
        ("cart{E}", false, Cartesian),
        ("cart inv{E}", false, Geo),
        ("cart inv{E}", true, Cartesian),
        ("geodesic{E}", true, Geodesic),
        ("geodesic{E}", false, GeodesicInv),
        ("geodesic reversible{E}", false, GeodesicInv),
        ("tmerc lon_0=9 k_0=0.9996 x_0=500000{E}", true, GeoStrip),
        ("tmerc lon_0=9 k_0=0.9996 x_0=500000{E}", false, Plane),
        ("btmerc lon_0=9 k_0=0.9996 x_0=500000{E}", true, GeoStrip),
        ("btmerc lon_0=9 k_0=0.9996 x_0=500000{E}", false, Plane),
        ("utm zone=32{E}", true, GeoStrip),
        ("butm zone=32{E}", false, Plane),
        ("axisswap order=2,1", true, Any),
        ("axisswap order=-1", true, Any),
        ("axisswap order=-3,1,2", false, Any),
        ("axisswap order=2,-1,4,3", true, Any),
        ("unitconvert xy_in=deg xy_out=rad", true, Any),
        ("unitconvert xy_in=us-ft z_in=ft xy_out=km", false, Any),
        ("adapt from=neuf_deg", true, Any),
        ("adapt to=neuf_deg", true, Any),
        ("adapt from=sedf_gon to=wnuf_deg", false, Any),
        ("adapt from=ufen_deg", true, Any),
        ("gravity{E}", true, LatDegHeight),
        ("gravity welmec{E}", true, LatDegHeight),
        ("gravity grs67 zero-height{E}", true, LatDegHeight),
        ("gravity jeffreys{E}", true, LatDegHeight),
        ("gravity cassinis{E}", true, LatDegHeight),
        ("curvature prime{E}", true, LatDegLon),
        ("curvature meridian{E}", true, LatDegLon),
        ("curvature gaussian{E}", true, LatDegLon),
        ("curvature mean{E}", true, LatDegLon),
        ("curvature azimuthal{E}", true, LatDegLon),
    ];
    for (f, i) in [
        ("latitude geocentric{E}", "latitude geocentric{E}"),
        ("latitude reduced{E}", "latitude parametric{E}"),
        ("latitude conformal{E}", "latitude conformal{E}"),
        ("latitude rectifying{E}", "latitude rectifying{E}"),
        ("latitude authalic{E}", "latitude authalic{E}"),
    ] {
        v.push((f, true, Geo));
        v.push((i, false, Geo));
    }
    v
}

fn cdom_point(dom: CDom, r: [f64; 4]) -> [f64; 4] {
    let lon = (r[0] - 0.5) * 360.0;
    let lat = (r[1] - 0.5) * 178.0;
    let h = -250.0 + 9000.0 * r[2];
    let t = 1990.0 + 40.0 * r[3];
    match dom {
        CDom::Geo => [lon.to_radians(), lat.to_radians(), h, t],
        CDom::GeoStrip => [(9.0 + (r[0] - 0.5) * 6.0).to_radians(), lat.to_radians(), h, t],
        CDom::Cartesian => {
            let e = El::grs80().cartesian(lon.to_radians(), lat.to_radians(), h);
            [e[0], e[1], e[2], t]
        }
        CDom::Plane => [500_000.0 + (r[0] - 0.5) * 4.0e5, (r[1] - 0.5) * 1.8e7, h, t],
        CDom::LatDegLon => [lat, lon, h, t],
        CDom::LatDegHeight => [lat, h, lon, t],
        CDom::Geodesic => [lat, lon, 360.0 * r[2], 1.0 + 1.5e7 * r[3]],
        CDom::GeodesicInv => [lat, lon, (r[2] - 0.5) * 170.0, (r[3] - 0.5) * 340.0],
        CDom::Any => [-1000.0 + 2000.0 * r[0], -1000.0 + 2000.0 * r[1], -1000.0 + 2000.0 * r[2], -1000.0 + 2000.0 * r[3]],
    }
}

#[derive(Clone, Debug, Serialize, Deserialize)]
struct ContCase {
    def: String,
    ell: String,
    fwd: bool,
    dom: CDom,
    /// fixed height and epoch of the (set, h, t) and (set, t) adapters
    h: F,
    t: F,
    /// exactly CONT_N tuples (what a 4-D container would hold)
    pts: Vec<P4>,
}

fn cont_strategy() -> BoxedStrategy<ContCase> {
    let ops = cont_ops();
    let h = prop_oneof![1 => Just(0.0f64), 4 => -250.0f64..100_000.0, 1 => Just(1234.5f64)];
    let t = prop_oneof![2 => Just(2020.0f64), 2 => 1990.0f64..2030.0, 1 => Just(f64::NAN)];
    let raw = prop::collection::vec([0.0f64..1.0, 0.0f64..1.0, 0.0f64..1.0, 0.0f64..1.0], CONT_N..=CONT_N);
    (any::<u16>(), ell_name(), prop::bool::weighted(0.85), h, t, raw)
        .prop_map(move |(k, ell, explicit, h, t, raw)| {
            let (tpl, fwd, dom) = ops[pick(k, ops.len())];
            let def = tpl.replace("{E}", &if explicit || ell != "GRS80" { format!(" ellps={ell}") } else { String::new() });
            let pts = raw.iter().map(|r| { let p = cdom_point(dom, *r); p4(p[0], p[1], p[2], p[3]) }).collect();
            ContCase { def, ell, fwd, dom, h: F(h), t: F(t), pts }
        })
        .boxed()
}

fn cont_check(c: &ContCase, rec: &mut Rec) -> CaseResult {
    vensure!(c.pts.len() == CONT_N, "harness-bad-container-case", "a container case needs exactly {CONT_N} points");
    let (e, _) = lib_ell(&c.ell)?;
    let uses_ell = c.def.contains("ellps=") || c.ell == "GRS80";
    let pts: Vec<[f64; 4]> = c.pts.iter().map(|p| [p[0].0, p[1].0, p[2].0, p[3].0]).collect();
    let mut ctx = Minimal::new();
    let op = mk_op(&mut ctx, &c.def)?;
    // cart forward = geographic -> cartesian: "cart" applied Fwd or "cart inv" applied Inv
    let name = c.def.split_whitespace().next().unwrap_or("");
    let is_cart_fwd = name == "cart" && (c.def.split_whitespace().any(|w| w == "inv") != c.fwd);
    let (h, t) = (c.h.0, c.t.0);
    for inner in 0..4usize {
        for shape in 0..3usize {
            for wrap in 0..3usize {
                let out = match inner {
                    0 => cont_run::<Coor4D>(&ctx, op, c.fwd, &c.def, shape, wrap, &pts, h, t)?,
                    1 => cont_run::<Coor3D>(&ctx, op, c.fwd, &c.def, shape, wrap, &pts, h, t)?,
                    2 => cont_run::<Coor2D>(&ctx, op, c.fwd, &c.def, shape, wrap, &pts, h, t)?,
                    _ => cont_run::<Coor32>(&ctx, op, c.fwd, &c.def, shape, wrap, &pts, h, t)?,
                };
                // reference route: the same operator on a Vec<Coor4D> holding the documented tuples
                let mut reference: Vec<Coor4D> = out.seen.iter().map(|p| Coor4D(*p)).collect();
                let nref = run_op(&ctx, op, c.fwd, &mut reference, &c.def)?;
                let keep = |r: [f64; 4]| -> Vec<f64> {
                    match inner {
                        0 => Coor4D::keep(r),
                        1 => Coor3D::keep(r),
                        2 => Coor2D::keep(r),
                        _ => Coor32::keep(r),
                    }
                };
                for i in 0..CONT_N {
                    let want = keep(reference[i].0);
                    let same = want.len() == out.stored[i].len() && want.iter().zip(&out.stored[i]).all(|(a, b)| bits_eq(*a, *b));
                    vensure!(same, "operator-result-depends-on-container",
                        "'{}' {} on a {} (fixed h = {h:?}, t = {t:?}): tuple {i}, which the container presents as {:?}, becomes {:?}; the same operator on a Vec<Coor4D> holding that tuple gives {:?} (stored part {:?})",
                        c.def, dirname(c.fwd), out.label, out.seen[i], out.stored[i], reference[i].0, want);
                    if is_cart_fwd && uses_ell {
                        let m = e.cartesian(&Coor4D(out.seen[i]));
                        let want = keep(m.0);
                        let same = want.iter().zip(&out.stored[i]).all(|(a, b)| bits_eq(*a, *b));
                        vensure!(same, "cart-fwd-container-vs-method",
                            "'{}' {} on a {} (fixed h = {h:?}, t = {t:?}): tuple {i} = {:?} becomes {:?}, Ellipsoid::cartesian gives {:?} (must be identical in the stored elements)",
                            c.def, dirname(c.fwd), out.label, out.seen[i], out.stored[i], m.0);
                    }
                }
                vensure!(out.count == nref, "operator-count-depends-on-container",
                    "'{}' {} on a {} reports {} successes, on the Vec<Coor4D> of the same tuples {nref}", c.def, dirname(c.fwd), out.label, out.count);
                rec.count("container_applications", 1);
                if inner != 0 || wrap != 0 {
                    rec.nontrivial(&(&c.def, c.fwd, inner, shape, wrap, h != 0.0));
                }
            }
        }
    }
    rec.class(name);
    rec.class(if h != 0.0 { "adapter height != 0" } else { "adapter height == 0" });
    rec.count("comparisons", (36 * CONT_N) as u64);
    Ok(())
}

// ---------------------------------------------------------------------------------
// 6c. Minimal == Plain == GridCtx over a history of instantiations in ONE context each
// ---------------------------------------------------------------------------------

#[derive(Clone, Debug, Serialize, Deserialize)]
struct HistCase {
    /// definitions instantiated, in this order, in one long-lived context of each kind
    seq: Vec<String>,
    pts: Vec<P4>,
}

const MACROS: [(&str, &str); 8] = [
    ("geo:in", "adapt from=neuf_deg"),
    ("geo:out", "adapt to=neuf_deg"),
    ("gis:in", "adapt from=enuf_deg"),
    ("gis:out", "adapt to=enuf_deg"),
    ("neu:in", "adapt from=neuf"),
    ("neu:out", "adapt to=neuf"),
    ("enu:in", "adapt from=enuf"),
    ("enu:out", "adapt to=enuf"),
];
const USER_MACROS: [(&str, &str); 3] = [("c14:plus", "addone"), ("c14:twice", "addone | addone"), ("c14:east", "helmert x=1 y=2 z=3")];

/// families: a macro, its inverted spellings, its body text in several layouts and inverted
fn hist_families() -> Vec<Vec<String>> {
    let mut fams = vec![];
    for (m, body) in MACROS.iter().chain(USER_MACROS.iter()) {
        let (name, args) = body.split_once(' ').unwrap_or((body, ""));
        let mut f = vec![
            m.to_string(),
            format!("{m} inv"),
            format!("inv {m}"),
            format!("{m} inv=true"),
            body.to_string(),
            format!("  {}  ", body.replace(' ', "   ")),
        ];
        if !body.contains('|') {
            f.push(format!("{name} inv {args}").trim().to_string());
            f.push(format!("{body} inv"));
        }
        fams.push(f);
    }
    fams
}

fn hist_others() -> Vec<String> {
    [
        "cart", "cart inv", "inv cart", "cart ellps=intl", "cart ellps=intl inv", "utm zone=32", "utm inv zone=32", "utm zone=33", "utm zone=32 ellps=intl",
        "tmerc lon_0=9", "btmerc lon_0=9", "merc", "merc inv", "noop", "unitconvert xy_in=deg xy_out=rad", "unitconvert inv xy_in=deg xy_out=rad",
        "axisswap order=2,1", "axisswap order=2,-1 inv", "geo:in | cart", "geo:in | cart | helmert x=1 | cart inv | geo:out", "gis:in | utm zone=32 | neu:out",
        "geo:in inv | geo:in", "latitude geocentric", "latitude geocentric inv", "nosuchoperator", "utm",
    ]
    .iter()
    .map(|s| s.to_string())
    .collect()
}

/// bodies used when a macro name is (re-)registered between instantiations (no macro names inside: no recursion)
const REG_BODIES: [&str; 12] = [
    "addone", "addone inv", "utm zone=32", "utm zone=33", "adapt from=neuf_gon", "adapt from=neuf_deg", "adapt to=enuf_deg",
    "cart ellps=bessel", "latitude geocentric ellps=intl", "addone | addone", "helmert x=1 y=2 z=3", "noop",
];
const REG_PREFIX: &str = "@register ";
fn reg_step(name: &str, body: &str) -> String {
    format!("{REG_PREFIX}{name} := {body}")
}
fn parse_reg(step: &str) -> Option<(&str, &str)> {
    step.strip_prefix(REG_PREFIX)?.split_once(" := ")
}

fn hist_strategy(maxlen: usize) -> BoxedStrategy<HistCase> {
    let fams = hist_families();
    let others = hist_others();
    let nf = fams.len();
    // (family or "other", member) draws; a case concentrates on two families so that a macro,
    // its inverted forms and its body text meet in one context
    let item = (0u8..13, any::<u16>(), any::<u16>());
    (any::<u16>(), any::<u16>(), prop::collection::vec(item, 2..=maxlen))
        .prop_map(move |(fa, fb, items)| {
            let (fa, fb) = (pick(fa, nf), pick(fb, nf));
            let seq = items
                .into_iter()
                .map(|(w, a, b)| match w {
                    // (re-)registration of a macro name with another body: the focus family's
                    // macro (its first member) or any macro name incl. the built-in adaptors
                    10 | 11 => reg_step(&fams[fa][0], REG_BODIES[pick(b, REG_BODIES.len())]),
                    12 => reg_step(&fams[pick(a, nf)][0], REG_BODIES[pick(b, REG_BODIES.len())]),
                    0..=3 => fams[fa][pick(b, fams[fa].len())].clone(),
                    4..=5 => fams[fb][pick(b, fams[fb].len())].clone(),
                    6 => {
                        let f = &fams[pick(a, nf)];
                        f[pick(b, f.len())].clone()
                    }
                    _ => others[pick(b, others.len())].clone(),
                })
                .collect();
            let pts = vec![p4(0.2, 0.9, 10.0, 2020.0), p4(-1.1, 0.3, -5.0, 2000.0), p4(3.0, -1.5, 0.0, 1999.0), p4(55.0, 12.0, 100.0, 2010.5), p4(f64::NAN, 1.0, 2.0, 3.0)];
            HistCase { seq, pts }
        })
        .boxed()
}

/// behaviour of one handle: Ok((fwd result, count, inv result, count)) or the error text
type Behaviour = Result<(Vec<Coor4D>, usize, Vec<Coor4D>, usize), String>;

fn hist_register<C: Context>(ctx: &mut C) {
    for (n, b) in USER_MACROS {
        ctx.register_resource(n, b);
    }
}

fn behaviour<C: Context>(ctx: &C, op: OpHandle, def: &str, pts: &[P4]) -> Result<Behaviour, Failure> {
    let mut f = c4s(pts);
    let nf = run_op(ctx, op, true, &mut f, def)?;
    let mut b = c4s(pts);
    let nb = run_op(ctx, op, false, &mut b, def)?;
    Ok(Ok((f, nf, b, nb)))
}

fn same_behaviour(a: &Behaviour, b: &Behaviour) -> bool {
    match (a, b) {
        (Ok(x), Ok(y)) => vec_bits_eq(&x.0, &y.0) && x.1 == y.1 && vec_bits_eq(&x.2, &y.2) && x.3 == y.3,
        (Err(_), Err(_)) => true,
        _ => false,
    }
}

fn show_behaviour(b: &Behaviour) -> String {
    match b {
        Ok(x) => format!("Fwd -> {} (count {}), Inv -> {} (count {})", fmt_c4(&x.0[0]), x.1, fmt_c4(&x.2[0]), x.3),
        Err(e) => format!("Err({e})"),
    }
}

fn hist_instantiate<C: Context>(ctx: &mut C, who: &str, def: &str, pts: &[P4]) -> Result<(Option<OpHandle>, Behaviour), Failure> {
    match try_op(ctx, def) {
        Err(p) => fail(format!("panic-instantiate@{}", p.sig()), format!("{who}: instantiating '{def}' panics: {} at {}:{}", p.msg, p.file, p.line)),
        Ok(Err(e)) => Ok((None, Err(format!("{e:?}")))),
        Ok(Ok(op)) => Ok((Some(op), behaviour(ctx, op, def, pts)?)),
    }
}

fn hist_check(c: &HistCase, rec: &mut Rec) -> CaseResult {
    let mut m = Minimal::new();
    let mut p = Plain::new();
    let mut g = GridCtx::new();
    hist_register(&mut m);
    hist_register(&mut p);
    hist_register(&mut g);
    // registrations in force: the built-in adaptors and the user macros, later registrations of a
    // name replace earlier ones (documented for run-time registrations; BTreeMap semantics of both contexts)
    let mut table: std::collections::BTreeMap<String, String> = BUILTIN_ADAPTORS.iter().chain(USER_MACROS.iter()).map(|(n, b)| (n.to_string(), b.to_string())).collect();
    let mut reregistered: Vec<String> = vec![];
    // (definition, reference behaviour from a fresh context, handles in the three long-lived contexts)
    let mut live: Vec<(String, Behaviour, [Option<OpHandle>; 3])> = vec![];
    for (k, def) in c.seq.iter().enumerate() {
        if let Some((name, body)) = parse_reg(def) {
            m.register_resource(name, body);
            p.register_resource(name, body);
            g.register_resource(name, body);
            if table.get(name).map(|b| b != body).unwrap_or(true) {
                reregistered.push(name.to_string());
            }
            table.insert(name.to_string(), body.to_string());
            rec.count("registrations", 1);
            continue;
        }
        // reference: a fresh context that has seen nothing but the registrations in force, each
        // name registered exactly once (Minimal::default() has no pre-registered adaptors)
        let mut fresh = Minimal::default();
        for (n, b) in &table {
            fresh.register_resource(n, b);
        }
        let (_, reference) = hist_instantiate(&mut fresh, "fresh Minimal", def, &c.pts)?;
        if reregistered.iter().any(|n| def.split(|ch: char| ch.is_whitespace() || ch == '|').any(|w| w == n)) {
            rec.count("instantiation_of_reregistered_macro", 1);
        }
        let (hm, bm) = hist_instantiate(&mut m, "Minimal", def, &c.pts)?;
        let (hp, bp) = hist_instantiate(&mut p, "Plain", def, &c.pts)?;
        let (hg, bg) = hist_instantiate(&mut g, "GridCtx", def, &c.pts)?;
        for (who, b) in [("Minimal", &bm), ("Plain", &bp), ("GridCtx (user Context)", &bg)] {
            vensure!(same_behaviour(&reference, b), "context-history-changes-behaviour",
                "'{def}' instantiated in a {who} context with the history {:?} behaves differently from the same definition in a fresh context holding the registrations in force (latest wins): {} vs fresh {} (probe {})",
                &c.seq[..k], show_behaviour(b), show_behaviour(&reference), fmt_c4(&c4(&c.pts[0])));
        }
        live.push((def.clone(), reference, [hm, hp, hg]));
    }
    // every earlier handle must still behave as when it was created
    for (def, reference, handles) in &live {
        for (i, who) in ["Minimal", "Plain", "GridCtx (user Context)"].iter().enumerate() {
            let Some(h) = handles[i] else { continue };
            let b = match i {
                0 => behaviour(&m, h, def, &c.pts)?,
                1 => behaviour(&p, h, def, &c.pts)?,
                _ => behaviour(&g, h, def, &c.pts)?,
            };
            vensure!(same_behaviour(reference, &b), "context-handle-changed-later",
                "the handle of '{def}' in the {who} context behaves differently after the whole history {:?}: {} vs originally {}", c.seq, show_behaviour(&b), show_behaviour(reference));
        }
    }
    rec.class(&format!("history of {}", c.seq.len().min(12)));
    rec.count("instantiations", 4 * live.len() as u64);
    rec.count("comparisons", (6 * live.len() * 2 * c.pts.len()) as u64);
    // non-trivial: some definition is instantiated after a different spelling of the same family
    // (macro / inverted macro / body text) or repeated
    let fams = hist_families();
    let fam_of = |d: &String| fams.iter().position(|f| f.contains(d));
    let mut interesting = false;
    for (i, d) in c.seq.iter().enumerate() {
        if let Some(f) = fam_of(d) {
            if c.seq[..i].iter().any(|e| fam_of(e) == Some(f)) {
                interesting = true;
            }
        }
    }
    if interesting || !reregistered.is_empty() {
        rec.nontrivial(&c.seq);
        if c.seq.iter().enumerate().any(|(i, d)| MACROS.iter().chain(USER_MACROS.iter()).any(|(mname, body)| d == body && c.seq[..i].iter().any(|e| e.contains(mname) && e.contains("inv")))) {
            rec.count("body_after_inverted_macro", 1);
        }
    }
    Ok(())
}

// ---------------------------------------------------------------------------------
// 7. series based auxiliary latitudes / meridian arcs vs closed forms / quadrature
// ---------------------------------------------------------------------------------

#[derive(Clone, Debug, Serialize, Deserialize)]
struct AuxCase {
    ell: String,
    /// geographic latitudes in degrees, |lat| <= 89.9 ("away from the poles")
    lats: Vec<F>,
}

/// The property states 1e-11 rad and 1e-6 m; measured on the tree: 2e-13 rad (authalic, conditioning
/// of asin at 89.9 deg) and 7e-9 m (quadrature and summation rounding). Margin >= 10x.
const AUX_TOL_RAD: f64 = 2.0e-12;
const ARC_TOL_M: f64 = 1.0e-7;
/// Bowring's (1983) meridian formulas are documented as truncated after the n^4 term:
/// measured 0.118 a n^4 (arc) and 0.98 a n^4 (inverse) over all table ellipsoids
const BOWRING_FWD_C: f64 = 0.5;
const BOWRING_INV_C: f64 = 3.0;

fn aux_strategy() -> BoxedStrategy<AuxCase> {
    let lat = prop_oneof![10 => -89.9f64..89.9, 1 => Just(0.0f64), 1 => prop_oneof![Just(89.9f64), Just(-89.9f64), Just(45.0f64)], 1 => -1e-6f64..1e-6];
    (ell_name(), prop::collection::vec(lat.prop_map(F), 1..=32)).prop_map(|(ell, lats)| AuxCase { ell, lats }).boxed()
}

fn aux_check(c: &AuxCase, rec: &mut Rec) -> CaseResult {
    let (e, el) = lib_ell(&c.ell)?;
    let conformal = e.coefficients_for_conformal_latitude_computations();
    let authalic = e.coefficients_for_authalic_latitude_computations();
    let rectifying = e.coefficients_for_rectifying_latitude_computations();
    let n4 = el.n3().powi(4);
    let scale = el.a / 6.378e6; // metre tolerances refer to an Earth sized ellipsoid
    let arc_tol = ARC_TOL_M * scale.max(1.0);
    let bow_fwd_tol = BOWRING_FWD_C * el.a * n4 + arc_tol;
    let bow_inv_tol = BOWRING_INV_C * el.a * n4 + arc_tol;

    // the transverse Mercator series on the central meridian is a third series for the meridian arc
    let tdef = format!("tmerc ellps={}", c.ell);
    let cm: Vec<Coor4D> = c.lats.iter().map(|l| Coor4D([0.0, l.0.to_radians(), 0.0, 0.0])).collect();
    let (tm_f, _) = apply_def(&tdef, true, &cm)?;
    let arcs: Vec<Coor4D> = c.lats.iter().map(|l| Coor4D([0.0, el.meridian_arc(l.0.to_radians()), 0.0, 0.0])).collect();
    let (tm_i, _) = apply_def(&tdef, false, &arcs)?;

    // per ellipsoid: meridian quadrant
    let qm = el.meridian_quadrant();
    let d = (e.meridian_quadrant() - qm).abs();
    rec.metric("worst_quadrant_m", d);
    vensure!(d <= arc_tol, "meridian-quadrant-vs-quadrature", "{}: meridian_quadrant() = {:?}, quadrature {:?}: {d:.3e} m apart (> {arc_tol:e})", c.ell, e.meridian_quadrant(), qm);
    let d = (e.rectifying_radius() * FRAC_PI_2 - qm).abs();
    vensure!(d <= arc_tol, "rectifying-radius-vs-quadrature", "{}: rectifying_radius()*pi/2 = {:?}, quadrature {:?}: {d:.3e} m apart (> {arc_tol:e})", c.ell, e.rectifying_radius() * FRAC_PI_2, qm);

    for (j, l) in c.lats.iter().enumerate() {
        let phi = l.0.to_radians();
        let here = format!("{} at latitude {:?} deg", c.ell, l.0);

        // closed forms in the library vs closed forms in the harness
        let pairs: [(&str, f64, f64); 4] = [
            ("geocentric", e.latitude_geographic_to_geocentric(phi), el.geocentric(phi)),
            ("geocentric-inv", e.latitude_geocentric_to_geographic(el.geocentric(phi)), phi),
            ("reduced", e.latitude_geographic_to_reduced(phi), el.reduced(phi)),
            ("reduced-inv", e.latitude_reduced_to_geographic(el.reduced(phi)), phi),
        ];
        for (what, lib, expect) in pairs {
            let d = (lib - expect).abs();
            rec.metric("worst_closed_rad", d);
            vensure!(d <= AUX_TOL_RAD, format!("latitude-{what}-vs-closed-form"), "{here}: library {what} {lib:?}, closed form {expect:?}: {d:.3e} rad apart (> {AUX_TOL_RAD:e})");
        }
        // series vs closed forms
        let chi = el.conformal(phi);
        let xi = el.authalic(phi);
        let pairs: [(&str, f64, f64); 4] = [
            ("conformal", e.latitude_geographic_to_conformal(phi, &conformal), chi),
            ("conformal-inv", e.latitude_conformal_to_geographic(chi, &conformal), phi),
            ("authalic", e.latitude_geographic_to_authalic(phi, &authalic), xi),
            ("authalic-inv", e.latitude_authalic_to_geographic(xi, &authalic), phi),
        ];
        for (what, lib, expect) in pairs {
            let d = (lib - expect).abs();
            rec.metric(&format!("worst_{}_rad", what.split('-').next().unwrap()), d);
            vensure!(d <= AUX_TOL_RAD, format!("latitude-{what}-series-vs-closed-form"), "{here}: series {what} {lib:?}, closed form {expect:?}: {d:.3e} rad apart (> {AUX_TOL_RAD:e})");
        }
        // The angle the library calls "rectifying latitude" is the meridian arc in units of a
        // (candidate 19, owned by C06): the angular claim is excluded, the arc is compared.
        rec.count("excluded_known_rectifying_angle", 1);
        let arc = el.meridian_arc(phi);
        let lib_arc = el.a * e.latitude_geographic_to_rectifying(phi, &rectifying);
        let d = (lib_arc - arc).abs();
        rec.metric("worst_series_arc_m", d);
        vensure!(d <= arc_tol, "meridian-arc-series-vs-quadrature", "{here}: a * rectifying series = {lib_arc:?} m, quadrature {arc:?} m: {d:.3e} m apart (> {arc_tol:e})");
        let back = e.latitude_rectifying_to_geographic(arc / el.a, &rectifying);
        let d = (back - phi).abs() * el.m(phi);
        rec.metric("worst_series_arc_inv_m", d);
        vensure!(d <= arc_tol, "meridian-arc-inverse-series-vs-quadrature", "{here}: inverse rectifying series of the quadrature arc gives {back:?} rad, expected {phi:?}: {d:.3e} m apart (> {arc_tol:e})");
        // Bowring's closed formulas
        let lib_arc = e.meridian_latitude_to_distance(phi);
        let d = (lib_arc - arc).abs();
        rec.metric("worst_bowring_arc_over_a_n4", if n4 > 0.0 { d / (el.a * n4) } else { 0.0 });
        rec.metric("worst_bowring_arc_m", d);
        vensure!(d <= bow_fwd_tol, "meridian-arc-bowring-vs-quadrature", "{here}: meridian_latitude_to_distance = {lib_arc:?} m, quadrature {arc:?} m: {d:.3e} m apart (> {bow_fwd_tol:e} = {BOWRING_FWD_C} a n^4 + floor)");
        let back = e.meridian_distance_to_latitude(arc);
        let d = (back - phi).abs() * el.m(phi);
        rec.metric("worst_bowring_inv_over_a_n4", if n4 > 0.0 { d / (el.a * n4) } else { 0.0 });
        vensure!(d <= bow_inv_tol, "meridian-arc-inverse-bowring-vs-quadrature", "{here}: meridian_distance_to_latitude of the quadrature arc gives {back:?} rad, expected {phi:?}: {d:.3e} m apart (> {bow_inv_tol:e} = {BOWRING_INV_C} a n^4 + floor)");
        // transverse Mercator on the central meridian
        let d = (tm_f[j][1] - arc).abs().max(tm_f[j][0].abs());
        rec.metric("worst_tmerc_cm_arc_m", d);
        vensure!(d <= arc_tol, "meridian-arc-tmerc-vs-quadrature", "{here}: '{tdef}' on the central meridian gives (E, N) = ({:?}, {:?}), quadrature arc {arc:?} m: {d:.3e} m apart (> {arc_tol:e})", tm_f[j][0], tm_f[j][1]);
        let d = ((tm_i[j][1] - phi) * el.m(phi)).abs().max((tm_i[j][0] * el.n(phi) * phi.cos()).abs());
        rec.metric("worst_tmerc_cm_inv_m", d);
        vensure!(d <= arc_tol, "meridian-arc-inverse-tmerc-vs-quadrature", "{here}: '{tdef}' Inv of (0, quadrature arc {arc:?}) gives (lon, lat) = ({:?}, {:?}) rad, expected (0, {phi:?}): {d:.3e} m apart (> {arc_tol:e})", tm_i[j][0], tm_i[j][1]);

        if l.0 != 0.0 {
            rec.nontrivial(&("aux", &c.ell, cell(l.0)));
        }
    }
    rec.class(ell_class(&c.ell));
    rec.count("comparisons", 16 * c.lats.len() as u64);
    Ok(())
}

// ---------------------------------------------------------------------------------

fn main() {
    let mut run = Run::init("C14");
    run.track_inflight(false);
    let names = ells().clone();
    assert!(names.len() == 47, "the ellipsoid hook lists {} names", names.len());

    run.assume("longitudes are angles: a raw longitude and the same value plus or minus whole turns denote the same meridian, so 'within three degrees of the central meridian' is meant modulo 360 deg, for central meridians and points written anywhere in +-1443 deg (both routes accept such values and agree on them on the unchanged tree); inverse longitudes are compared modulo a full turn (tmerc wraps its output, btmerc does not)");
    run.assume("tmerc/btmerc: compared for |lon - lon_0| <= 3 deg, all latitudes; lat_0 = 0 in the main section, lat_0 != 0 (the btmerc defect fixed by a7dda43) in its own section; inverse inputs are tmerc outputs rounded to 1 mm; tolerance = min(1 mm, calibrated Bowring truncation model: 1.5 a n^4 forward, 2.5e-4 a e'^6 inverse, + 2 um)");
    run.assume("cart: heights -10 km .. 100 km on an Earth sized ellipsoid, scaled with the semimajor axis (so that the unit sphere is meaningful); metre tolerances refer to ground distance; inverse tolerance = min(1 mm, 1.5e-4 a e'^6 + 1 um) (Bowring's non-iterative formula is the weaker route)");
    run.assume("geodesic operator: forward output layout (lat2, lon2, lat1, lon1) in degrees and inverse layout as in src/inner_op/geodesic.rs and its unit test; Rumination 002 describes the forward output differently (documentation slip, not asserted)");
    run.assume("operator-vs-method comparisons allow 4 ulp ('to rounding'); observed 0");
    run.assume("unitconvert vs adapt: 'exactly' is read as 'to the rounding of two separately defined conversion constants': 2 ulp for deg/gon<->rad, 4 ulp for deg<->gon; third and fourth element bit-identical");
    run.assume("rectifying latitude as an angle is not compared (scaled by the normalised meridian arc unit, owned by C06); its product with a is compared as the meridian arc");
    run.assume("Bowring's meridian formulas (documented as truncated after n^4) are compared with quadrature at 0.5 a n^4 (arc) and 3 a n^4 (inverse) + 1e-7 m, not at 1e-6 m ('to the accuracy of the weaker one')");
    run.assume("containers: the expected input tuple of a container is what its documentation states for get_coord (Coor2D: height 0, epoch NaN; Coor3D: epoch NaN; Coor32: f32 values; (set, h, t) and (set, t): the fixed values), written down in the harness, not read through the library; only single-step operators (2-D/3-D containers drop Z/T between pipeline steps by design)");
    run.assume("contexts: GridCtx (harness user Context) stands for 'any other Context implementation'; grid operators are exercised only through @null / optional-missing / missing-file definitions (no files)");

    // coverage of the hook's operator list by the context catalogue
    {
        let cat = ctx_catalogue();
        let mut uncovered = vec![];
        for name in geodesy::verif_hooks::builtin_operator_names() {
            let hit = cat.iter().any(|(d, _)| d.split('|').any(|s| s.split_whitespace().any(|w| w == name) && (s.trim_start().starts_with(name) || s.trim_start().starts_with("inv "))));
            if !hit && name != "pipeline" {
                uncovered.push(name.to_string());
            }
        }
        run.note("context_catalogue_size", serde_json::json!(cat.len()));
        run.note("uncovered_operators", serde_json::json!(uncovered));
    }

    let n = run.scale(30_000, 700_000);
    run.section(
        "tmerc-btmerc",
        "47 ellipsoids x (lon_0, k_0, x_0, y_0) x up to 48 points with |dlon| <= 3 deg, any latitude (classes: equator, poles, central meridian, strip edge), lat_0 = 0; lon_0 mostly inside (-180, 180), 1 in 5 at / near / beyond the +-180 cut; 4 in 9 points presented under another raw longitude of the same meridian (wrapped, a turn up / down); forward and inverse compared on the ground at 1 mm, forward also at the longitudes the inverse routes return; non-trivial = off the central meridian and the equator; distinct by (ellipsoid, 0.25 deg cell)",
        n,
        || tm_strategy(false, false),
        tm_check,
    );
    {
        let ellv: Vec<String> = std::iter::once(String::new()).chain(names.iter().cloned()).collect();
        let ne = ellv.len();
        let seed = run.seed;
        run.enumerate(
            "utm-butm-zones",
            "zones 0..=61 x north/south x {no ellps, each of 47 ellipsoids}: 'utm' vs 'butm' vs the explicit tmerc / btmerc with lon_0 = 6 zone - 183, k_0 = 0.9996, x_0 = 500000, y_0 = 0 | 1e7, on 16 points of the zone (edges at +-3 deg incl. the antimeridian, central meridian, equator, seeded points), each under all 10 presentations of its raw longitude (as computed, wrapped into [-180,180) / (-180,180] / [0,360), one or two turns up / down, exactly +180 / -180 in zones 1 and 60), forward also at the longitudes the inverse routes return; the routes must agree on whether the definition exists (1..60 accepted, 0 and 61 refused by both), utm/butm within the calibrated sub-millimetre tolerance both directions (longitudes modulo 2 pi), zone form vs explicit form within 1e-9 m",
            62 * 2 * ne,
            move |i| {
                let zone = (i % 62) as u32;
                let south = (i / 62) % 2 == 1;
                let ell = ellv[(i / 124) % ne].clone();
                ZoneCase { zone, south, ell, pts: zone_points(seed, i as u64) }
            },
            zone_check,
        );
    }
    let n = run.scale(8_000, 120_000);
    run.section(
        "tmerc-btmerc-lat_0",
        "as tmerc-btmerc but with a latitude of origin lat_0 != 0 (|lat_0| <= 80 deg): both routes must shift the northing by k_0 times the meridian arc of lat_0",
        n,
        || tm_strategy(true, false),
        tm_check,
    );
    let n = run.scale(12_000, 250_000);
    run.section(
        "tmerc-btmerc-antimeridian",
        "as tmerc-btmerc (lat_0 = 0), but the central meridian at, within 3 deg of, or beyond the +-180 deg cut (lon_0 = 177..180, -180..-177, 181, -183, 360, 540, 180..720, -720..-180), each point presented under one of 10 raw longitudes of the same meridian (as computed, wrapped into [-180,180) / (-180,180] / [0,360), one or two turns up or down, exactly +180 / -180), so that lon - lon_0 leaves [-180,180) on either side; forward compared at 1 mm for every presentation, inverse modulo a full turn, and forward again at the longitudes the two inverse routes hand back",
        n,
        || tm_strategy(false, true),
        tm_check,
    );
    let n = run.scale(30_000, 700_000);
    run.section(
        "cart-vs-ellipsoid",
        "47 ellipsoids x up to 48 generic points (lon in [-180, 180], exactly and within 1e-7 deg of +-180, and raw values out to +-540 deg; lat incl. the poles; h in -10..100 km scaled by a, t incl. NaN) + up to 8 points 1e-16..3e-3 rad from the axis; forward bit-identical with Ellipsoid::cartesian, inverse within 1 mm of Ellipsoid::geographic; non-trivial = off equator, poles and the 0/90/180 meridians",
        n,
        cart_strategy,
        cart_check,
    );
    let n = run.scale(30_000, 700_000);
    run.section(
        "operator-vs-method",
        "latitude (6 kinds, fwd+inv), curvature (5 kinds), geodesic (plain/reversible, direct+inverse), gravity (5 formulas + default, with/without zero-height) operators on 47 ellipsoids (and the implicit default) vs the Ellipsoid trait methods after the unit/order conversions of the operator; latitudes incl. the poles, raw longitudes out to +-540 deg and at +-180, geodesic inverse pairs with the second longitude as returned / wrapped / a turn up / down (straddling the +-180 cut with either sign); <= 4 ulp",
        n,
        wrap_strategy,
        wrap_check,
    );
    {
        let orders = all_orders();
        let no = orders.len();
        assert!(no == 443, "expected the empty order + 442 signed partial permutations, got {no}");
        run.enumerate(
            "axisswap-adapt",
            "all 442 signed partial permutations as axisswap orders of 1, 2, 3 and 4 indices (plus axisswap without order) x {no unit, _deg, _gon} x {from, to, inv from, inv to} x both directions: 'axisswap order=..' [| unitconvert] vs adapt with the descriptor of the order completed to four axes (order=-1 <-> wnuf, order=2,1 <-> neuf, ...); permuted and sign-flipped elements bit-identical, converted angles within 2 ulp, counts equal; non-trivial = not the identity",
            no * 3 * 4 * 2,
            move |i| {
                let order = orders[i % no].clone();
                let unit = ((i / no) % 3) as u8;
                let route = ((i / (no * 3)) % 4) as u8;
                let fwd = i / (no * 12) == 0;
                SwapCase { order, unit, route, fwd, probes: swap_probes(i) }
            },
            swap_check,
        );
    }
    let n = run.scale(15_000, 250_000);
    run.section(
        "unitconvert-adapt",
        "12 pairs (adapt / built-in macro vs unitconvert [| axisswap]) for deg, gon <-> rad and deg <-> gon x both directions x up to 64 tuples (angles, zeros, huge/tiny, NaN/inf, random bit patterns); horizontal elements within 2 (4) ulp, other elements bit-identical",
        n,
        unit_strategy,
        unit_check,
    );
    {
        let cat = ctx_catalogue();
        let ncat = cat.len();
        let reps = run.scale(6, 90);
        let seed = run.seed;
        run.enumerate(
            "contexts",
            "every catalogue definition (all built-in operator names, 8 built-in macros, user macros, pipelines with modifiers, stack programs, rejected definitions) x {no ellps, each of 47 ellipsoids} x probe sets; Minimal, Plain and a user Context must agree on Ok/Err, steps, and bit for bit on results and counts in both directions",
            ncat * reps,
            move |i| {
                let (def, dom) = cat[i % ncat].clone();
                CtxCase { def, dom, pts: ctx_points(dom, seed, i as u64, 12) }
            },
            ctx_check,
        );
    }
    let n = run.scale(5_000, 80_000);
    run.section(
        "operator-containers",
        "40+ elementary operator definitions of the route pairs (cart, latitude, curvature, geodesic, gravity, tmerc/btmerc/utm/butm, axisswap, unitconvert, adapt; 47 ellipsoids) x direction x 8 tuples x all 36 container kinds (Vec / array / &mut slice of Coor4D, Coor3D, Coor2D, Coor32, each plain, in (set, h, t) and in (set, t), h mostly != 0, t incl. NaN): stored result and count must equal, bit for bit, the operator on a Vec<Coor4D> of the tuples the container documents (height 0 / epoch NaN / f32 / fixed values), and for cart forward also Ellipsoid::cartesian of those tuples; non-trivial = not a plain 4-D container",
        n,
        cont_strategy,
        cont_check,
    );
    let n = run.scale(4_000, 60_000);
    let maxlen = if run.is_thorough() { 24 } else { 12 };
    run.section(
        "context-histories",
        "sequences of 2..12 (thorough 24) definitions instantiated in ONE long-lived Minimal, Plain and user Context each: the 8 built-in and 3 user macros plain / 'inv' in three spellings / as their body text in two layouts / body inverted, concentrated on two families per case, mixed with other built-ins, pipelines, repeats, rejected definitions and (re-)registrations of the macro names (built-in adaptor names included) with one of 12 other bodies in all three contexts; the reference is a fresh context holding the registrations in force (latest wins); after every instantiation the new handle must behave bit for bit (both directions, counts, Ok/Err) like the same definition in a fresh context, and at the end every earlier handle is re-checked; non-trivial = a definition follows another spelling of the same family",
        n,
        move || hist_strategy(maxlen),
        hist_check,
    );
    let n = run.scale(15_000, 300_000);
    run.section(
        "series-vs-closed-form",
        "47 ellipsoids x up to 32 latitudes |lat| <= 89.9 deg: conformal and authalic series (both directions) vs closed forms (2e-12 rad, property level 1e-11), geocentric/reduced vs closed forms; three meridian arc series (a x rectifying series, its inverse, tmerc on its central meridian both directions, meridian quadrant) vs Gauss-Legendre quadrature of M (1e-7 m, property level 1e-6); Bowring's formulas vs quadrature (0.5 / 3 a n^4)",
        n,
        aux_strategy,
        aux_check,
    );

    run.finish("differential comparison of route pairs the library offers (and of its series with closed forms / quadrature) on generated points of the common domain for all 47 built-in ellipsoids; non-trivial = point off all symmetry lines, distinct by (pair, ellipsoid, 0.25 degree cell)");
}
